#!/venv/bin/python
"""Regenerate /verif/MANIFEST.json from sa/claims.py (claimed checks) + properties.jsonl (everything else -> not_applicable)."""
import json
import os
import sys

VERIF = os.path.dirname(os.path.dirname(os.path.abspath(__file__)))
sys.path.insert(0, VERIF)
from sa.claims import CLAIMS, LEVEL_NOTE, PENDING_REASON  # noqa: E402

try:
    from sa.claims import NOT_APPLICABLE
except ImportError:
    NOT_APPLICABLE = {}

props = [json.loads(l) for l in open(os.path.join(VERIF, "properties.jsonl"))]
checks, na = [], []
for p in props:
    pid = p["id"]
    if pid in CLAIMS and os.path.exists(os.path.join(VERIF, "sa", "rules", pid.lower() + ".py")):
        c = CLAIMS[pid]
        checks.append({
            "property_id": pid,
            "quick_cmd": f"./check {pid} --tier quick",
            "thorough_cmd": f"./check {pid} --tier thorough",
            "evidence_file": f"evidence/{pid}.json",
            "replay_cmd_template": f"./check {pid} --replay {{path}}",
            "engine": "sa",
            "level_claimed": {"category": "other", "text": c["text"], "design_ref": c["design_ref"]},
            "level_note": LEVEL_NOTE,
            "technique": c["technique"],
        })
    else:
        na.append({"property_id": pid, "reason": NOT_APPLICABLE.get(pid, PENDING_REASON)})
m = {
    "version": 1,
    "setup_cmd": "/venv/bin/python -W ignore -m sa --selfcheck",
    "hooks": {
        "guard": "CUTADAPT_VERIF",
        "enable": "none needed: the checks read /repo's source text only and never import, build or run cutadapt (the guard variable is unused)",
        "baseline_off_cmd": "cd /repo && /venv/bin/python -m pytest -ra -q -p no:cacheprovider --timeout=900 --continue-on-collection-errors",
        "source_commits": [],
        "add_only": True,
    },
    "engines": [{
        "name": "sa", "path": "sa/", "serves_properties": [c["property_id"] for c in checks],
        "kind_free_text": "repository-specific static analyser: ast + Cython-parser front ends lowered to one IR, class/method resolution, abstract execution over a finite sign/linear domain (decision tables, path-exhaustive effect accounting), builder interpreter, table/sibling/signature agreement; exit 0 held / 1 VIOLATION / 2 ANALYSIS-ERROR",
    }],
    "checks": checks,
    "not_applicable": na,
    "notes": "Static analysis only. Each check re-parses /repo's working tree on every run. Genuine defects found on the pinned tree were repaired by 'fix:' commits in /repo or are listed in known_findings.json; see DESIGN.md.",
}
json.dump(m, open(os.path.join(VERIF, "MANIFEST.json"), "w"), indent=1)
print(f"{len(checks)} checks, {len(na)} not_applicable")
