#!/bin/bash
# usage: at_commit.sh <commit> <Cnn|all>  - run the checks on /repo's sources as of <commit> (scratch copy under /tmp, removed afterwards)
T=$(mktemp -d /tmp/atcommit.XXXXXX); trap 'rm -rf "$T"' EXIT
git -C /repo archive "$1" src/cutadapt | tar -x -C "$T"
cd /verif && VERIF_REPO="$T" ./check "$2" --no-evidence
