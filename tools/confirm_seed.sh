#!/bin/bash
# usage: confirm_seed.sh <src dir with patch.diff demo.py notes.json> <seed id>
# Confirms a seeded change in a scratch worktree of /repo (outside /repo and /verif), then stores it in /verif/seeded/<id>/.
# Confirmed = patch applies to the current /repo HEAD, the full test suite passes with it, demo.py fails with it and passes without it.
set -u
SRC="$1"; ID="$2"
WT=$(mktemp -d /tmp/seedwt.XXXXXX)
OUT=/verif/seeded/$ID
log() { echo "[$ID] $*"; }
cleanup() { git -C /repo worktree remove --force "$WT" >/dev/null 2>&1; rm -rf "$WT"; git -C /repo worktree prune >/dev/null 2>&1; }
trap cleanup EXIT
rmdir "$WT"
git -C /repo worktree add --detach "$WT" HEAD >/dev/null 2>&1 || { log "worktree failed"; exit 3; }
cp /repo/src/cutadapt/*.so /repo/src/cutadapt/_version.py "$WT/src/cutadapt/" 2>/dev/null
export PYTHONPATH="$WT/src" PATH=/venv/bin:$PATH
run_demo() { ( cd "$WT" && timeout 600 /venv/bin/python "$SRC/demo.py" >"$WT/demo.out" 2>&1 ); echo $?; }
rebuild() { for f in $(git -C "$WT" diff --name-only | grep -E '\.(pyx|h)$' | sed 's/expected_errors.h/qualtrim.pyx/' | sort -u); do ( cd "$WT/src/cutadapt" && touch "$(basename $f)" && /venv/bin/cythonize -i -3 "$(basename $f)" >/dev/null 2>&1 ) || return 1; done; return 0; }
PRE=$(run_demo)
if [ "$PRE" != "0" ]; then log "REJECT demo fails on pristine (exit $PRE)"; tail -3 "$WT/demo.out"; exit 1; fi
git -C "$WT" apply "$SRC/patch.diff" 2>/dev/null || git -C "$WT" apply --3way "$SRC/patch.diff" 2>/dev/null || { log "REJECT patch does not apply"; exit 1; }
CHANGED=$(git -C "$WT" diff --name-only | tr '\n' ' ')
PYX=$(git -C "$WT" diff --name-only | grep -E '\.(pyx|h)$' | sed 's/expected_errors.h/qualtrim.pyx/' | sort -u)
for f in $PYX; do ( cd "$WT/src/cutadapt" && touch "$(basename $f)" && /venv/bin/cythonize -i -3 "$(basename $f)" >/dev/null 2>&1 ) || { log "REJECT rebuild failed"; exit 1; }; done
TESTS=$( cd "$WT" && timeout 900 /venv/bin/python -m pytest -q -p no:cacheprovider -x tests 2>&1 | tail -1 )
case "$TESTS" in *failed*|*error*) log "REJECT tests: $TESTS"; exit 1;; esac
POST=$(run_demo)
if [ "$POST" = "0" ]; then log "REJECT demo passes with the change"; exit 1; fi
DEMO_TAIL=$(tail -2 "$WT/demo.out" | tr '\n' ' ' | cut -c1-300)
mkdir -p "$OUT"
cp "$SRC/patch.diff" "$SRC/demo.py" "$OUT/"
/venv/bin/python - "$SRC/notes.json" "$OUT/meta.json" "$ID" "$TESTS" "$POST" "$CHANGED" "$DEMO_TAIL" <<'PY'
import json, sys
notes = json.load(open(sys.argv[1]))
meta = {
 "id": sys.argv[3], "property": notes.get("property"), "summary": notes.get("summary"),
 "needs_to_manifest": notes.get("manifests_when"), "files": sys.argv[6].split(),
 "confirmed": {
   "how": "tools/confirm_seed.sh in a scratch git worktree of /repo HEAD: demo.py exit 0 on pristine; patch applied (+ cythonize rebuild of changed .pyx); full pytest suite; demo.py non-zero with the change",
   "test_suite_with_change": sys.argv[4], "demo_exit_pristine": 0, "demo_exit_with_change": int(sys.argv[5]), "demo_output_tail": sys.argv[7]},
 "origin": "independent sub-agent given only the property text and a scratch worktree",
}
json.dump(meta, open(sys.argv[2], "w"), indent=1)
PY
log "CONFIRMED tests='$TESTS' demo_with_change=$POST files=$CHANGED"
