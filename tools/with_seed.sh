#!/bin/bash
# usage: with_seed.sh <seed id> <check args...>   - run ./check on a temp copy of /repo's sources with the seeded change applied (copy removed afterwards)
ID="$1"; shift
T=$(mktemp -d /tmp/ws.XXXXXX); trap 'rm -rf "$T"' EXIT
mkdir -p "$T/src"; cp -r /repo/src/cutadapt "$T/src/"; cp -r /repo/doc "$T/" 2>/dev/null
( cd "$T" && patch -p1 -s --no-backup-if-mismatch < /verif/seeded/$ID/patch.diff ) || { echo PATCH-FAILED; exit 3; }
cd /verif && VERIF_REPO="$T" ./check "$@" --no-evidence
