#!/bin/bash
# usage: rebase_seed.sh <seed id>  - re-apply a stored seeded change to /repo's HEAD with fuzz (after a fix commit touched nearby lines),
# regenerate its patch and confirm it again with confirm_seed.sh.  Scratch worktree under /tmp, removed afterwards.
set -u
ID="$1"; S=/verif/seeded/$ID
WT=$(mktemp -d /tmp/rebwt.XXXXXX); SRC=$(mktemp -d /tmp/rebsrc.XXXXXX)
cleanup() { git -C /repo worktree remove --force "$WT" >/dev/null 2>&1; rm -rf "$WT" "$SRC"; git -C /repo worktree prune >/dev/null 2>&1; }
trap cleanup EXIT
rmdir "$WT"; git -C /repo worktree add --detach "$WT" HEAD >/dev/null 2>&1 || exit 3
( cd "$WT" && patch -p1 --fuzz=3 --no-backup-if-mismatch < "$S/patch.diff" >/dev/null ) || { echo "[$ID] REBASE-FAILED (apply by hand)"; find "$WT" -name '*.rej' | head; exit 1; }
git -C "$WT" diff > "$SRC/patch.diff"
cp "$S/demo.py" "$SRC/"
/venv/bin/python - "$S/meta.json" "$SRC/notes.json" <<'PY'
import json, sys
m = json.load(open(sys.argv[1]))
json.dump({"property": m["property"], "summary": m["summary"], "manifests_when": m.get("needs_to_manifest"), "files": m.get("files")}, open(sys.argv[2], "w"))
PY
git -C "$WT" checkout -- . >/dev/null 2>&1
/verif/tools/confirm_seed.sh "$SRC" "$ID"
