#!/venv/bin/python
"""Print the markdown table of confirmed seeded changes and the rules that catch them (from seeded/*/meta.json and seeded/RESULTS.json)."""
import json
import os

V = os.path.dirname(os.path.dirname(os.path.abspath(__file__)))
res = json.load(open(os.path.join(V, "seeded", "RESULTS.json")))
print("| seed | file(s) | change | caught by |")
print("|---|---|---|---|")
for sid in sorted(res):
    m = json.load(open(os.path.join(V, "seeded", sid, "meta.json")))
    files = ", ".join(os.path.basename(f) for f in m.get("files", []))
    summ = " ".join(m["summary"].split())
    if len(summ) > 210:
        summ = summ[:207] + "..."
    rules = "; ".join(f"{r} ({cs[0][:48]})" for r, cs in sorted(res[sid]["rules"].items())[:3])
    print(f"| {sid} | {files} | {summ.replace('|', '/')} | {rules.replace('|', '/')} |")
