#!/venv/bin/python
"""
Run the static checks against every confirmed seeded change under /verif/seeded/.

For each seed a scratch copy of /repo's package sources is made under a temp dir
(outside /repo and /verif), the patch is applied there, and the checks are run with
VERIF_REPO pointing at the copy (nothing is executed, /repo is never touched).
Prints one line per seed:  <id> target=<prop> caught_by=<rules> (or MISSED).
Usage: tools/run_seeded.py [seed-id ...] [--all-props] [-j N]
"""
import concurrent.futures
import json
import os
import re
import shutil
import subprocess
import sys
import tempfile

VERIF = os.path.dirname(os.path.dirname(os.path.abspath(__file__)))
REPO = os.environ.get("VERIF_REPO_BASE", "/repo")


def run_one(seed, all_props=True):
    sdir = os.path.join(VERIF, "seeded", seed)
    meta = json.load(open(os.path.join(sdir, "meta.json")))
    prop = meta["property"]
    tmp = tempfile.mkdtemp(prefix="seedchk.")
    try:
        dst = os.path.join(tmp, "src", "cutadapt")
        os.makedirs(dst)
        for fn in os.listdir(os.path.join(REPO, "src", "cutadapt")):
            if fn.endswith((".py", ".pyx", ".pyi", ".h")):
                shutil.copy(os.path.join(REPO, "src", "cutadapt", fn), dst)
        r = subprocess.run(["git", "apply", "--include=src/cutadapt/*", os.path.join(sdir, "patch.diff")], cwd=tmp, capture_output=True, text=True)
        if r.returncode != 0:
            return seed, prop, "PATCH-FAILED", r.stderr.strip()[:200], {}
        env = dict(os.environ, VERIF_REPO=tmp)
        target = "all" if all_props else prop
        r = subprocess.run([os.path.join(VERIF, "check"), target, "--no-evidence"], cwd=VERIF, env=env, capture_output=True, text=True)
        fired = {}
        errors = []
        cur = None
        for line in r.stdout.splitlines():
            m = re.match(r"VIOLATION property=(C\d+)", line)
            if m:
                cur = m.group(1)
                continue
            m = re.match(r"\s+rule=(\S+) construct=(.*?) at ", line)
            if m and cur:
                fired.setdefault(m.group(1), []).append(m.group(2)[:70])
            m = re.match(r"ANALYSIS-ERROR property=(\S+) rule=(\S+) anchor=(.*)", line)
            if m:
                errors.append(f"{m.group(2)}: {m.group(3)[:120]}")
        return seed, prop, "OK", errors, fired
    finally:
        shutil.rmtree(tmp, ignore_errors=True)


def baseline():
    r = subprocess.run([os.path.join(VERIF, "check"), "all", "--no-evidence"], cwd=VERIF, capture_output=True, text=True)
    fired = set()
    errors = set()
    cur = None
    for line in r.stdout.splitlines():
        m = re.match(r"\s+rule=(\S+) construct=(.*?) at ", line)
        if m:
            fired.add((m.group(1), m.group(2)[:70]))
        m = re.match(r"ANALYSIS-ERROR property=(\S+) rule=(\S+) anchor=(.*)", line)
        if m:
            errors.add(f"{m.group(2)}: {m.group(3)[:120]}")
    return fired, errors


def main():
    args = [a for a in sys.argv[1:] if not a.startswith("-")]
    jobs = 8
    if "-j" in sys.argv:
        jobs = int(sys.argv[sys.argv.index("-j") + 1])
        args = [a for a in args if a != str(jobs)]
    seeds = args or sorted(d for d in os.listdir(os.path.join(VERIF, "seeded")) if os.path.exists(os.path.join(VERIF, "seeded", d, "meta.json")))
    base_fired, base_err = baseline()
    print(f"baseline: {len(base_fired)} violations, {len(base_err)} analysis errors on the unchanged tree")
    caught = missed = 0
    results = {}
    with concurrent.futures.ThreadPoolExecutor(jobs) as ex:
        for seed, prop, status, errors, fired in ex.map(run_one, seeds):
            if status != "OK":
                print(f"{seed} target={prop} {status} {errors}")
                continue
            new = {r: [c for c in cs if (r, c) not in base_fired] for r, cs in fired.items()}
            new = {r: cs for r, cs in new.items() if cs}
            newerr = [e for e in errors if e not in base_err]
            if new:
                caught += 1
                tag = "CAUGHT"
            elif newerr:
                tag = "ANALYSIS-ERROR-ONLY"
                missed += 1
            else:
                tag = "MISSED"
                missed += 1
            results[seed] = {"target": prop, "result": tag, "rules": new, "analysis_errors": newerr}
            print(f"{seed} target={prop} {tag} rules={ {r: cs[:2] for r, cs in new.items()} } errors={newerr[:2]}")
    print(f"caught={caught} missed={missed} of {len(seeds)}")
    path = os.path.join(VERIF, "seeded", "RESULTS.json")
    try:
        allres = json.load(open(path)) if args else {}
    except (OSError, ValueError):
        allres = {}
    allres.update(results)
    with open(path, "w") as f:
        json.dump(allres, f, indent=1, sort_keys=True)


if __name__ == "__main__":
    main()
