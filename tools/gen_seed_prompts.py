#!/venv/bin/python
"""Prepare a round of seeded-change sub-agents: one scratch worktree of /repo and one prompt file per property under
<root> (outside /repo and /verif).  The prompt holds the property's text and one-line summaries of the earlier rounds'
changes (so that new ones hit other constructs) - nothing else from /verif.  usage: gen_seed_prompts.py <root> <round>"""
import sys
ROOT, ROUND = sys.argv[1], sys.argv[2]
import json, os, subprocess, glob, shutil
os.makedirs(f"{ROOT}/prompts", exist_ok=True)
props={}
for l in open('/verif/properties.jsonl'):
    p=json.loads(l); props[p['id']]=p
for pid,p in sorted(props.items()):
    base=f"{ROOT}/{pid}"
    os.makedirs(base+"/out", exist_ok=True)
    subprocess.run(["git","-C","/repo","worktree","add","--detach",base+"/wt","HEAD"],capture_output=True)
    for so in glob.glob("/repo/src/cutadapt/*.so")+["/repo/src/cutadapt/_version.py"]:
        shutil.copy(so, base+"/wt/src/cutadapt/")
    prev=[]
    for d in sorted(glob.glob(f"/verif/seeded/{pid}-s*/meta.json")):
        m=json.load(open(d))
        prev.append(f"[{', '.join(os.path.basename(f) for f in m['files'])}] "+" ".join(m["summary"].split())[:230])
    anchors=", ".join(p["anchors"]["files"])
    text=f"""You are helping to evaluate a verification effort for the open-source tool cutadapt (marcelm/cutadapt), a bioinformatics CLI/library that finds and trims adapter sequences from FASTQ/FASTA reads.

You have your own scratch git worktree of the cutadapt repository at {base}/wt (a detached checkout of the current commit; compiled Cython extensions are already copied into {base}/wt/src/cutadapt/). Work ONLY inside {base}/wt and {base}/out. Do NOT touch /repo or /verif, and do not read anything under /verif.

How to run things:
- Python: /venv/bin/python (3.12). Always run with  PYTHONPATH={base}/wt/src  so that your worktree's code is imported (check with: PYTHONPATH={base}/wt/src /venv/bin/python -c "import cutadapt; print(cutadapt.__file__)").
- Test suite (takes ~15 s):  cd {base}/wt && PATH=/venv/bin:$PATH PYTHONPATH={base}/wt/src /venv/bin/python -m pytest -q -p no:cacheprovider tests
- If you edit a .pyx file you must rebuild it in place:  cd {base}/wt/src/cutadapt && /venv/bin/cythonize -i -3 <file>.pyx   (about 10 s; `setup.py build_ext` does not work here). expected_errors.h is included by qualtrim.pyx (touch + rebuild qualtrim.pyx after editing the header). Remove any src/build directory and generated .c files that cythonize creates.
- There is no network. Every shell command prints a harmless "WARNING conda.cli.condarc" line; ignore it.

THE PROPERTY (of cutadapt's behaviour) that should always hold:

  id: {pid}
  title: {p['title']}
  statement: {p['statement']}
  quantified over: {p['quantifier']['text']}
  why the existing tests cannot settle it: {p['why_tests_cant']}
  code involved: {anchors}

YOUR TASK: produce up to THREE independent, realistic source changes ("seeded defects") to cutadapt's source (under src/cutadapt/), each of which
  (a) BREAKS the property above for some input/configuration,
  (b) still compiles/imports, and the COMPLETE existing test suite still passes with it (all tests that pass without the change must still pass), and
  (c) needs something specific to manifest - e.g. a particular option combination, an unusual input (boundary value, tie, short read, N bases, empty read), a multi-step sequence, a particular chunking/schedule, or two cooperating sites that each look fine alone - NOT something that ordinary use would expose at once.
Make them the kind of change that could plausibly slip through code review. This is round {ROUND}; earlier rounds already covered the obvious spots (list below). Look for what they did NOT touch:
  - clauses of the property statement that none of the earlier changes breaks;
  - helper functions, base classes, constructors, properties (@property), __reduce__/__getstate__, default arguments, class attributes and module-level tables that the main code path relies on;
  - changes of a different KIND than before: a restructuring (loop rewritten, early exit added, helper inlined/extracted, if/elif order changed, two statements swapped), a changed default, a boundary in a range()/slice, a wrong attribute of the right object, state that leaks between iterations or between reads, an exception type changed or swallowed, a value computed once instead of per item (or the reverse);
  - at least one change, if at all possible, in a file that no earlier change for this property touched.
Each change should be small (typically 1-15 changed lines). Do not change tests. Do not add obviously malicious code (no special-casing of magic inputs). Make the three changes different in kind and located in different functions.

Earlier rounds produced these changes for this property; do NOT repeat them or close variants of them:
""" + "\n".join(f"  - {x}" for x in prev) + f"""

For each change number N in 1..3 create the directory {base}/out/N/ containing:
  - patch.diff : output of `git -C {base}/wt diff` for exactly that change alone (relative to the pristine checkout; it must apply with `git apply` at the repository root),
  - demo.py : a small standalone Python program demonstrating the violation: run as `PYTHONPATH=<repo>/src /venv/bin/python demo.py`; it must exit with status 0 on the pristine code and with a non-zero status (e.g. failed assert) on the changed code. It should check the PROPERTY (e.g. compare with an independent oracle or with the documented behaviour), not merely detect the textual change. It must not depend on files outside the repository except temp files it creates itself (it may use files in <repo>/tests/data or tests/cut via a path derived from the imported cutadapt package location: os.path.dirname(cutadapt.__file__)/../../tests/...). If it runs the command line, use [sys.executable, "-m", "cutadapt", ...] with the same PYTHONPATH in env.
  - notes.json : {{"property": "{pid}", "summary": "<one sentence: what was changed>", "manifests_when": "<what specific input/config/sequence is needed>", "files": ["<changed files>"]}}

Procedure for each change: make the edit in {base}/wt; rebuild if .pyx; run the full test suite and confirm it passes (697 tests collected; all pass when PATH includes /venv/bin); run demo.py and confirm it FAILS; save the patch; then restore the pristine state (`git -C {base}/wt checkout -- .` and rebuild any .pyx you had changed so the .so matches the pristine source again) and confirm demo.py PASSES on pristine code. Only keep changes for which you verified all of this yourself. Leave the worktree pristine at the end (git status clean apart from ignored files, .so files rebuilt from pristine sources).

Before inventing changes, read the relevant source files so the changes are grounded in the real code. If the pristine code ALREADY violates the property for some inputs, that's fine - pick changes that introduce NEW violations and make sure demo.py passes on pristine code; mention such pre-existing violations in your final report (with the exact input), they are valuable.

Finish with a short plain-text report: for each kept change, its directory, a one-line summary, and the commands you ran to verify it (test-suite result, demo result with and without the change)."""
    open(f"{ROOT}/prompts/{pid}.txt","w").write(text)
print("ok")
