"""
A3 helper: compare the decision tree of a fragment (absint.explore) with the table a
property states.

A *role map* names the abstract inputs of the table:
    roles = {"dscore": Sign(Lin.atom("CUR.score") - Lin.atom("BEST.score")),
             "first":  Bool("isnone:BEST")}
The rule's oracle is a function of the role values; the code's outcome is a function of
the matching row(s).  The comparison is exhaustive over the product of the role domains.
Atoms that occur in the tree but not in the role map are tolerated only if the outcome
does not depend on them; otherwise the obligation is UNRECOGNISED (the code decides on
something the table does not describe - shape not understood), never a violation.
"""
from __future__ import annotations

import itertools

from .absint import feasible, register_lin, vkey
from .core import Unrecognised
from .lin import Lin


class Sign:
    """Role: sign of a linear form (values -1, 0, +1)."""

    def __init__(self, form: Lin, values=(-1, 0, 1)):
        p, flipped = form.normalised_sign_form()
        self.key = "sign:" + p.key()
        self.flipped = flipped
        self.values = tuple(values)
        self.form = p
        register_lin(self.key, p)

    def to_atom(self, v):
        return -v if self.flipped else v


class Bool:
    def __init__(self, key: str, values=(False, True), negate=False):
        self.key = key
        self.values = tuple(values)
        self.negate = negate

    def to_atom(self, v):
        return (not v) if self.negate else v


def check_table(rows, roles: dict, expected, outcome, *, constraint=None, ignore_atoms=(), independent_extras=False):
    """
    rows      : decision tree from absint.explore
    roles     : name -> Sign | Bool
    expected  : fn(role_values: dict) -> expected outcome (any comparable), or the
                special value SKIP to leave a combination unconstrained
    outcome   : fn(row) -> outcome of the code on that row
    constraint: optional fn(role_values) -> bool; False = combination outside the table
    independent_extras: the caller states that quantities outside the role map are inputs of their own (any value
                can occur together with the table row); an outcome that depends on one of them and differs from the
                expected outcome for some value is then a mismatch instead of an unrecognised shape
    Returns (mismatches, n_cases, details).  Raises Unrecognised if the tree depends on
    atoms outside the role map.
    """
    names = list(roles)
    known = {roles[n].key for n in names}
    mismatches, details = [], []
    n_cases = 0
    for combo in itertools.product(*[roles[n].values for n in names]):
        rv = dict(zip(names, combo))
        if constraint is not None and not constraint(rv):
            continue
        total = {roles[n].key: roles[n].to_atom(rv[n]) for n in names}
        if not feasible(total):
            continue
        cands = []
        for r in rows:
            if all(not (k in total and total[k] != v) for k, v in r.valuation.items()):
                # rows with extra sign atoms must be jointly feasible with the total valuation
                merged = dict(total)
                merged.update(r.valuation)
                if feasible(merged) and consistent(merged):
                    cands.append(r)
        if not cands:
            raise Unrecognised(f"no row of the decision tree matches the table row {rv}")
        outs = []
        for r in cands:
            o = outcome(r)
            if o not in outs:
                outs.append(o)
        exp = expected(rv)
        n_cases += 1
        if exp is SKIP:
            continue
        if len(outs) > 1:
            extra = sorted({k for r in cands for k in r.valuation if k not in known and k not in ignore_atoms})
            if exp not in outs:
                # whatever the other quantities are, the code never does what the table demands
                mismatches.append({"inputs": _show_rv(rv), "code": outs, "expected": exp})
                continue
            if not extra:
                # the outcomes differ only with quantities the caller declared irrelevant for the expected outcome:
                # some feasible case of this table row is decided differently
                mismatches.append({"inputs": _show_rv(rv), "code": outs, "expected": exp, "differs_with": sorted({k for r in cands for k in r.valuation if k in ignore_atoms})[:4]})
                continue
            if independent_extras:
                mismatches.append({"inputs": _show_rv(rv), "code": outs, "expected": exp, "depends_on": extra[:3]})
                continue
            raise Unrecognised(f"outcome depends on atoms outside the role map {extra} for table row {rv}: {outs}")
        details.append((rv, outs[0], exp))
        if outs[0] != exp:
            mismatches.append({"inputs": _show_rv(rv), "code": outs[0], "expected": exp})
    return mismatches, n_cases, details


SKIP = object()


def _show_rv(rv):
    out = {}
    for k, v in rv.items():
        if v is True or v is False:
            out[k] = v
        else:
            out[k] = {-1: "<", 0: "=", 1: ">"}.get(v, v)
    return out


def final(row, name):
    v = row.env.get(name)
    return vkey(v) if v is not None else None


def consistent(val: dict) -> bool:
    """Cross-atom facts about one opaque value K: None is falsy and equals no constant; K equals at most one constant."""
    eq_true = {}
    for k, v in val.items():
        if k.startswith("eq:") and v is True:
            obj = k[3:].rsplit(":", 1)[0]
            eq_true.setdefault(obj, 0)
            eq_true[obj] += 1
            if val.get("isnone:" + obj) is True:
                return False
            if val.get("truthy:" + obj) is False and k[3:].rsplit(":", 1)[1] not in ("''", "b''", "0", "False", "None"):
                return False
        if k.startswith("truthy:") and v is True and val.get("isnone:" + k[7:]) is True:
            return False
    return all(n <= 1 for n in eq_true.values())
