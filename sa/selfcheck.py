"""setup_cmd: verify that the front ends are importable and the repository parses. Exit 0/2."""
import sys


def main():
    try:
        import Cython  # noqa: F401
        from .repo import Repo

        r = Repo()
        print(f"selfcheck ok: {len(r.modules)} modules, {len(r.classes)} classes, Cython {Cython.__version__}")
        return 0
    except Exception as e:  # noqa: BLE001
        print(f"ANALYSIS-ERROR rule=engine anchor=selfcheck: {type(e).__name__}: {e}")
        return 2
