"""
Normal forms (DESIGN.md 4.2), applied once to every parsed module before any rule looks at it, so that
all rules - also those that compare expression text - are insensitive to these spellings:

N1  if not c: A else: B          ->  if c: B else: A          (only a plain else, not an elif chain)
N2  a OP b with one operator      ->  operands in a canonical order (a constant goes right; otherwise the
                                      textually smaller operand goes left) with the mirrored operator
N3  not (a OP b)                  ->  a COMPLEMENT(OP) b        (==, !=, <, <=, >, >=, is, is not, in, not in)
N4  x = x + e / x = x - e         ->  x += e / x -= e
N5  if c: x = a else: x = b       ->  x = a if c else b         (same single target in both branches)
N6  a if not c else b             ->  b if c else a
N7  if a NEG b: A else: B         ->  if a POS b: B else: A    (NEG in !=, is not, not in, >=, <=; plain else only; also for
                                      conditional expressions) - one polarity per two-way decision
N8  if c: ...jump  else: rest    ->  if c: ...jump ; rest      (jump = return / raise / continue / break as the last statement;
                                      also for elif chains; if only the else branch ends in a jump:  if not c: <else> ; body)
N9  if a: (if b: X)               ->  if a and b: X            (no else on either; nested and-chains are flattened)
N10 in test positions (if / while / conditional expression / assert / comprehension filter): negations are pushed inward
    (De Morgan), double negations dropped, comparisons complemented
Positions (lineno/col_offset) of the rewritten nodes are kept for reporting.
"""
from __future__ import annotations

import ast

_MIRROR = {ast.Lt: ast.Gt, ast.Gt: ast.Lt, ast.LtE: ast.GtE, ast.GtE: ast.LtE, ast.Eq: ast.Eq, ast.NotEq: ast.NotEq}
_NEGATIVE = (ast.NotEq, ast.IsNot, ast.NotIn, ast.GtE, ast.LtE)
_COMPLEMENT = {ast.Lt: ast.GtE, ast.GtE: ast.Lt, ast.Gt: ast.LtE, ast.LtE: ast.Gt, ast.Eq: ast.NotEq, ast.NotEq: ast.Eq, ast.Is: ast.IsNot, ast.IsNot: ast.Is, ast.In: ast.NotIn, ast.NotIn: ast.In}


def _text(n):
    try:
        return ast.unparse(n)
    except Exception:  # noqa: BLE001
        return ast.dump(n)


def _negative(test):
    return isinstance(test, ast.Compare) and len(test.ops) == 1 and isinstance(test.ops[0], _NEGATIVE)


def _complement(test):
    return ast.copy_location(ast.Compare(left=test.left, ops=[_COMPLEMENT[type(test.ops[0])]()], comparators=test.comparators), test)


def _jumps(stmts):
    return bool(stmts) and isinstance(stmts[-1], (ast.Return, ast.Raise, ast.Continue, ast.Break))


class Normaliser(ast.NodeTransformer):
    def visit_UnaryOp(self, node):
        self.generic_visit(node)
        if isinstance(node.op, ast.Not) and isinstance(node.operand, ast.Compare) and len(node.operand.ops) == 1 and type(node.operand.ops[0]) in _COMPLEMENT:
            c = node.operand
            new = ast.Compare(left=c.left, ops=[_COMPLEMENT[type(c.ops[0])]()], comparators=c.comparators)
            return self.visit_Compare(ast.copy_location(new, node), descend=False)
        if isinstance(node.op, ast.Not) and isinstance(node.operand, ast.UnaryOp) and isinstance(node.operand.op, ast.Not) and False:
            return node.operand.operand
        return node

    def visit_Compare(self, node, descend=True):
        if descend:
            self.generic_visit(node)
        if len(node.ops) == 1 and type(node.ops[0]) in _MIRROR:
            l, r = node.left, node.comparators[0]
            lc, rc = isinstance(l, ast.Constant), isinstance(r, ast.Constant)
            # unary minus constants count as constants
            lc = lc or (isinstance(l, ast.UnaryOp) and isinstance(l.operand, ast.Constant))
            rc = rc or (isinstance(r, ast.UnaryOp) and isinstance(r.operand, ast.Constant))
            flip = False
            if lc and not rc:
                flip = True
            elif not lc and not rc and _text(r) < _text(l):
                flip = True
            if flip:
                new = ast.Compare(left=r, ops=[_MIRROR[type(node.ops[0])]()], comparators=[l])
                return ast.copy_location(new, node)
        return node

    # -- N10: boolean structure of tests --------------------------------------------------------------------------
    def _test(self, e):
        if isinstance(e, ast.UnaryOp) and isinstance(e.op, ast.Not):
            inner = e.operand
            if isinstance(inner, ast.BoolOp):
                dual = ast.Or() if isinstance(inner.op, ast.And) else ast.And()
                vals = [self._test(ast.copy_location(ast.UnaryOp(op=ast.Not(), operand=v), v)) for v in inner.values]
                return self._flatten(ast.copy_location(ast.BoolOp(op=dual, values=vals), e))
            if isinstance(inner, ast.UnaryOp) and isinstance(inner.op, ast.Not):
                return self._test(inner.operand)
            if isinstance(inner, ast.Compare) and len(inner.ops) == 1 and type(inner.ops[0]) in _COMPLEMENT:
                new = ast.Compare(left=inner.left, ops=[_COMPLEMENT[type(inner.ops[0])]()], comparators=inner.comparators)
                return self.visit_Compare(ast.copy_location(new, e), descend=False)
            return e
        if isinstance(e, ast.BoolOp):
            e.values = [self._test(v) for v in e.values]
            return self._flatten(e)
        return e

    @staticmethod
    def _flatten(b):
        vals = []
        for v in b.values:
            if isinstance(v, ast.BoolOp) and type(v.op) is type(b.op):
                vals.extend(v.values)
            else:
                vals.append(v)
        b.values = vals
        return b

    def visit_While(self, node):
        self.generic_visit(node)
        node.test = self._test(node.test)
        return node

    def visit_Assert(self, node):
        self.generic_visit(node)
        node.test = self._test(node.test)
        return node

    def visit_comprehension(self, node):
        self.generic_visit(node)
        node.ifs = [self._test(t) for t in node.ifs]
        return node

    def visit_IfExp(self, node):
        self.generic_visit(node)
        node.test = self._test(node.test)
        if isinstance(node.test, ast.UnaryOp) and isinstance(node.test.op, ast.Not):
            node = ast.copy_location(ast.IfExp(test=node.test.operand, body=node.orelse, orelse=node.body), node)
        if _negative(node.test):
            node = ast.copy_location(ast.IfExp(test=_complement(node.test), body=node.orelse, orelse=node.body), node)
        return node

    def _negated(self, test):
        return self._test(ast.copy_location(ast.UnaryOp(op=ast.Not(), operand=test), test))

    def visit_If(self, node):
        self.generic_visit(node)
        node.test = self._test(node.test)
        # N8: no else after a jump
        if node.orelse and _jumps(node.body):
            rest = node.orelse
            node.orelse = []
            return [self._merge_nested(node)] + rest
        if node.orelse and _jumps(node.orelse) and not (len(node.orelse) == 1 and isinstance(node.orelse[0], ast.If)):
            first = ast.copy_location(ast.If(test=self._negated(node.test), body=node.orelse, orelse=[]), node)
            return [self._merge_nested(first)] + node.body
        plain_else = node.orelse and not (len(node.orelse) == 1 and isinstance(node.orelse[0], ast.If))
        if plain_else and isinstance(node.test, ast.UnaryOp) and isinstance(node.test.op, ast.Not):
            node = ast.copy_location(ast.If(test=node.test.operand, body=node.orelse, orelse=node.body), node)
        if plain_else and _negative(node.test):
            node = ast.copy_location(ast.If(test=_complement(node.test), body=node.orelse, orelse=node.body), node)
        # N5
        if plain_else and len(node.body) == 1 and len(node.orelse) == 1 and isinstance(node.body[0], ast.Assign) and isinstance(node.orelse[0], ast.Assign):
            a, b = node.body[0], node.orelse[0]
            if len(a.targets) == 1 and len(b.targets) == 1 and isinstance(a.targets[0], (ast.Name, ast.Attribute)) and _text(a.targets[0]) == _text(b.targets[0]):
                new = ast.Assign(targets=a.targets, value=ast.copy_location(ast.IfExp(test=node.test, body=a.value, orelse=b.value), node), type_comment=None)
                return ast.copy_location(new, node)
        return self._merge_nested(node)

    def _merge_nested(self, node):
        """N9"""
        while not node.orelse and len(node.body) == 1 and isinstance(node.body[0], ast.If) and not node.body[0].orelse:
            inner = node.body[0]
            node = ast.copy_location(ast.If(test=self._flatten(ast.copy_location(ast.BoolOp(op=ast.And(), values=[node.test, inner.test]), node.test)), body=inner.body, orelse=[]), node)
        return node

    def visit_Assign(self, node):
        self.generic_visit(node)
        if len(node.targets) == 1 and isinstance(node.targets[0], (ast.Name, ast.Attribute, ast.Subscript)) and isinstance(node.value, ast.BinOp) and isinstance(node.value.op, (ast.Add, ast.Sub)):
            t = node.targets[0]
            if _text(node.value.left) == _text(t):
                new = ast.AugAssign(target=t, op=node.value.op, value=node.value.right)
                return ast.copy_location(new, node)
        return node


def normalise(tree: ast.AST) -> ast.AST:
    tree = Normaliser().visit(tree)
    ast.fix_missing_locations(tree)
    return tree
