"""
Normal forms (DESIGN.md 4.2), applied once to every parsed module before any rule looks at it, so that
all rules - also those that compare expression text - are insensitive to these spellings:

N1  if not c: A else: B          ->  if c: B else: A          (only a plain else, not an elif chain)
N2  a OP b with one operator      ->  operands in a canonical order (a constant goes right; otherwise the
                                      textually smaller operand goes left) with the mirrored operator
N3  not (a OP b)                  ->  a COMPLEMENT(OP) b        (==, !=, <, <=, >, >=, is, is not, in, not in)
N4  x = x + e / x = x - e         ->  x += e / x -= e
N5  if c: x = a else: x = b       ->  x = a if c else b         (same single target in both branches)
N6  a if not c else b             ->  b if c else a
N7  if a NEG b: A else: B         ->  if a POS b: B else: A    (NEG in !=, is not, not in, >=, <=; plain else only; also for
                                      conditional expressions) - one polarity per two-way decision
N8  if c: ...jump  else: rest    ->  if c: ...jump ; rest      (jump = return / raise / continue / break as the last statement;
                                      also for elif chains; if only the else branch ends in a jump:  if not c: <else> ; body)
N9  if a: (if b: X)               ->  if a and b: X            (no else on either; nested and-chains are flattened)
N10 in test positions (if / while / conditional expression / assert / comprehension filter): negations are pushed inward
    (De Morgan), double negations dropped, comparisons complemented
N11 inside functions:  x: T = e   ->  x = e                  (an annotation on a local changes nothing at run time)
N12 inside functions:  t = <pure e> ; S[t]   ->  S[e]        (t a plain local read exactly once, in the next statement, and
                                      named nowhere else in the function; e without calls other than len(); no call in S is
                                      completed before t is read, so e is evaluated in the same state either way)
N13 calls of a package function/class by its plain name (defined exactly once in the package): leading keyword arguments that
    name the next positional parameter are written positionally ( f(a, name=v) -> f(a, v) ); evaluation order is unchanged
Positions (lineno/col_offset) of the rewritten nodes are kept for reporting.
"""
from __future__ import annotations

import ast

_MIRROR = {ast.Lt: ast.Gt, ast.Gt: ast.Lt, ast.LtE: ast.GtE, ast.GtE: ast.LtE, ast.Eq: ast.Eq, ast.NotEq: ast.NotEq}
_NEGATIVE = (ast.NotEq, ast.IsNot, ast.NotIn, ast.GtE, ast.LtE)
_COMPLEMENT = {ast.Lt: ast.GtE, ast.GtE: ast.Lt, ast.Gt: ast.LtE, ast.LtE: ast.Gt, ast.Eq: ast.NotEq, ast.NotEq: ast.Eq, ast.Is: ast.IsNot, ast.IsNot: ast.Is, ast.In: ast.NotIn, ast.NotIn: ast.In}


def _text(n):
    try:
        return ast.unparse(n)
    except Exception:  # noqa: BLE001
        return ast.dump(n)


def _negative(test):
    return isinstance(test, ast.Compare) and len(test.ops) == 1 and isinstance(test.ops[0], _NEGATIVE)


def _complement(test):
    return ast.copy_location(ast.Compare(left=test.left, ops=[_COMPLEMENT[type(test.ops[0])]()], comparators=test.comparators), test)


def _jumps(stmts):
    return bool(stmts) and isinstance(stmts[-1], (ast.Return, ast.Raise, ast.Continue, ast.Break))


class Normaliser(ast.NodeTransformer):
    def visit_UnaryOp(self, node):
        self.generic_visit(node)
        if isinstance(node.op, ast.Not) and isinstance(node.operand, ast.Compare) and len(node.operand.ops) == 1 and type(node.operand.ops[0]) in _COMPLEMENT:
            c = node.operand
            new = ast.Compare(left=c.left, ops=[_COMPLEMENT[type(c.ops[0])]()], comparators=c.comparators)
            return self.visit_Compare(ast.copy_location(new, node), descend=False)
        if isinstance(node.op, ast.Not) and isinstance(node.operand, ast.UnaryOp) and isinstance(node.operand.op, ast.Not) and False:
            return node.operand.operand
        return node

    def visit_Compare(self, node, descend=True):
        if descend:
            self.generic_visit(node)
        if len(node.ops) == 1 and type(node.ops[0]) in _MIRROR:
            l, r = node.left, node.comparators[0]
            lc, rc = isinstance(l, ast.Constant), isinstance(r, ast.Constant)
            # unary minus constants count as constants
            lc = lc or (isinstance(l, ast.UnaryOp) and isinstance(l.operand, ast.Constant))
            rc = rc or (isinstance(r, ast.UnaryOp) and isinstance(r.operand, ast.Constant))
            flip = False
            if lc and not rc:
                flip = True
            elif not lc and not rc and _text(r) < _text(l):
                flip = True
            if flip:
                new = ast.Compare(left=r, ops=[_MIRROR[type(node.ops[0])]()], comparators=[l])
                return ast.copy_location(new, node)
        return node

    # -- N10: boolean structure of tests --------------------------------------------------------------------------
    def _test(self, e):
        if isinstance(e, ast.UnaryOp) and isinstance(e.op, ast.Not):
            inner = e.operand
            if isinstance(inner, ast.BoolOp):
                dual = ast.Or() if isinstance(inner.op, ast.And) else ast.And()
                vals = [self._test(ast.copy_location(ast.UnaryOp(op=ast.Not(), operand=v), v)) for v in inner.values]
                return self._flatten(ast.copy_location(ast.BoolOp(op=dual, values=vals), e))
            if isinstance(inner, ast.UnaryOp) and isinstance(inner.op, ast.Not):
                return self._test(inner.operand)
            if isinstance(inner, ast.Compare) and len(inner.ops) == 1 and type(inner.ops[0]) in _COMPLEMENT:
                new = ast.Compare(left=inner.left, ops=[_COMPLEMENT[type(inner.ops[0])]()], comparators=inner.comparators)
                return self.visit_Compare(ast.copy_location(new, e), descend=False)
            return e
        if isinstance(e, ast.BoolOp):
            e.values = [self._test(v) for v in e.values]
            return self._flatten(e)
        return e

    @staticmethod
    def _flatten(b):
        vals = []
        for v in b.values:
            if isinstance(v, ast.BoolOp) and type(v.op) is type(b.op):
                vals.extend(v.values)
            else:
                vals.append(v)
        b.values = vals
        return b

    def visit_While(self, node):
        self.generic_visit(node)
        node.test = self._test(node.test)
        return node

    def visit_Assert(self, node):
        self.generic_visit(node)
        node.test = self._test(node.test)
        return node

    def visit_comprehension(self, node):
        self.generic_visit(node)
        node.ifs = [self._test(t) for t in node.ifs]
        return node

    def visit_IfExp(self, node):
        self.generic_visit(node)
        node.test = self._test(node.test)
        if isinstance(node.test, ast.UnaryOp) and isinstance(node.test.op, ast.Not):
            node = ast.copy_location(ast.IfExp(test=node.test.operand, body=node.orelse, orelse=node.body), node)
        if _negative(node.test):
            node = ast.copy_location(ast.IfExp(test=_complement(node.test), body=node.orelse, orelse=node.body), node)
        return node

    def _negated(self, test):
        return self._test(ast.copy_location(ast.UnaryOp(op=ast.Not(), operand=test), test))

    def visit_If(self, node):
        self.generic_visit(node)
        node.test = self._test(node.test)
        # N8: no else after a jump
        if node.orelse and _jumps(node.body):
            rest = node.orelse
            node.orelse = []
            return [self._merge_nested(node)] + rest
        if node.orelse and _jumps(node.orelse) and not (len(node.orelse) == 1 and isinstance(node.orelse[0], ast.If)):
            first = ast.copy_location(ast.If(test=self._negated(node.test), body=node.orelse, orelse=[]), node)
            return [self._merge_nested(first)] + node.body
        plain_else = node.orelse and not (len(node.orelse) == 1 and isinstance(node.orelse[0], ast.If))
        if plain_else and isinstance(node.test, ast.UnaryOp) and isinstance(node.test.op, ast.Not):
            node = ast.copy_location(ast.If(test=node.test.operand, body=node.orelse, orelse=node.body), node)
        if plain_else and _negative(node.test):
            node = ast.copy_location(ast.If(test=_complement(node.test), body=node.orelse, orelse=node.body), node)
        # N5
        if plain_else and len(node.body) == 1 and len(node.orelse) == 1 and isinstance(node.body[0], ast.Assign) and isinstance(node.orelse[0], ast.Assign):
            a, b = node.body[0], node.orelse[0]
            if len(a.targets) == 1 and len(b.targets) == 1 and isinstance(a.targets[0], (ast.Name, ast.Attribute)) and _text(a.targets[0]) == _text(b.targets[0]):
                new = ast.Assign(targets=a.targets, value=ast.copy_location(ast.IfExp(test=node.test, body=a.value, orelse=b.value), node), type_comment=None)
                return ast.copy_location(new, node)
        return self._merge_nested(node)

    def _merge_nested(self, node):
        """N9"""
        while not node.orelse and len(node.body) == 1 and isinstance(node.body[0], ast.If) and not node.body[0].orelse:
            inner = node.body[0]
            node = ast.copy_location(ast.If(test=self._flatten(ast.copy_location(ast.BoolOp(op=ast.And(), values=[node.test, inner.test]), node.test)), body=inner.body, orelse=[]), node)
        return node

    def visit_Assign(self, node):
        self.generic_visit(node)
        if len(node.targets) == 1 and isinstance(node.targets[0], (ast.Name, ast.Attribute, ast.Subscript)) and isinstance(node.value, ast.BinOp) and isinstance(node.value.op, (ast.Add, ast.Sub)):
            t = node.targets[0]
            if _text(node.value.left) == _text(t):
                new = ast.AugAssign(target=t, op=node.value.op, value=node.value.right)
                return ast.copy_location(new, node)
        return node


class _DropLocalAnnotations(ast.NodeTransformer):
    """N11 (run first, so that N4/N5 see plain assignments)"""

    depth = 0

    def visit_FunctionDef(self, node):
        self.depth += 1
        self.generic_visit(node)
        self.depth -= 1
        return node

    visit_AsyncFunctionDef = visit_FunctionDef

    def visit_ClassDef(self, node):
        d, self.depth = self.depth, 0
        self.generic_visit(node)
        self.depth = d
        return node

    def visit_AnnAssign(self, node):
        if self.depth and node.value is not None and isinstance(node.target, ast.Name):
            return ast.copy_location(ast.Assign(targets=[node.target], value=node.value), node)
        return node


def _pure(e):
    for x in ast.walk(e):
        if isinstance(x, ast.Call) and not (isinstance(x.func, ast.Name) and x.func.id == "len"):
            return False
        if isinstance(x, (ast.NamedExpr, ast.Await, ast.Yield, ast.YieldFrom, ast.Lambda, ast.ListComp, ast.SetComp, ast.DictComp, ast.GeneratorExp, ast.Starred)):
            return False
    return True


def _inline_single_use_temps(tree):
    """N12"""
    for fn in [n for n in ast.walk(tree) if isinstance(n, (ast.FunctionDef, ast.AsyncFunctionDef))]:
        changed = True
        while changed:
            changed = False
            counts = {}
            for x in ast.walk(fn):
                if isinstance(x, ast.Name):
                    counts[x.id] = counts.get(x.id, 0) + 1
                elif isinstance(x, (ast.Global, ast.Nonlocal)):
                    for g in x.names:
                        counts[g] = counts.get(g, 0) + 10
                elif isinstance(x, ast.arg):
                    counts[x.arg] = counts.get(x.arg, 0) + 10
            for holder in ast.walk(fn):
                for field in ("body", "orelse", "finalbody"):
                    lst = getattr(holder, field, None)
                    if not (isinstance(lst, list) and lst and isinstance(lst[0], ast.stmt)):
                        continue
                    for j in range(len(lst) - 1):
                        a, b = lst[j], lst[j + 1]
                        if not (isinstance(a, ast.Assign) and len(a.targets) == 1 and isinstance(a.targets[0], ast.Name) and counts.get(a.targets[0].id) == 2 and _pure(a.value)):
                            continue
                        if not isinstance(b, (ast.Assign, ast.AugAssign, ast.Return, ast.Expr, ast.AnnAssign)):
                            continue  # simple statements only: no loop may evaluate the use more than once
                        t = a.targets[0].id
                        uses = [x for x in ast.walk(b) if isinstance(x, ast.Name) and x.id == t and isinstance(x.ctx, ast.Load)]
                        if len(uses) != 1:
                            continue
                        u = uses[0]
                        inside_scope = any(isinstance(x, (ast.Lambda, ast.ListComp, ast.SetComp, ast.DictComp, ast.GeneratorExp)) and any(y is u for y in ast.walk(x)) for x in ast.walk(b))
                        if inside_scope:
                            continue
                        upos = (getattr(u, "lineno", 0), getattr(u, "col_offset", 0))
                        earlier_call = any(isinstance(x, ast.Call) and (getattr(x, "end_lineno", None) or 0, getattr(x, "end_col_offset", None) or 0) <= upos and not (isinstance(x.func, ast.Name) and x.func.id == "len") for x in ast.walk(b))
                        if earlier_call:
                            continue
                        if isinstance(b, ast.AugAssign) or (isinstance(b, ast.Assign) and any(not isinstance(tt, ast.Name) for tt in b.targets) and not isinstance(a.value, (ast.Name, ast.Constant))):
                            # the target of b is evaluated after its value, so a temp feeding the value is fine; nothing to reject
                            pass

                        class Sub(ast.NodeTransformer):
                            def visit_Name(self, node):
                                return a.value if node is u else node

                        lst[j + 1] = Sub().visit(b)
                        del lst[j]
                        changed = True
                        break
                    if changed:
                        break
                if changed:
                    break
    return tree


def _positional_where_possible(tree, signatures):
    """N13"""
    for c in ast.walk(tree):
        if isinstance(c, ast.Call) and isinstance(c.func, ast.Name) and c.func.id in signatures and c.keywords:
            if any(isinstance(a, ast.Starred) for a in c.args):
                continue
            ps = signatures[c.func.id]
            while c.keywords and c.keywords[0].arg is not None and len(c.args) < len(ps) and c.keywords[0].arg == ps[len(c.args)]:
                c.args.append(c.keywords.pop(0).value)
    return tree


def normalise(tree: ast.AST, typed_locals: bool = False, signatures=None) -> ast.AST:
    if signatures:
        tree = _positional_where_possible(tree, signatures)
    if not typed_locals:  # in lowered .pyx modules the annotation is the C type of the local, which rules read
        tree = _DropLocalAnnotations().visit(tree)
    tree = _inline_single_use_temps(tree)
    tree = Normaliser().visit(tree)
    ast.fix_missing_locations(tree)
    return tree
