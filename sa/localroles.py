"""
Role-based identification of local variables.

Rules must not depend on how a local variable happens to be spelled (a rename is a benign edit).  A rule names a
local by the *role* it plays - the n-th argument of a call to an API method, the target of the loop over an
attribute, the container a tuple is stored into - and, where convenient, analyses a copy of the function in which
the locals found that way carry the rule's canonical names.
"""
from __future__ import annotations

import ast
import copy

from .core import Unrecognised
from .repo import chain, src


def rename(fn, mapping: dict):
    """Copy of ``fn`` with local names renamed (``mapping``: actual -> canonical).  Positions and the link to the
    enclosing module are kept, so reports still point at the real source."""
    mapping = {a: c for a, c in mapping.items() if a and a != c}
    parent = getattr(fn, "_parent", None)
    fn._parent = None
    try:
        new = copy.deepcopy(fn)
    finally:
        fn._parent = parent
    new._parent = parent
    if not mapping:
        return new
    clash = {n.id for n in ast.walk(new) if isinstance(n, ast.Name)} | {a.arg for a in ast.walk(new) if isinstance(a, ast.arg)}
    for a, c in mapping.items():
        if c in clash and c not in mapping:
            # the canonical name is already used for something else: move that one out of the way
            mapping = dict(mapping, **{c: f"{c}__other"})
    for n in ast.walk(new):
        if isinstance(n, ast.Name) and n.id in mapping:
            n.id = mapping[n.id]
        elif isinstance(n, ast.arg) and n.arg in mapping:
            n.arg = mapping[n.arg]
    return new


def name_of(node, what, loc=None):
    if not isinstance(node, ast.Name):
        raise Unrecognised(f"{what}: expected a plain variable, found {src(node) if node is not None else None}", loc)
    return node.id


def unique(items, what, loc=None):
    items = list(dict.fromkeys(items))
    if len(items) != 1:
        raise Unrecognised(f"{what}: expected exactly one candidate, found {items}", loc)
    return items[0]


def calls_to(fn, callee):
    return [n for n in ast.walk(fn) if isinstance(n, ast.Call) and chain(n.func) == callee]


def assigned_names(fn):
    """{name: [value nodes]} of plain-name assignments (annotated or not) anywhere in fn"""
    out = {}
    for n in ast.walk(fn):
        if isinstance(n, ast.Assign):
            for t in n.targets:
                if isinstance(t, ast.Name):
                    out.setdefault(t.id, []).append(n.value)
        elif isinstance(n, ast.AnnAssign) and n.value is not None and isinstance(n.target, ast.Name):
            out.setdefault(n.target.id, []).append(n.value)
    return out


def names_defined_as(fn, pred):
    """names with an assignment whose value satisfies pred(value node)"""
    return [k for k, vs in assigned_names(fn).items() if any(pred(v) for v in vs)]


def _targets_of(n):
    if isinstance(n, ast.Assign):
        return n.targets
    if isinstance(n, ast.AnnAssign):
        return [n.target]
    return []


def _pick(t, idx):
    if idx is None:
        return t if isinstance(t, ast.Name) else None
    if isinstance(t, (ast.Tuple, ast.List)) and idx < len(t.elts) and isinstance(t.elts[idx], ast.Name):
        return t.elts[idx]
    return None


def discover(fn, specs: dict, strict=False, loc=None) -> dict:
    """
    Find locals by role.  ``specs`` maps a canonical name to one of

      ("call", callee[, idx])      the variable (or idx-th unpacked variable) assigned from a call of ``callee``
      ("method", attr[, idx])      ... assigned from a call  <anything>.attr(...)
      ("arg", callee, i)           the plain variable passed as i-th positional argument of ``callee``
      ("kwarg", callee, name)      ... passed as keyword ``name``
      ("with", callee)             the name bound by  ``with callee(...) as name``
      ("return"[, idx])            the variable returned (idx-th component of a returned tuple)
      ("loop", iterable)           the target of ``for target in iterable``  (iterable: source text)
      ("loop", iterable, idx)      idx-th component of a tuple target
      ("value", predicate)         assigned from an expression for which predicate(node) holds
      ("collects", callee)         the list/set that receives  name.append(callee(...))

    ``callee`` / ``iterable`` may mention roles found earlier as ``{role}``.  Returns {actual name: canonical name}.
    A role that is found ambiguously or not at all is left out (strict=False) or raises Unrecognised.
    """
    found: dict = {}  # canonical -> actual

    def sub(text):
        try:
            return text.format(**found)
        except (KeyError, IndexError):
            return None

    for canon, spec in specs.items():
        kind = spec[0]
        cands = []
        if kind in ("call", "method"):
            idx = spec[2] if len(spec) > 2 else None
            callee = sub(spec[1]) if kind == "call" else spec[1]
            for n in ast.walk(fn):
                if isinstance(n, (ast.Assign, ast.AnnAssign)) and isinstance(n.value, ast.Call):
                    f = n.value.func
                    hit = (chain(f) == callee) if kind == "call" else (isinstance(f, ast.Attribute) and f.attr == callee)
                    if hit:
                        for t in _targets_of(n):
                            p = _pick(t, idx)
                            if p is not None:
                                cands.append(p.id)
        elif kind in ("arg", "kwarg"):
            callee = sub(spec[1])
            for n in ast.walk(fn):
                if isinstance(n, ast.Call) and chain(n.func) == callee:
                    if kind == "arg" and spec[2] < len(n.args) and isinstance(n.args[spec[2]], ast.Name):
                        cands.append(n.args[spec[2]].id)
                    if kind == "kwarg":
                        cands += [k.value.id for k in n.keywords if k.arg == spec[2] and isinstance(k.value, ast.Name)]
        elif kind == "with":
            callee = sub(spec[1])
            for n in ast.walk(fn):
                if isinstance(n, ast.With):
                    for it in n.items:
                        if isinstance(it.context_expr, ast.Call) and chain(it.context_expr.func) == callee and isinstance(it.optional_vars, ast.Name):
                            cands.append(it.optional_vars.id)
        elif kind == "return":
            idx = spec[1] if len(spec) > 1 else None
            for n in ast.walk(fn):
                if isinstance(n, ast.Return) and n.value is not None:
                    p = _pick(n.value, idx)
                    if p is not None:
                        cands.append(p.id)
        elif kind == "loop":
            it = sub(spec[1])
            idx = spec[2] if len(spec) > 2 else None
            for n in ast.walk(fn):
                if isinstance(n, (ast.For, ast.comprehension)) and src(n.iter) == it:
                    p = _pick(n.target, idx)
                    if p is not None:
                        cands.append(p.id)
        elif kind == "collects":
            callee = sub(spec[1])
            for n in ast.walk(fn):
                if isinstance(n, ast.Call) and isinstance(n.func, ast.Attribute) and n.func.attr in ("append", "add") and isinstance(n.func.value, ast.Name) and n.args \
                        and isinstance(n.args[0], ast.Call) and chain(n.args[0].func) == callee:
                    cands.append(n.func.value.id)
        elif kind == "value":
            for n in ast.walk(fn):
                if isinstance(n, (ast.Assign, ast.AnnAssign)) and n.value is not None and spec[1](n.value):
                    idx = spec[2] if len(spec) > 2 else None
                    for t in _targets_of(n):
                        p = _pick(t, idx)
                        if p is not None:
                            cands.append(p.id)
        else:
            raise ValueError(kind)
        cands = list(dict.fromkeys(cands))
        if len(cands) == 1:
            found[canon] = cands[0]
        elif strict:
            raise Unrecognised(f"local variable in the role '{canon}' {spec[:3]}: found {cands}", loc)
    out = {}
    for canon, actual in found.items():
        if actual in out and out[actual] != canon:
            if strict:
                raise Unrecognised(f"variable {actual} plays two roles ({out[actual]}, {canon})", loc)
            continue
        out[actual] = canon
    return out


def by_roles(fn, specs, **kw):
    return rename(fn, discover(fn, specs, **kw))


MAIN_ROLES = {
    "parser": ("call", "get_argument_parser"),
    "args": ("method", "parse_known_args", 0),
    "leftover_args": ("method", "parse_known_args", 1),
    "runner": ("with", "make_runner"),
    "input_paths": ("arg", "make_runner", 0),
    "cores": ("arg", "make_runner", 1),
    "paired": ("call", "determine_paired"),
    "is_interleaved_input": ("arg", "make_input_paths", 2),
    "outfiles": ("call", "OutputFiles"),
    "pipeline": ("call", "make_pipeline_from_args"),
    "adapters": ("call", "adapters_from_args", 0),
    "adapters2": ("call", "adapters_from_args", 1),
    "file_opener": ("call", "FileOpener"),
    "stats": ("return",),
}


def _listcomp_calling(attr_or_name):
    def pred(v):
        return isinstance(v, ast.ListComp) and any(isinstance(x, ast.Call) and (chain(x.func) or "").split(".")[-1] == attr_or_name for x in ast.walk(v))
    return pred


REGISTRY = {
    ("cli", "main"): MAIN_ROLES,
    ("runners", "ParallelPipelineRunner.run"): {
        "workers": ("call", "self._start_workers", 0),
        "connections": ("call", "self._start_workers", 1),
        "chunk_writers": ("collects", "OrderedChunkWriter"),
        "stats": ("return",),
        "ready_connections": ("call", "multiprocessing.connection.wait"),
        "connection": ("loop", "{ready_connections}"),
        "writer": ("loop", "{chunk_writers}"),
        "data": ("arg", "{writer}.write", 0),
        "chunk_index": ("arg", "{writer}.write", 1),
        "number_of_reads": ("arg", "progress.update", 0),
    },
    ("runners", "WorkerProcess.run"): {
        "stats": ("call", "Statistics"),
        "chunk_index": ("call", "self._read_pipe.recv"),
        "files": ("value", _listcomp_calling("recv_bytes")),
        "infiles": ("call", "InputFiles"),
        "n": ("call", "self._pipeline.process_reads", 0),
        "bp1": ("call", "self._pipeline.process_reads", 1),
        "bp2": ("call", "self._pipeline.process_reads", 2),
    },
    ("runners", "ReaderProcess.run"): {
        "files": ("value", _listcomp_calling("enter_context")),
        "file_format": ("call", "detect_file_format"),
        "index": ("loop", "enumerate(self._read_chunks(*{files}))", 0),
        "chunks": ("loop", "enumerate(self._read_chunks(*{files}))", 1),
    },
    ("files", "InputPaths.open"): {
        "files": ("value", _listcomp_calling("xopen_rb_raise_limit")),
        "fileformat": ("kwarg", "InputFiles", "fileformat"),
    },
}


def _names_of(iterable):
    """[x.name for x in <iterable>]"""
    def pred(v):
        return (isinstance(v, ast.ListComp) and len(v.generators) == 1 and src(v.generators[0].iter) == iterable and isinstance(v.generators[0].target, ast.Name)
                and isinstance(v.elt, ast.Attribute) and v.elt.attr == "name" and isinstance(v.elt.value, ast.Name) and v.elt.value.id == v.generators[0].target.id and not v.generators[0].ifs)
    return pred


REGISTRY[("cli", "make_pipeline_from_args")] = {
    "modifiers": ("arg", "SingleEndPipeline", 0),
    "steps": ("arg", "SingleEndPipeline", 1),
    "action": ("value", lambda v: "args.action" in src(v)),
    "adapter_names": ("value", _names_of("adapters")),
    "adapter_names2": ("value", _names_of("adapters2")),
    "demultiplex_mode": ("call", "determine_demultiplex_mode"),
    "pipeline": ("return",),
}


REGISTRY[("cli", "parse_lengths")] = {
    "fields": ("method", "split"),
    "values": ("value", lambda v: isinstance(v, ast.Call) and chain(v.func) == "tuple" and v.args and isinstance(v.args[0], ast.GeneratorExp)),
}
REGISTRY[("modifiers", "PairedAdapterCutter.__call__")] = {
    "best_matches": ("call", "self._find_best_match_pair"),
}


def apply_registered(modinfo):
    """Role pre-pass: in the functions listed in REGISTRY, locals found by role get the canonical names the rules use."""
    name = modinfo.name.split(".")[-1]
    wanted = {q: spec for (m, q), spec in REGISTRY.items() if m == name}
    if not wanted:
        return
    for node in modinfo.tree.body:
        if isinstance(node, ast.FunctionDef) and node.name in wanted:
            _rename_in_place(node, discover(node, wanted[node.name]))
        elif isinstance(node, ast.ClassDef):
            for s in node.body:
                if isinstance(s, ast.FunctionDef) and f"{node.name}.{s.name}" in wanted:
                    _rename_in_place(s, discover(s, wanted[f"{node.name}.{s.name}"]))


def _rename_in_place(fn, mapping):
    mapping = {a: c for a, c in mapping.items() if a != c}
    if not mapping:
        return
    used = {n.id for n in ast.walk(fn) if isinstance(n, ast.Name)} | {a.arg for a in ast.walk(fn) if isinstance(a, ast.arg)}
    for a, c in list(mapping.items()):
        if c in used and c not in mapping:
            mapping[c] = f"{c}__other"
    for n in ast.walk(fn):
        if isinstance(n, ast.Name) and n.id in mapping:
            n.id = mapping[n.id]
        elif isinstance(n, ast.arg) and n.arg in mapping:
            n.arg = mapping[n.arg]


def cli_main(repo):
    """cli.main with its locals named by role"""
    return repo.func("cli", "main")  # renamed by the role pre-pass (REGISTRY)
