"""Command-line driver: python -m sa <Cnn|all> [--tier quick|thorough] [--replay path] [--selfcheck]"""
from __future__ import annotations

import argparse
import importlib
import json
import os
import sys
import time
import traceback

from .core import Report, Unrecognised, finish

ALL = [f"C{i:02d}" for i in range(1, 21)]


class _OutOfTime(BaseException):
    pass


def _out_of_time(signum, frame):
    raise _OutOfTime()


def _is_known(o):
    from .core import _matches, load_known_findings

    return any(_matches(e, o) for e in load_known_findings()["known"])


def run_property(pid: str, tier: str, seed: int, repo=None, write_evidence=True, quiet=False, only_rule=None):
    t0 = time.time()
    report = Report(pid, tier)
    import signal

    budget = int(os.environ.get("SA_BUDGET", "900"))
    own_alarm = False
    try:
        if signal.getitimer(signal.ITIMER_REAL)[0] == 0:
            signal.signal(signal.SIGALRM, _out_of_time)
            signal.alarm(budget)
            own_alarm = True
    except (ValueError, AttributeError):  # not the main thread
        pass
    try:
        if repo is None:
            from .repo import Repo

            repo = Repo()
        repo.touched = set()
        mod = importlib.import_module(f"sa.rules.{pid.lower()}")
        mod.run(repo, report, tier)
        from .rules import mirrors

        mirrors.apply(repo, report)
        if own_alarm:
            signal.alarm(0)  # the budget is for the rules; the sweeps below have their own per-variant limit
        if tier == "thorough" and not repo.overrides and not any(o.state != "DISCHARGED" for o in report.obligations if not _is_known(o)):
            from . import thorough

            thorough.sweep(pid, report, repo)
    except Unrecognised as u:
        report.unrecognised(f"{pid}.engine", "engine", u.what, u.loc)
    except _OutOfTime:
        report.unrecognised(f"{pid}.engine", "engine", f"the analysis did not finish within {budget} s (a construct makes the abstract execution explode); no verdict")
    except Exception as e:  # noqa: BLE001 - a traceback must never look like a violation
        report.unrecognised(f"{pid}.engine", "engine", f"internal error {type(e).__name__}: {e}\n{traceback.format_exc(limit=8)}")
    finally:
        if own_alarm:
            signal.alarm(0)
    if only_rule:
        report.obligations = [o for o in report.obligations if o.rule == only_rule["rule"] and o.construct == only_rule["construct"]] or report.obligations
    return finish(report, time.time() - t0, seed, write_evidence=write_evidence, quiet=quiet), report


def main(argv=None):
    ap = argparse.ArgumentParser(prog="check")
    ap.add_argument("prop", nargs="?", default="all")
    ap.add_argument("--tier", default=os.environ.get("VERIF_TIER", "quick"), choices=["quick", "thorough"])
    ap.add_argument("--replay", default=None)
    ap.add_argument("--selfcheck", action="store_true")
    ap.add_argument("--no-evidence", action="store_true")
    args = ap.parse_args(argv)
    seed = int(os.environ.get("VERIF_SEED", "0") or 0)
    if args.selfcheck:
        from . import selfcheck

        return selfcheck.main()
    props = ALL if args.prop == "all" else [args.prop.upper()]
    only = None
    if args.replay:
        with open(args.replay) as f:
            only = json.load(f)
        props = [only["property"]]
    rc = 0
    repo = None
    try:
        from .repo import Repo

        repo = Repo()
    except Exception as e:  # noqa: BLE001
        print(f"ANALYSIS-ERROR property={','.join(props)} rule=engine anchor=repository: {type(e).__name__}: {e}")
        # still write evidence-less failure: exit 2
        return 2
    for pid in props:
        if not os.path.exists(os.path.join(os.path.dirname(__file__), "rules", f"{pid.lower()}.py")):
            print(f"ANALYSIS-ERROR property={pid} rule=engine anchor=rules: no rule module for {pid}")
            rc = max(rc, 2)
            continue
        r, _ = run_property(pid, args.tier, seed, repo=repo, write_evidence=not args.no_evidence and not args.replay, only_rule=only)
        if r == 1:
            rc = 1
        elif r == 2 and rc != 1:
            rc = 2
    return rc


if __name__ == "__main__":
    try:
        code = main()
    except SystemExit:
        raise
    except Exception as e:  # noqa: BLE001
        print(f"ANALYSIS-ERROR rule=engine anchor=driver: {type(e).__name__}: {e}")
        traceback.print_exc()
        code = 2
    sys.stdout.flush()
    os._exit(code)
