"""C19 - Results do not depend on compression, file layout or how a format is requested."""
from __future__ import annotations

import ast
import re

from ..absint import Const, Obj, Tup, explore, vkey
from ..core import Unrecognised
from ..repo import chain, params, src, strip_docstring, calls, nsrc
from ..localroles import rename, discover, by_roles, cli_main, name_of, unique, calls_to, assigned_names
from ..tables import Bool, check_table, SKIP


def run(repo, report, tier):
    report.rule("C19.R1", "one output-format decision: every record-writer construction receives the information that fixes the format (an explicit fileformat derived from the path string / --fasta) before the proxied / unproxied split, so it is a function of the path, --fasta and the input's has_qualities() only",
                "out.fasta.gz or '-j 2 -o out.fasta' receive FASTQ records: the format depends on the kind of file object (compression wrapper, in-memory buffer)")
    report.rule("C19.R2", "--fasta only forces FASTA when writing to standard output", "--fasta changes the content of a file named *.fastq")
    report.rule("C19.R3", "one input-format decision: the reader that parses records is given the content-detected format on the serial path and on the worker path, through the same opener",
                "a misnamed input is read differently by one core and by several")
    report.rule("C19.R4", "interleaving: input is read interleaved iff --interleaved and one input; every paired writer is interleaved iff its second path is absent",
                "records of R1 and R2 are mixed into a two-file output or an interleaved input is read as single-end")
    format_rules(repo, report, "C19")
    report.guard("C19.R2", "force_fasta", r2_fasta, repo, report)
    report.guard("C19.R4", "interleaving", r4_interleaved, repo, report)
    report.guard("C19.R4", "log stream", r4_log_stream, repo, report)
    report.guard("C19.R4", "writer layout", r4_writer_layout, repo, report)
    report.guard("C19.R4", "output options as given", r4_options_not_rewritten, repo, report)
    report.guard("C19.R4", "print calls", r4_prints, repo, report)
    report.trust("dnaio.open(mode='w') without fileformat takes the format from the .name of a file object only if that attribute is a str, otherwise from 'qualities' (dnaio 1.2.4 singleend._open_single/_open_file_or_path)")
    report.trust("dnaio.open(mode='r') with a fileformat does not look at file names")
    report.notes.append("Not decided: codec round trips, multi-member gzip, FASTA/FASTQ record equivalence (library and runtime behaviour).")


def format_rules(repo, report, prefix):
    r1 = f"{prefix}.R1" if prefix == "C19" else prefix
    r3 = f"{prefix}.R3" if prefix == "C19" else prefix
    report.guard(r1, "OutputFiles.open_record_writer", _r1_output, repo, report, r1)
    report.guard(r3, "input format", _r3_input, repo, report, r3)


def _writer_rows(repo, mname):
    cls = repo.cls("OutputFiles")
    c, fn = repo.need_method("OutputFiles", mname)
    ps = params(fn)
    env = {"self": Obj("self", nonnull=True)}
    for p in ps[1:]:
        env[p] = Obj(p.upper())
    for a in fn.args.kwonlyargs:
        env[a.arg] = Obj(a.arg.upper())
    if fn.args.vararg:
        env[fn.args.vararg.arg] = Obj("PATHS", nonnull=True)

    def hook(ex, node, env):
        if chain(node.func) == "dict" and node.keywords and not node.args:
            return Obj("KWARGS", nonnull=True)
        return None

    rows = explore(repo, strip_docstring(fn.body), env, call_hook=hook, inline=False, max_rows=4000)
    return fn, rows


def _r1_output(repo, report, rule):
    for mname in ("open_record_writer", "open_stdout_record_writer"):
        fn, rows = _writer_rows(repo, mname)
        report.saw(function=f"OutputFiles.{mname}", file="src/cutadapt/files.py", paths=len(rows))
        by_branch = {}
        bad = []
        for r in rows:
            if r.exit[0] != "return":
                continue
            ret = vkey(r.exit[1])
            proxied = r.valuation.get("truthy:self._proxied")
            fmt = [e[2] for e in r.effects if e[0] == "store" and e[1] == "KWARGS['fileformat']"]
            ctor = "ProxyRecordWriter" if ret.startswith("ProxyRecordWriter(") else "dnaio_open" if "dnaio_open(" in ret else ret[:40]
            if "**KWARGS" not in ret:
                bad.append(f"{ctor} is not given the common keyword arguments")
            # the decision key: everything the format store depends on, except the proxied flag
            guard = tuple(sorted((k, v) for k, v in r.valuation.items() if k != "truthy:self._proxied" and not k.startswith("loop-nonempty") and not k.startswith("truthy:PATHS") and "item(" not in k))
            by_branch.setdefault(guard, {})[proxied] = (tuple(fmt), ctor)
        diff = []
        items = [(dict(g), pr, v) for g, d in by_branch.items() for pr, v in d.items()]
        for g1, p1, v1 in items:
            for g2, p2, v2 in items:
                if p1 is True and p2 is False and all(g2.get(k, x) == x for k, x in g1.items()) and v1[0] != v2[0]:
                    diff.append({"proxied_guard": g1, "proxied": v1, "direct_guard": g2, "direct": v2})
        # each branch exists
        ctors = {c for d in by_branch.values() for (_, c) in d.values()}
        ok_branches = ctors >= {"ProxyRecordWriter", "dnaio_open"}
        report.ob(rule, f"OutputFiles.{mname}: same format information on the proxied and the direct branch", not diff and not bad and ok_branches,
                  facts={"paths": len(rows), "constructors": sorted(ctors), "differences": diff[:2], "problems": bad[:2]}, expected="kwargs['fileformat'] is decided before the 'if self._proxied' split, identically for both writers", loc=repo.loc(fn), cases=len(rows))
        if mname == "open_record_writer":
            # an explicit format is derived from the path string on every path that is not the '--fasta to stdout' case
            undecided = []
            for r in rows:
                if r.exit[0] != "return":
                    continue
                fmt = [e[2] for e in r.effects if e[0] == "store" and e[1] == "KWARGS['fileformat']"]
                if not fmt:
                    # acceptable only if the format was looked up from the names and found ambiguous (two files of different formats)
                    looked = any(c[2].endswith("detect_format_from_name") or "detect_format_from_name" in c[0] for c in r.calls) or any("detect_format_from_name" in k for k in r.valuation)
                    if not looked:
                        undecided.append(r.describe()["valuation"])
            # two output paths with the same extension must give ONE format: the detected formats are collected as a set
            coll = [n for n in ast.walk(fn) if isinstance(n, (ast.Assign, ast.AnnAssign)) and n.value is not None and any(isinstance(x, ast.Call) and chain(x.func) == "detect_format_from_name" for x in ast.walk(n.value))
                    and isinstance(n.value, (ast.SetComp, ast.ListComp, ast.GeneratorExp, ast.Call, ast.List, ast.Set, ast.Tuple))]
            facts_c = {"collection": src(coll[0].value)[:120] if coll else None}
            ok_c = None  # another shape of the decision is not judged (analysis error), only a recognised collection that is not a set
            if len(coll) == 1:
                v = coll[0].value
                is_set = isinstance(v, (ast.SetComp, ast.Set)) or (isinstance(v, ast.Call) and chain(v.func) in ("set", "frozenset"))
                tname = chain(coll[0].targets[0] if isinstance(coll[0], ast.Assign) else coll[0].target)
                comp = v if isinstance(v, (ast.SetComp, ast.ListComp, ast.GeneratorExp)) else next((x for x in ast.walk(v) if isinstance(x, (ast.SetComp, ast.ListComp, ast.GeneratorExp))), None)
                over_all = comp is not None and len(comp.generators) == 1 and src(comp.generators[0].iter) == (fn.args.vararg.arg if fn.args.vararg else "paths") \
                    and isinstance(comp.elt, ast.Call) and chain(comp.elt.func) == "detect_format_from_name" and [src(a_) for a_ in comp.elt.args] == [src(comp.generators[0].target)]
                applied = [n for n in ast.walk(fn) if isinstance(n, ast.Assign) and isinstance(n.targets[0], ast.Subscript) and isinstance(n.targets[0].slice, ast.Constant) and n.targets[0].slice.value == "fileformat"
                           and tname and any(isinstance(x, ast.Name) and x.id == tname for x in ast.walk(n.value))]
                one = [n for n in ast.walk(fn) if isinstance(n, ast.If) and src(n.test).replace(" ", "") in (f"len({tname})==1", f"1==len({tname})") and any(a_ in list(ast.walk(n)) for a_ in applied)]
                facts_c.update({"is_set": is_set, "over_all_paths": over_all, "applied_when": src(one[0].test) if one else None, "applied_as": src(applied[0].value) if applied else None})
                ok_c = (is_set and over_all and len(one) == 1 and len(applied) == 1) if (over_all and applied) else None
                # a name without a known extension counts as its own answer (None): the set is not edited before it is counted
                edits = [src(x)[:60] for x in ast.walk(fn) if isinstance(x, ast.Call) and isinstance(x.func, ast.Attribute) and chain(x.func.value) == tname and x.func.attr in ("discard", "remove", "difference_update", "intersection_update", "clear")]
                edits += [src(x)[:60] for x in ast.walk(fn) if isinstance(x, ast.AugAssign) and chain(x.target) == tname]
                filt = comp is not None and any(any(isinstance(y, ast.Call) and chain(y.func) == "detect_format_from_name" for y in ast.walk(i_)) for i_ in comp.generators[0].ifs)
                if ok_c and (edits or filt):
                    ok_c = False
                    facts_c["set_edited_before_counting"] = edits or ["comprehension filters by the detected format"]
                if over_all and applied and not is_set:
                    ok_c = False
            if len(coll) == 1 and one:
                # names that disagree (-o x.fasta -p y.fastq): without an explicit decision the serial writer lets dnaio decide per
                # file NAME (FASTA, FASTQ), the proxied writer has nameless buffers and decides by the qualities (FASTQ, FASTQ)
                els = one[0].orelse
                decided = any(isinstance(x, ast.Raise) for st_ in els for x in ast.walk(st_)) or any(
                    isinstance(x, ast.Assign) and isinstance(x.targets[0], ast.Subscript) and isinstance(x.targets[0].slice, ast.Constant) and x.targets[0].slice.value == "fileformat" for st_ in els for x in ast.walk(st_))
                report.ob(rule, "OutputFiles.open_record_writer: file names that disagree about the format", decided, facts={"decision_when_not_exactly_one_format": "explicit" if decided else "left to the writer"},
                          expected="with two names of different formats the run is refused, or the format(s) are fixed explicitly so that the serial and the proxied writer agree", loc=repo.loc(one[0]),
                          fact_key=None if decided else "names-disagree",
                          why="" if decided else "-o x.fasta -p y.fastq: with one core R1 is written as FASTA and R2 as FASTQ (dnaio looks at each file name), with two cores both are FASTQ (in-memory buffers have no name)")
            report.ob(rule, "OutputFiles.open_record_writer: one format for all paths of a writer", ok_c, facts=facts_c,
                      expected="formats = {detect_format_from_name(p) for p in paths if p is not None}; applied iff exactly one distinct format", loc=repo.loc(fn),
                      why="" if ok_c is not False else ("undetected formats are removed from the set before it is counted: with '-o out.fasta -p out.reads' the one recognised extension is imposed on BOTH files, where the file with the unknown extension falls back to the input format" if facts_c.get("set_edited_before_counting") else "") + "two output files with the same extension must give one format; with a list (or per-path decision) '-o a.fasta -p b.fasta' is left without an explicit format and the proxied writer falls back to FASTQ")
            report.ob(rule, "OutputFiles.open_record_writer: format derived from the path string", not undecided, facts={"paths_without_decision": undecided[:3]},
                      expected="the file name(s) are inspected (before any file object exists) on every path that does not force FASTA", loc=repo.loc(fn), fact_key="format-left-to-file-object" if undecided else None,
                      why="" if not undecided else "the FASTA/FASTQ decision is left to dnaio, which looks at the file object's name: compressed streams and in-memory buffers of worker processes have none, so the format depends on compression and on --cores")
    # the name-based detector strips compression suffixes first and knows both families
    try:
        fn = repo.func("files", "detect_format_from_name")
    except Unrecognised:
        report.ob(rule, "files.detect_format_from_name", None, why="helper that derives the format from a path string not found")
        return
    from .. import constfold

    # The function is closed (strings in, string out): it is folded on a table of names and compared with dnaio's own
    # rule (frozen fact, dnaio 1.2.4 singleend._detect_format_from_name: lower-case the name, strip ONE compression
    # suffix, take the extension).  The serial writer lets dnaio decide by name when no explicit format is given, the
    # proxied writer can only be told explicitly - so the two must be the same function of the name.
    DNAIO_FASTA = {".fasta", ".fa", ".fna", ".csfasta", ".csfa"}
    DNAIO_FASTQ = {".fastq", ".fq"}

    def dnaio_rule(name):
        name = name.lower()
        for ext in (".gz", ".xz", ".bz2", ".zst"):
            if name.endswith(ext):
                name = name[: -len(ext)]
                break
        import posixpath
        name, ext = posixpath.splitext(name)
        if ext in DNAIO_FASTA:
            return "fasta"
        if ext in DNAIO_FASTQ or (ext == ".txt" and name.endswith("_sequence")):
            return "fastq"
        return None

    pname = params(fn)[0]
    stems = ["out", "dir.fastq/out", "s_1_sequence", "x.fasta.tmp"]
    exts = sorted(DNAIO_FASTA | DNAIO_FASTQ) + [".txt", ".dat", ""]
    bad, ncase = [], 0
    try:
        for stem in stems:
            for ext in exts:
                for comp_ in ("", ".gz", ".bz2", ".xz", ".zst"):
                    for case in (str.lower, str.upper, str.title):
                        name = case(stem + ext + comp_)
                        got = constfold.fold_function(fn, {pname: name})
                        ncase += 1
                        if got != dnaio_rule(name):
                            bad.append({"name": name, "detected": got, "dnaio": dnaio_rule(name)})
    except constfold.NotConstant as e:
        report.unrecognised(rule, "files.detect_format_from_name", f"not a closed function of the name ({e})", repo.loc(fn))
        bad = None
    if bad is not None:
        report.ob(rule, "files.detect_format_from_name", not bad, facts={"names_evaluated": ncase, "disagreements": bad[:3]}, cases=ncase,
                  expected="the same function of the file name as dnaio's: case-insensitive, one compression suffix (.gz/.bz2/.xz/.zst) stripped, .fasta/.fa/.fna/.csfasta/.csfa -> 'fasta', .fastq/.fq/_sequence.txt -> 'fastq', else None", loc=repo.loc(fn),
                  why=(f"for the name {bad[0]['name']!r} the detector says {bad[0]['detected']!r} where dnaio (serial, uncompressed writer) says {bad[0]['dnaio']!r}: the output format then depends on compression and on --cores" if bad else ""))
    # ProxyRecordWriter forwards the keyword arguments unchanged to dnaio.open and restores them after pickling (C06.R5)
    c, pi = repo.need_method("ProxyRecordWriter", "__init__")
    op = [x for x in calls(pi) if any(src(a) == "dnaio.open" for a in x.args) or chain(x.func) == "dnaio.open"]
    ok = len(op) == 1 and any(k.arg is None and src(k.value) == "kwargs" for k in op[0].keywords) and any(k.arg == "mode" and src(k.value) == "'w'" for k in op[0].keywords)
    report.ob(rule, "ProxyRecordWriter forwards the format keywords", ok, facts={"call": src(op[0])[:140] if op else None}, expected="dnaio.open(*buffers, mode='w', **kwargs)", loc=repo.loc(pi))
    c, do = repo.need_method("FileOpener", "dnaio_open")
    cs = [x for x in calls(do) if chain(x.func) == "dnaio.open"]
    ok = len(cs) == 1 and any(k.arg is None and src(k.value) == "kwargs" for k in cs[0].keywords)
    sets = [src(n) for n in ast.walk(do) if isinstance(n, ast.Assign) and isinstance(n.targets[0], ast.Subscript) and chain(n.targets[0].value) == "kwargs"]
    report.ob(rule, "FileOpener.dnaio_open forwards the format keywords", ok and sets == ["kwargs['opener'] = self.xopen"], facts={"call": src(cs[0])[:100] if cs else None, "modifies": sets}, expected="only 'opener' is added", loc=repo.loc(do))
    # qualities come from the input format, identically for both runners
    m = cli_main(repo)
    of = [x for x in calls(m) if chain(x.func) == "OutputFiles"]
    kw = {k.arg: src(k.value) for k in of[0].keywords} if of else {}
    ok = kw.get("qualities") == "runner.input_file_format().has_qualities()" and kw.get("proxied") == "cores > 1"
    report.ob(rule, "OutputFiles(qualities=...) comes from the runner's input format", ok, facts=kw, expected="qualities=runner.input_file_format().has_qualities(), proxied=cores > 1", loc=repo.loc(of[0]) if of else repo.loc(m))


def _r3_input(repo, report, rule):
    # worker path: InputFiles(*files, interleaved=..., fileformat=self._file_format)
    c, wrun = repo.need_method("WorkerProcess", "run")
    wi = [x for x in calls(wrun) if chain(x.func) == "InputFiles"]
    kw = {k.arg: src(k.value) for k in wi[0].keywords} if wi else {}
    ok_w = kw.get("fileformat") == "self._file_format"
    c, pinit = repo.need_method("ParallelPipelineRunner", "__init__")
    ffs = [n for n in ast.walk(pinit) if isinstance(n, ast.Assign) and chain(n.targets[0]) == "self._file_format_string"]
    ok_w = ok_w and ffs and src(ffs[0].value) == "self._input_file_format.name.lower()"
    c, rrun = repo.need_method("ReaderProcess", "run")
    det = [x for x in calls(rrun) if chain(x.func) == "detect_file_format"]
    opn_r = [x for x in calls(rrun) if chain(x.func) == "xopen_rb_raise_limit"]
    ok_w = ok_w and len(det) == 1 and src(det[0].args[0]) == "files[0]" and len(opn_r) == 1
    # the format the reader announces is the content-detected one on every path
    def rhook(ex, node, env):
        cn = chain(node.func)
        if cn == "detect_file_format" and len(node.args) == 1:
            return Obj("DETECTED:" + vkey(ex.ev(node.args[0], env)), nonnull=True)
        if cn == "self._file_format_connection.send" and len(node.args) == 1:
            ex.effect("io", "format-send", vkey(ex.ev(node.args[0], env)), node)
            return Const(None)
        if cn and (cn.endswith(".send") or cn.endswith(".send_bytes") or cn in ("self.shutdown", "self.send_to_worker", "traceback.format_exc", "sys.stdin.close", "os.fdopen")):
            return Const(None)
        return None

    try:
        rrows = explore(repo, strip_docstring(rrun.body), {"self": Obj("self", nonnull=True)}, call_hook=rhook, inline=False, max_rows=4000)
        announced = sorted({e[2] for r in rrows for e in r.effects if e[0] == "io" and e[1] == "format-send" and e[2] != "-2" and not e[2].startswith("(")})
    except Unrecognised as u:
        announced = [f"<not analysable: {u.what[:60]}>"]
    ok_src = bool(announced) and all(a.startswith("DETECTED:") and "[0]" in a for a in announced)
    report.ob(rule, "reader announces the content-detected format on every path", ok_src, facts={"announced": announced}, expected="self._file_format_connection.send(detect_file_format(files[0]))", loc=repo.loc(rrun),
              why="" if ok_src else "on some path the multi-core reader takes the format from somewhere else (e.g. the file name) while the single-core path decides by content: a misnamed file is then read differently with -j 1 and -j 2")
    report.ob(rule, "worker path: records parsed with the content-detected format", ok_w, facts={"InputFiles": kw, "format_string": src(ffs[0].value) if ffs else None, "detected_by": src(det[0]) if det else None},
              expected="reader: detect_file_format(files[0]); workers: InputFiles(..., fileformat=<that format>)", loc=repo.loc(wrun))
    # serial path: InputPaths.open -> InputFiles(..., fileformat=<content-detected>)
    c, io = repo.need_method("InputPaths", "open")
    ic = [x for x in calls(io) if chain(x.func) == "InputFiles"]
    kw = {k.arg: src(k.value) for k in ic[0].keywords} if ic else {}
    det = [x for x in calls(io) if chain(x.func) == "detect_file_format"]
    opn_s = [x for x in calls(io) if chain(x.func) == "xopen_rb_raise_limit"]
    ff = kw.get("fileformat")
    derived = False
    if ff:
        defs = [n for n in ast.walk(io) if isinstance(n, ast.Assign) and chain(n.targets[0]) == ff]
        derived = any("detect_file_format(files[0])" in src(d.value) for d in defs) or "detect_file_format(files[0])" in ff
    ok_s = bool(ic) and derived and len(opn_s) == 1
    report.ob(rule, "serial path: records parsed with the content-detected format", ok_s, facts={"InputFiles": kw, "detects": [src(d) for d in det], "opener": [src(o)[:60] for o in opn_s]},
              expected="InputFiles(*files, interleaved=..., fileformat=<detect_file_format(files[0])>), files opened with xopen_rb_raise_limit", loc=repo.loc(io), fact_key="serial-format-by-name" if not ok_s else None,
              why="" if ok_s else "the single-core reader is opened without a format, so dnaio decides by the file NAME first while the multi-core reader decides by CONTENT: a misnamed file is read differently")
    c, iop = repo.need_method("InputFiles", "open")
    oc = [x for x in calls(iop) if chain(x.func) == "dnaio.open"]
    kw = {k.arg: src(k.value) for k in oc[0].keywords} if oc else {}
    ok = len(oc) == 1 and kw.get("fileformat") == "self.fileformat" and kw.get("interleaved") == "self.interleaved" and kw.get("mode") == "'r'" and src(oc[0].args[0]) == "*self._files"
    report.ob(rule, "InputFiles.open passes all files, the format and the layout to one reader", ok, facts=kw, expected="dnaio.open(*self._files, interleaved=self.interleaved, mode='r', fileformat=self.fileformat)", loc=repo.loc(iop))
    # the format both runners report is the same function
    c, sf = repo.need_method("SerialPipelineRunner", "input_file_format")
    rs = [src(n.value) for n in ast.walk(sf) if isinstance(n, ast.Return)]
    report.ob(rule, "serial runner reports the content-detected format", rs == ["detect_file_format(self._infiles._files[0])"], facts={"returns": rs}, expected="detect_file_format(first input file)", loc=repo.loc(sf))
    # detect_file_format: decision by magic bytes only
    fn = repo.func("files", "detect_file_format")
    rows = explore(repo, strip_docstring(fn.body), {params(fn)[0]: Obj("FILE", nonnull=True)}, inline=False)
    outs = sorted({vkey(r.exit[1]) if r.exit[0] == "return" else r.exit[0] for r in rows})
    ok = outs == ["FileFormat.BAM", "FileFormat.FASTA", "FileFormat.FASTQ", "raise"] and not any("name" in k for r in rows for k in r.valuation)
    # ... and leaves the stream where it found it: whatever is read is given back (seek to the remembered position); a
    # stream that cannot seek is only peeked at. A consuming read there removes the first bytes for the parser - the same
    # data gives another result through a pipe than from a file.
    eaten = []
    for r in rows:
        seq_ = [c_[0] for c_ in r.calls if c_[0].startswith("FILE.")]
        reads = [i for i, c_ in enumerate(seq_) if re.fullmatch(r"FILE\.read\w*\([^()]*\)", c_)]
        for i in reads:
            if not any(c_.startswith("FILE.seek(") for c_ in seq_[i + 1:]) or r.valuation.get("truthy:FILE.seekable()") is not True:
                eaten.append({"path": r.describe()["valuation"], "calls": seq_})
    report.ob(rule, "detect_file_format consumes nothing", not eaten, facts={"problems": eaten[:2]}, loc=repo.loc(fn), cases=len(rows),
              expected="read() only on a seekable stream and followed by seek(<position before>); peek() otherwise",
              why=(f"on the path {eaten[0]['path']} the stream is read ({[c for c in eaten[0]['calls'] if 'read' in c][0]}) and not put back: the parser starts behind the first bytes of a piped input" if eaten else ""))
    report.ob(rule, "detect_file_format looks only at the first bytes", ok, facts={"outcomes": outs, "atoms": sorted({k for r in rows for k in r.valuation})[:8]}, expected="FASTQ / FASTA / BAM by magic, else UnknownFileFormat; never the file name", loc=repo.loc(fn), cases=len(rows))


def r2_fasta(repo, report):
    fn, rows = _writer_rows(repo, "open_record_writer")
    bad = []
    unforced = []
    seen_force = False
    for r in rows:
        if r.exit[0] != "return":
            continue
        fmt = [e[2] for e in r.effects if e[0] == "store" and e[1] == "KWARGS['fileformat']"]
        forced = "'fasta'" in fmt
        if forced:
            seen_force = True
            stdout = (r.valuation.get("eq:PATHS[0]:'-'") is True and r.valuation.get("sign:len(PATHS)-1") == 0) or any(k.replace(" ", "") in ("eq:(None):PATHS", "eq:PATHS:(None)", "eq:(None,):PATHS", "eq:PATHS:(None,)") and v is True for k, v in r.valuation.items())
            ok = r.valuation.get("truthy:FORCE_FASTA") is True and stdout
            if not ok:
                bad.append(r.describe()["valuation"])
        else:
            # the converse: a writer on standard output - the single path '-' or a missing one - is never returned
            # unforced when --fasta was given (or without having looked at it)
            stdout = (r.valuation.get("eq:PATHS[0]:'-'") is True and r.valuation.get("sign:len(PATHS)-1") == 0) or any(k.replace(" ", "") in ("eq:(None):PATHS", "eq:PATHS:(None)", "eq:(None,):PATHS", "eq:PATHS:(None,)") and v is True for k, v in r.valuation.items())
            if stdout and r.valuation.get("truthy:FORCE_FASTA") is not False:
                unforced.append(r.describe()["valuation"])
    report.ob("C19.R2", "OutputFiles.open_record_writer: --fasta reaches every writer on standard output", not unforced, facts={"unforced": unforced[:2]}, loc=repo.loc(fn),
              expected="a single path that is '-' or missing gets fileformat='fasta' whenever force_fasta is set; the missing path is turned into '-' before the format is decided",
              why=(f"on {unforced[0]} the writer for standard output is opened without the forced format: --fasta is ignored when no -o is given" if unforced else ""))
    report.ob("C19.R2", "OutputFiles.open_record_writer: --fasta", not bad and seen_force, facts={"forced_outside_stdout": bad[:2]}, expected="fileformat='fasta' is forced only if force_fasta and the single path is '-' (or missing, which means standard output)", loc=repo.loc(fn),
              why="" if not bad else "--fasta also changes the format of a named output file")
    fn2, rows2 = _writer_rows(repo, "open_stdout_record_writer")
    bad = []
    for r in rows2:
        if r.exit[0] != "return":
            continue
        fmt = [e[2] for e in r.effects if e[0] == "store" and e[1] == "KWARGS['fileformat']"]
        if r.valuation.get("truthy:FORCE_FASTA") is None:
            bad.append({"writer returned without looking at force_fasta": r.describe()["valuation"]})
        elif ("'fasta'" in fmt) != (r.valuation.get("truthy:FORCE_FASTA") is True):
            bad.append(r.describe()["valuation"])
    report.ob("C19.R2", "OutputFiles.open_stdout_record_writer: --fasta", not bad, facts={"problems": bad[:2]}, expected="fileformat='fasta' iff force_fasta, for both the proxied and the direct writer", loc=repo.loc(fn2),
              why="" if not bad else "--fasta is honoured by only one of the two writers")
    # cli passes --fasta only to the sinks that may write to stdout
    m = repo.func("cli", "make_pipeline_from_args")
    uses = [src(k.value) for x in calls(m) for k in x.keywords if k.arg == "force_fasta"]
    # every writer of the MAIN output (the one that goes to standard output without -o): open_stdout_record_writer(...) and
    # open_record_writer(args.output ...) / open_record_writer(*[args.output, ...]) calls
    from ..repo import expand
    finals = []
    for x in calls(m):
        cn = chain(x.func) or ""
        if not cn.endswith((".open_record_writer", ".open_stdout_record_writer")):
            continue
        argt = " ".join(src(expand(m, a.value if isinstance(a, ast.Starred) else a)) for a in x.args)
        for a in x.args:
            nm = a.value if isinstance(a, ast.Starred) else a
            if isinstance(nm, ast.Name):  # a local with several bindings: look at all of them
                scope = x
                while scope is not None and not isinstance(scope, (ast.FunctionDef, ast.Lambda)):
                    scope = getattr(scope, "_parent", None)
                from ..repo import walk_no_nested
                argt += " " + " ".join(src(n_.value) for n_ in walk_no_nested(scope or m) if isinstance(n_, ast.Assign) and any(isinstance(t, ast.Name) and t.id == nm.id for t in n_.targets))
        if cn.endswith(".open_stdout_record_writer") or "args.output" in argt:
            finals.append(x)
    missing = [src(x)[:90] for x in finals if [src(k.value) for k in x.keywords if k.arg == "force_fasta"] != ["args.fasta"]]
    report.ob("C19.R2", "builder passes --fasta to every writer of the main output", not missing and len(finals) >= 3 and len(uses) == len(finals), facts={"main_output_writers": len(finals), "without_force_fasta": missing, "force_fasta_arguments": uses},
              expected="force_fasta=args.fasta on the single-end writers and on the paired-end sink's writer (interleaved output may go to standard output)", loc=repo.loc(m),
              why=(f"{missing[0]} does not receive --fasta: with this writer on standard output the option is ignored" if missing else ""))


def r4_interleaved(repo, report):
    m = cli_main(repo)
    from ..repo import expand
    mk = [x for x in calls(m) if chain(x.func) == "make_input_paths"]
    passed = [nsrc(src(expand(m, a))) for a in mk[0].args] if len(mk) == 1 else []
    want = nsrc("args.interleaved and len(args.inputs) == 1")
    ok = len(passed) == 3 and passed[0] == "args.inputs" and passed[2] == want
    d = []
    report.ob("C19.R4", "input is interleaved iff --interleaved and one input file", ok, facts={"passed_expanded": passed}, expected="make_input_paths(args.inputs, paired, args.interleaved and len(args.inputs) == 1)", loc=repo.loc(m))
    fn = repo.func("cli", "make_input_paths")
    ps = params(fn)
    rows = explore(repo, strip_docstring(fn.body), {ps[0]: Obj("INPUTS", nonnull=True), ps[1]: Obj("PAIRED"), ps[2]: Obj("INTERLEAVED")}, inline=False, max_rows=4000)
    bad = []
    for r in rows:
        if r.exit[0] != "return":
            continue
        k = vkey(r.exit[1])
        if r.valuation.get("sign:len(INPUTS)-1") == -1 or r.valuation.get("sign:len(INPUTS)-2") == 1 or r.valuation.get("truthy:INPUTS[1]") is False:
            continue  # len(inputs) is 1 or 2 here (other counts raise); file names are non-empty strings
        if "interleaved=INTERLEAVED" not in k:
            bad.append(k[:100])
        two = "INPUTS[1]" in k
        need_two = r.valuation.get("truthy:PAIRED") is True and r.valuation.get("truthy:INTERLEAVED") is False
        if two != need_two:
            bad.append({"returns": k[:100], "valuation": r.describe()["valuation"]})
    report.ob("C19.R4", "make_input_paths", not bad, facts={"paths": len(rows), "problems": bad[:2]}, expected="two paths iff paired and not interleaved; the interleaved flag is forwarded", loc=repo.loc(fn), cases=len(rows))
    # output writers: interleaved iff the second path is absent (from the builder model)
    from . import builder_rules
    import re

    mdl = builder_rules.model(repo, True)
    bad = []
    n = 0
    for bi, ri, pos, val, s in mdl.slots("steps"):
        for w in re.finditer(r"open_record_writer\(([^)]*)\)", s.key):
            n += 1
            args = [a.strip() for a in w.group(1).split(",")]
            paths = [a for a in args if a.startswith("args.")]
            inter = "interleaved=True" in args
            if (len(paths) == 1) != inter:
                bad.append(s.key[:120])
    report.ob("C19.R4", "paired writers are interleaved iff they get one path", not bad and n >= 6, facts={"writers": n, "problems": bad[:3]}, expected="open_record_writer(p1, p2, interleaved=False) or open_record_writer(p1, interleaved=True)", loc="src/cutadapt/cli.py", cases=n)
    c, orw = repo.need_method("OutputFiles", "open_record_writer")
    guards = [src(n.test) for n in ast.walk(orw) if isinstance(n, ast.If) and any(isinstance(x, ast.Raise) for x in n.body)]
    ok = any("interleaved and len(paths) != 1" in g for g in guards)
    report.ob("C19.R4", "interleaved writing to two files is rejected", ok, facts={"guards": guards}, expected="interleaved and len(paths) != 1 raises", loc=repo.loc(orw))


_STDOUT_CAPABLE = ("output", "paired_output", "untrimmed_output", "untrimmed_paired_output", "too_short_output", "too_short_paired_output",
                   "too_long_output", "too_long_paired_output", "rest_file", "info_file", "wildcard_file")


# print() sites that write to standard output on purpose, each with the reason it cannot reach a normal run's output
_DEBUG_PRINTS = {
    ("adapters", "print_matrices"): "debugging aid, only called under `if self._debug` (--debug given twice)",
}


def r4_prints(repo, report):
    """Whatever else the program prints - progress, hints, the interrupt notice - must not land on standard output, where
    the records may be going: every print() outside debugging code names a stream, and that stream cannot be None
    (print(file=None) writes to standard output)."""
    from ..repo import enclosing, qualname

    sites = bad = 0
    problems = []
    exempt = []
    for mname, m in sorted(repo.modules.items()):
        if m.kind != "py":
            continue
        for x in ast.walk(m.tree):
            if not (isinstance(x, ast.Call) and isinstance(x.func, ast.Name) and x.func.id == "print"):
                continue
            fn = enclosing(x, (ast.FunctionDef, ast.AsyncFunctionDef))
            where = f"{m.relpath}:{x.lineno}"
            # not part of a run: the module's own command line; debugging output
            par, under_main, under_debug = x, False, False
            while par is not None:
                if isinstance(par, ast.If):
                    t = src(par.test)
                    under_main |= t.replace('"', "'") == "__name__ == '__main__'"
                    under_debug |= t.endswith("._debug") or t == "self._debug"
                par = getattr(par, "_parent", None)
            if under_main or under_debug or (fn is not None and (mname, qualname(fn)) in _DEBUG_PRINTS):
                exempt.append(where)
                continue
            sites += 1
            fk = [k for k in x.keywords if k.arg == "file"]
            if not fk:
                star = [k for k in x.keywords if k.arg is None]
                sets = fn is not None and star and any(isinstance(n, ast.Assign) and isinstance(n.targets[0], ast.Subscript) and chain(n.targets[0].value) == chain(star[0].value)
                                                      and isinstance(n.targets[0].slice, ast.Constant) and n.targets[0].slice.value == "file" and n.lineno < x.lineno for n in ast.walk(fn))
                if not sets:
                    problems.append(f"{where}: {src(x)[:50]} names no stream: it writes to standard output")
                continue
            v = fk[0].value
            why = _maybe_none_stream(repo, fn, v, x)
            if why:
                problems.append(f"{where}: file={src(v)} {why}")
    report.saw(call_sites=sites)
    report.ob("C19.R4", "print() never writes to standard output in a run", not problems, facts={"print_sites": sites, "debug_or_module_main": exempt, "problems": problems[:3]}, loc="src/cutadapt", cases=sites,
              expected="file=sys.stderr, a local StringIO, `x or sys.stderr`, or an attribute/parameter that is never None",
              why=(problems[0] + ": with records on standard output ('-o -' or no -o) this text lands between the records" if problems else ""))
    report.floor("C19.R4", "print sites", sites, 20)


def _maybe_none_stream(repo, fn, v, call):
    """'' if the expression is a stream for sure; else why it may be None / standard output"""
    from ..repo import enclosing

    t = src(v)
    if t == "sys.stderr":
        return ""
    if t in ("sys.stdout", "sys.__stdout__"):
        return "is standard output"
    if isinstance(v, ast.BoolOp) and isinstance(v.op, ast.Or):
        return _maybe_none_stream(repo, fn, v.values[-1], call)
    if isinstance(v, ast.IfExp):
        return _maybe_none_stream(repo, fn, v.body, call) or _maybe_none_stream(repo, fn, v.orelse, call)

    def guarded(name):
        par = call
        while par is not None and par is not fn:
            if isinstance(par, ast.If) and src(par.test) in (name, f"{name} is not None"):
                return True
            par = getattr(par, "_parent", None)
        return False

    def param_default_none(f, pname):
        a = f.args
        pos = a.posonlyargs + a.args
        d = dict(zip([p_.arg for p_ in pos[len(pos) - len(a.defaults):]], a.defaults))
        d.update({p_.arg: dv for p_, dv in zip(a.kwonlyargs, a.kw_defaults) if dv is not None})
        ann = next((p_.annotation for p_ in pos + a.kwonlyargs if p_.arg == pname), None)
        dv = d.get(pname)
        return (isinstance(dv, ast.Constant) and dv.value is None) or (ann is not None and "Optional" in src(ann))

    if isinstance(v, ast.Name) and fn is not None:
        binds = [n for n in ast.walk(fn) if isinstance(n, ast.Assign) and any(isinstance(t_, ast.Name) and t_.id == v.id for t_ in n.targets)]
        if binds:
            ok = all(isinstance(b.value, ast.Call) and (chain(b.value.func) or "").split(".")[-1] in ("StringIO", "open", "xopen") for b in binds)
            return "" if ok else "is bound to something that is not known to be a stream"
        if v.id in [a.arg for a in fn.args.posonlyargs + fn.args.args + fn.args.kwonlyargs]:
            return "is a parameter that defaults to None (print(file=None) writes to standard output)" if param_default_none(fn, v.id) and not guarded(v.id) else ""
        outer = enclosing(fn, (ast.FunctionDef,))
        if outer is not None:
            return _maybe_none_stream(repo, outer, v, fn)
        return "is not a local name"
    if isinstance(v, ast.Attribute) and chain(v) and chain(v).startswith("self."):
        cls = enclosing(call, (ast.ClassDef,))
        init = next((n for n in cls.body if isinstance(n, ast.FunctionDef) and n.name == "__init__"), None) if cls is not None else None
        if init is None:
            return "is an attribute whose origin is not visible"
        sets = [n for n in ast.walk(init) if isinstance(n, (ast.Assign, ast.AnnAssign)) and chain(n.targets[0] if isinstance(n, ast.Assign) else n.target) == chain(v) and n.value is not None]
        if not sets:
            return "is an attribute that __init__ does not set"
        for st in sets:
            val = st.value
            if isinstance(val, ast.Name) and val.id in [a.arg for a in init.args.args + init.args.kwonlyargs]:
                if param_default_none(init, val.id) and not guarded(chain(v)):
                    return f"comes from the constructor parameter '{val.id}', which defaults to None (print(file=None) writes to standard output)"
            elif isinstance(val, ast.Constant) and val.value is None and not guarded(chain(v)):
                return "is initialised to None"
        return ""
    return "is an expression this rule does not know to be a stream"


def r4_log_stream(repo, report):
    """Records sent to standard output ('-' for any output option, or no -o at all) must not be mixed with the log and
    the report: is_any_output_stdout(args) has to look at EVERY option that can name '-', and main() must hand its
    result to setup_logging as log_to_stderr."""
    fn = repo.func("cli", "is_any_output_stdout")
    if fn is None:
        raise Unrecognised("cli.is_any_output_stdout not found")
    a = params(fn)[0]
    looked = set()
    for n in ast.walk(fn):
        if isinstance(n, ast.Compare) and len(n.ops) == 1:
            l, r = n.left, n.comparators[0]
            if isinstance(n.ops[0], ast.Eq):
                for x, y in ((l, r), (r, l)):
                    if isinstance(y, ast.Constant) and y.value == "-" and (chain(x) or "").startswith(a + "."):
                        looked.add(chain(x)[len(a) + 1:])
            if isinstance(n.ops[0], ast.In) and isinstance(l, ast.Constant) and l.value == "-" and isinstance(r, (ast.Tuple, ast.List, ast.Set)):
                for e in r.elts:
                    if (chain(e) or "").startswith(a + "."):
                        looked.add(chain(e)[len(a) + 1:])
    none_test = any(isinstance(n, ast.Compare) and isinstance(n.ops[0], ast.Is) and chain(n.left) == f"{a}.output" and isinstance(n.comparators[0], ast.Constant) and n.comparators[0].value is None for n in ast.walk(fn))
    from ..argtable import option_table
    dests = {o.dest for o in option_table(repo)}
    unknown = [d for d in _STDOUT_CAPABLE if dests and d not in dests]
    if unknown:
        raise Unrecognised(f"output options {unknown} are no longer argparse destinations", repo.loc(fn))
    missing = [d for d in _STDOUT_CAPABLE if d not in looked]
    report.ob("C19.R4", "is_any_output_stdout looks at every option that can name '-'", not missing and none_test, facts={"looked_at": sorted(looked), "missing": missing, "no -o means stdout": none_test}, loc=repo.loc(fn),
              expected="args.output is None, or any of the output options equals '-'",
              why=(f"--{missing[0].replace('_', '-')} - is not recognised as standard output: the log and the report are then written to standard output too, in between the records" if missing else ""))
    # ... and setup_logging, told so, attaches no handler that writes to standard output, whatever the other settings are
    fl = repo.func("log", "setup_logging")
    if fl is None:
        raise Unrecognised("log.setup_logging not found")
    lps = params(fl)

    def hk(ex, node, env):
        if isinstance(node.func, ast.Name) and node.func.id.endswith("Handler") and node.args:
            return Obj(f"H{node.lineno}<{vkey(ex.ev(node.args[0], env))}>", nonnull=True)
        return None

    lenv = {lps[0]: Obj("LOGGER", nonnull=True)}
    for p_ in lps[1:]:
        lenv[p_] = Obj(p_.upper())
    lrows = explore(repo, strip_docstring(fl.body), lenv, call_hook=hk, inline=False)
    lts_key = next((f"truthy:{p_.upper()}" for p_ in lps if "stderr" in p_), None)
    badl = []
    seen_true = 0
    for r in lrows:
        if lts_key is None or r.valuation.get(lts_key) is False:
            continue  # (a path that never looks at the flag stands for both of its values)
        seen_true += 1
        added = [c_[0][len("LOGGER.addHandler("):-1] for c_ in r.calls if c_[0].startswith("LOGGER.addHandler(")]
        out = [h for h in added if "<sys.stderr>" not in h]
        if out:
            badl.append({"configuration": r.describe()["valuation"], "handlers_not_on_stderr": out})
    report.ob("C19.R4", "setup_logging(log_to_stderr=True) keeps standard output free of log and report", lts_key is not None and seen_true >= 2 and not badl, facts={"configurations": seen_true, "problems": badl[:2]}, cases=seen_true, loc=repo.loc(fl),
              expected="with log_to_stderr every attached handler writes to sys.stderr - also for --report=minimal, --quiet and --debug",
              why=(f"in configuration {badl[0]['configuration']} a handler on {badl[0]['handlers_not_on_stderr'][0]} is attached: report lines end up between the records on standard output" if badl else ""))
    m = cli_main(repo)
    sl = [x for x in calls(m) if chain(x.func) == "setup_logging"]
    from ..repo import call_arguments
    lts = call_arguments(repo, sl[0]).get("log_to_stderr") if len(sl) == 1 else None
    ok = lts is not None and isinstance(lts, ast.Call) and chain(lts.func) == "is_any_output_stdout"
    report.ob("C19.R4", "main sends the log to standard error whenever records go to standard output", ok, facts={"call": src(sl[0])[:160] if sl else None}, expected="setup_logging(..., log_to_stderr=is_any_output_stdout(args), ...)", loc=repo.loc(m))


def r4_writer_layout(repo, report):
    """Whether a record writer interleaves is its caller's decision (one -o file with --interleaved).  The writers
    opened without saying so - demultiplexing files, redirect files given as two paths - must not inherit the INPUT
    layout: the parameter defaults to False and is what reaches the writer."""
    n = 0
    for mname in ("open_record_writer", "open_stdout_record_writer"):
        c, fn = repo.method("OutputFiles", mname)
        if fn is None:
            continue
        a = fn.args
        names = [x.arg for x in a.args] + [x.arg for x in a.kwonlyargs]
        defaults = dict(zip([x.arg for x in a.args][len(a.args) - len(a.defaults):], a.defaults))
        defaults.update({x.arg: d for x, d in zip(a.kwonlyargs, a.kw_defaults) if d is not None})
        il = [p_ for p_ in names if "interleaved" in p_]
        if len(il) != 1:
            report.unrecognised("C19.R4", f"OutputFiles.{mname}", "no 'interleaved' parameter", repo.loc(fn))
            continue
        d = defaults.get(il[0])
        rebound = [x for x in ast.walk(fn) if isinstance(x, ast.Name) and x.id == il[0] and isinstance(x.ctx, ast.Store)]
        other = sorted({chain(x) for x in ast.walk(fn) if isinstance(x, ast.Attribute) and "interleaved" in x.attr and (chain(x) or "").startswith("self.")})
        ok = isinstance(d, ast.Constant) and d.value is False and not rebound and not other
        n += 1
        report.ob("C19.R4", f"OutputFiles.{mname}: interleaving is the caller's explicit choice", ok, facts={"default": src(d) if d is not None else None, "parameter_rebound": bool(rebound), "instance_state_consulted": other}, loc=repo.loc(fn),
                  expected=f"{il[0]}: bool = False, passed on unchanged",
                  why="" if ok else f"the writer's layout falls back to {other[0] if other else src(d) if d is not None else 'another value'}: with --interleaved input, files opened as a pair (e.g. {{name}} demultiplexing with -o/-p) are refused or written interleaved, while the same reads given as two files work")
    report.floor("C19.R4", "record writer factories", n, 2)


def r4_options_not_rewritten(repo, report):
    """'-' is a destination like any other: '-o - -p r2.fastq' is the two-file layout with R1 on standard output.  The code
    that decides layouts and duplicate paths looks at the parsed options; nothing may rewrite them in between."""
    mod = repo.module("cli")
    rew = []
    for n in ast.walk(mod.tree):
        tg = n.targets if isinstance(n, ast.Assign) else [n.target] if isinstance(n, (ast.AugAssign, ast.AnnAssign)) else []
        for t in tg:
            ch = chain(t) or ""
            if ch.startswith("args.") and ch[5:] in _STDOUT_CAPABLE:
                rew.append(f"line {n.lineno}: {src(n)[:70]}")
    report.ob("C19.R4", "parsed output options are not rewritten", not rew, facts={"assignments": rew}, loc="src/cutadapt/cli.py",
              expected="no assignment to args.output / args.paired_output / ... after parsing",
              why=(f"{rew[0]}: the layout decided afterwards differs from what the user asked for (e.g. '-o - -p r2.fastq' is taken for 'no -o' and rejected, while '-o r1.fastq -p r2.fastq' works)" if rew else ""))
