"""C17 - The info file locates every match and reconstructs every read."""
from __future__ import annotations

import ast

from ..absint import Const, Obj, Tup, explore, vkey
from ..core import Unrecognised
from ..lin import Lin
from ..repo import chain, params, src, strip_docstring, calls, walk_no_nested, enclosing
from ..roles import call_rows
from . import builder_rules


def run(repo, report, tier):
    report.rule("C17.R1", "InfoFileWriter returns the read on every path; without match it prints exactly one row whose second field is -1; with matches one row per info record of each match in list order and nothing else; the writer precedes every consuming step",
                "filtered reads are missing from the info file, or a read gets extra/missing rows")
    report.rule("C17.R2", "rows partition the read: the three sequence fields are [0,a) [a,b) [b,end) of the record passed in, with a, b the printed coordinates, and the quality fields use the same bounds; a linked match gives the 5' row ';1' then the 3' row ';2', the 3' one on what the 5' match left; after each match the writer continues on match.trimmed(current)",
                "the three fields do not concatenate to the read, or the middle field is not the matched stretch")
    report.rule("C17.R3", "same coordinate frame: the record that the writer slices is the record the match was computed on - no modifier that runs before adapter trimming may remove a prefix unless the writer accounts for it",
                "with -u N (N>0) or a 5' quality cutoff the match coordinates are applied to the unmodified read: the 'matched sequence' column shows the wrong bases")
    report.guard("C17.R1", "InfoFileWriter.__call__", r1_rows, repo, report)
    report.guard("C17.R1", "builder", builder_rules.c17_r1_writer_first, repo, report, tier)
    report.guard("C17.R2", "get_info_records", r2_partition, repo, report)
    report.guard("C17.R3", "coordinate frame", r3_frame, repo, report)
    report.guard("C17.R3", "paired --revcomp", r3_paired_swap, repo, report)
    report.rule("C17.R4", "the adapter-name column names an adapter: every adapter class that takes an optional name leaves its constructor with self.name = the given name, or a generated one when none was given, on every path (a base-class constructor that stores the raw argument must not run afterwards)",
                "rows of an unnamed adapter carry 'none' (or the wrong name) in the adapter-name column")
    report.guard("C17.R4", "adapter names", r4_names, repo, report)
    report.assume("a match yields at least one info record (LinkedMatch's constructor asserts that a part is present)")
    report.notes.append("Not decided: agreement of the printed error count with the aligner (C01).")


def r1_rows(repo, report):
    cls = repo.cls("InfoFileWriter")
    c, fn = repo.need_method("InfoFileWriter", "__call__")
    rows, ps = call_rows(repo, cls, fn, inline=False)
    R, I = ps[1], ps[2]
    report.saw(function="InfoFileWriter.__call__", file=cls.module.relpath, paths=len(rows))
    bad = []
    for r in rows:
        if r.exit[0] != "return" or vkey(r.exit[1]) != R:
            bad.append(("does not return the read", r.exit[0]))
        prints = [e for e in r.effects if e[0] == "call" and e[1] == "print"]
        has = r.valuation.get(f"truthy:{I}.matches")
        if has is None:
            bad.append(("rows do not depend on info.matches", r.describe()["valuation"]))
        elif not has:
            if len(prints) != 1 or prints[0][4]:
                bad.append(("no-match path must print exactly one row", [p[2][:80] for p in prints]))
            else:
                args = prints[0][2][len("print("):-1].split(", ")
                if args[:2] != [f"{R}.name", "-1"] or "file=self._file" not in args:
                    bad.append(("no-match row", prints[0][2][:120]))
        else:
            if not prints and any(k.startswith("loop-nonempty:") and v is False for k, v in r.valuation.items()):
                continue  # abstract path on which a match has no info record (excluded by the stated assumption)
            if not prints or not all(p[4] for p in prints):
                bad.append(("match path prints outside the per-record loop", [p[2][:80] for p in prints]))
            for p in prints:
                first = p[2][len("print("):].split(", ")[0]
                if f"{R}.name" not in first or "[0]" not in first or "file=self._file" not in p[2] or "[1:]" not in p[2]:
                    bad.append(("match row", p[2][:140]))
    report.ob("C17.R1", "InfoFileWriter.__call__", not bad, facts={"paths": len(rows), "problems": [str(b)[:240] for b in bad[:3]]},
              expected="always returns the read; no match: one row (name, -1, ...); matches: one row per info record", loc=repo.loc(fn), cases=len(rows), why=str(bad[0])[:200] if bad else "")
    # loop structure: for match in info.matches: for record in match.get_info_records(cur): print ; cur = match.trimmed(cur)
    outer = [n for n in ast.walk(fn) if isinstance(n, ast.For) and src(n.iter) == f"{I}.matches"]
    ok = len(outer) == 1
    facts = {}
    if ok:
        o = outer[0]
        mv = o.target.id
        inner = [n for n in o.body if isinstance(n, ast.For)]
        adv = [n for n in ast.walk(o) if isinstance(n, ast.Assign) and isinstance(n.value, ast.Call) and chain(n.value.func) == f"{mv}.trimmed"]
        ok = len(inner) == 1 and len(adv) == 1
        if ok:
            cur = chain(adv[0].targets[0])
            facts = {"inner_iterates": src(inner[0].iter), "advance": src(adv[0]), "advance_in": "outer loop" if adv[0] in o.body else "elsewhere"}
            ok = src(inner[0].iter) == f"{mv}.get_info_records({cur})" and [src(a) for a in adv[0].value.args] == [cur] and adv[0] in o.body and o.body.index(adv[0]) > o.body.index(inner[0])
    if ok:
        # inside the per-match loop the current record changes ONLY through the advance: in particular the orientation
        # (--revcomp) is applied once, before the loop, not once per match
        cur = chain(adv[0].targets[0])
        other = [src(n) for n in ast.walk(outer[0]) if isinstance(n, (ast.Assign, ast.AugAssign)) and n is not adv[0] and chain(n.targets[0] if isinstance(n, ast.Assign) else n.target) == cur]
        facts["other_updates_in_loop"] = other
        rc = [n for n in ast.walk(fn) if isinstance(n, ast.Call) and isinstance(n.func, ast.Attribute) and n.func.attr == "reverse_complement"]
        in_loop = [src(x) for x in rc if x in list(ast.walk(outer[0]))]
        facts["reverse_complement_calls"] = {"total": len(rc), "inside_match_loop": in_loop}
        ok = not other and not in_loop and len(rc) <= 1
    report.ob("C17.R2", "InfoFileWriter: one advance per match, after its rows", ok, facts=facts, expected="for match in info.matches: [rows of match.get_info_records(current)]; current = match.trimmed(current)", loc=repo.loc(fn),
              why="" if ok else "the record for later rounds is not 'what the previous match left' exactly once per match")


def r2_partition(repo, report):
    c, fn = repo.need_method("SingleMatch", "get_info_records")
    ps = params(fn)
    rows = explore(repo, strip_docstring(fn.body), {"self": Obj("self", nonnull=True), ps[1]: Obj("READ", nonnull=True)}, inline=False)
    report.saw(function="SingleMatch.get_info_records", valuations=len(rows))
    bad = []
    S, Q = "READ.sequence", "READ.qualities"
    a, b = "self.rstart", "self.rstop"
    for r in rows:
        if r.exit[0] != "return":
            bad.append(("exit", r.exit[0]))
            continue
        v = r.exit[1]
        if not (isinstance(v, Tup) and len(v.items) == 1 and isinstance(v.items[0], Tup)):
            bad.append(("shape", vkey(v)[:120]))
            continue
        rec = [vkey(x) for x in v.items[0].items]
        want = ["''", "self.errors", a, b, f"{S}[0:{a}]", f"{S}[{a}:{b}]", f"{S}[{b}:]", "self.adapter.name"]
        if rec[:8] != want:
            bad.append(("fields 0-7", rec[:8], want))
        hasq = r.valuation.get(f"truthy:{Q}")
        wantq = [f"{Q}[0:{a}]", f"{Q}[{a}:{b}]", f"{Q}[{b}:]"] if hasq else ["''", "''", "''"]
        if rec[8:] != wantq:
            bad.append(("quality fields", rec[8:], wantq))
    report.ob("C17.R2", "SingleMatch.get_info_records", not bad and len(rows) == 2, facts={"paths": len(rows), "problems": [str(x)[:300] for x in bad[:2]]},
              expected="['', errors, rstart, rstop, seq[0:rstart], seq[rstart:rstop], seq[rstop:], adapter name, qual[0:rstart], qual[rstart:rstop], qual[rstop:]] of the record passed in", loc=repo.loc(fn), cases=len(rows),
              why=str(bad[0])[:240] if bad else "")
    # linked
    c, lf = repo.need_method("LinkedMatch", "get_info_records")
    lps = params(lf)

    def hook(ex, node, env):
        f = node.func
        if isinstance(f, ast.Attribute) and f.attr == "get_info_records" and len(node.args) == 1:
            m = vkey(ex.ev(f.value, env))
            x = vkey(ex.ev(node.args[0], env))
            return Tup([Obj(f"REC[{m}]({x})", nonnull=True)], "list")
        return None

    rows = explore(repo, strip_docstring(lf.body), {"self": Obj("self", nonnull=True), lps[1]: Obj("READ", nonnull=True)}, call_hook=hook, inline=False)
    bad = []
    F, B = "self.front_match", "self.back_match"
    for r in rows:
        fn_ = r.valuation.get(f"isnone:{F}")
        bn = r.valuation.get(f"isnone:{B}")
        if fn_ is None or bn is None:
            bad.append(("presence of a part not tested with 'is None'", r.describe()["valuation"]))
            continue
        ret = vkey(r.exit[1]) if r.exit[0] == "return" else r.exit[0]
        want = []
        cur = "READ"
        names = {}
        if not fn_:
            want.append(f"REC[{F}]({cur})")
            names[f"REC[{F}]({cur})[7]"] = "';1'"
            cur = f"{F}.trimmed({cur})"
        if not bn:
            want.append(f"REC[{B}]({cur})")
            names[f"REC[{B}]({cur})[7]"] = "';2'"
        if ret != "[" + ", ".join(want) + "]":
            bad.append(("records", ret, want))
        st = {e[1]: e[2] for e in r.effects if e[0] == "store" and e[1].endswith("[7]")}
        for k, sfx in names.items():
            if k not in st or not st[k].endswith("+" + sfx):
                bad.append(("name suffix", k, st.get(k), sfx))
    report.ob("C17.R2", "LinkedMatch.get_info_records", not bad and len(rows) >= 3, facts={"paths": len(rows), "problems": [str(x)[:300] for x in bad[:2]]},
              expected="5' row first with ';1', 3' row with ';2' computed on front_match.trimmed(read); ';2' stays ';2' when the 5' part is absent", loc=repo.loc(lf), cases=len(rows), why=str(bad[0])[:240] if bad else "")


def r3_frame(repo, report):
    # which record does the writer slice?
    c, fn = repo.need_method("InfoFileWriter", "__call__")
    ps = params(fn)
    I = ps[2]
    src_rec = [n for n in ast.walk(fn) if isinstance(n, ast.Assign) and isinstance(n.targets[0], ast.Name) and chain(n.value) == f"{I}.original_read"]
    uses_original = bool(src_rec)
    # does it compensate for a removed prefix?  (any use of cut_prefix / an offset attribute of info)
    compens = [src(n) for n in ast.walk(fn) if isinstance(n, ast.Attribute) and n.attr in ("cut_prefix", "offset", "prefix_length")]
    # pre-adapter modifiers (stage < 4 in the builder) that may remove a prefix
    m = builder_rules.model(repo, False)
    pre = set()
    for bi, ri, pos, val, s in m.slots("modifiers"):
        try:
            st, sd = builder_rules._mod_stage(s)
        except Unrecognised:
            continue
        if st < 4:
            for cname in builder_rules._inner_term_classes(s.key):
                if cname in repo.classes and repo.is_subclass(cname, "SingleEndModifier"):
                    pre.add(cname)
    report.floor("C17.R3", "pre-adapter modifier classes", len(pre), 3)
    rc_possible = any("ReverseComplementer(" in s_.key for _, _, _, _, s_ in m.slots("modifiers"))
    flips = any(isinstance(n, ast.If) and f"{I}.is_rc" in src(n.test) and any(isinstance(x, ast.Call) and isinstance(x.func, ast.Attribute) and x.func.attr == "reverse_complement" for x in ast.walk(n)) for n in ast.walk(fn)) or \
        any(isinstance(n, ast.IfExp) and f"{I}.is_rc" in src(n.test) for n in ast.walk(fn))
    for cname in sorted(pre):
        c2, call = repo.need_method(cname, "__call__")
        rp = params(call)[1]
        prefix = []
        for n in walk_no_nested(call):
            if isinstance(n, ast.Return) and isinstance(n.value, ast.Subscript) and chain(n.value.value) == rp and isinstance(n.value.slice, ast.Slice):
                lo = n.value.slice.lower
                if lo is not None and not (isinstance(lo, ast.Constant) and lo.value in (0, None)):
                    prefix.append(src(n.value))
        # under --revcomp the kept orientation may be the reverse complement: the writer reverse-complements
        # info.original_read, so a SUFFIX removed before matching becomes a prefix of the frame the coordinates refer to
        suffix = []
        for n in walk_no_nested(call):
            if isinstance(n, ast.Return) and isinstance(n.value, ast.Subscript) and chain(n.value.value) == rp and isinstance(n.value.slice, ast.Slice) and n.value.slice.upper is not None:
                suffix.append(src(n.value))
        if suffix and rc_possible:
            ok_s = not (uses_original and flips) or bool(compens)
            report.ob("C17.R3", f"{cname} removes a suffix before adapter matching under --revcomp", ok_s, facts={"suffix_removing_returns": suffix, "writer": "reverse-complements info.original_read when info.is_rc" if flips else "does not flip", "writer_compensation": compens},
                      expected="the info writer slices the record the match coordinates refer to", loc=repo.loc(call), fact_key="suffix-before-match-revcomp",
                      why="" if ok_s else f"{cname} returns {suffix[0]} before adapter trimming; with --revcomp and a read kept in reverse-complemented orientation the removed 3' piece is the START of the reverse-complemented original read to which InfoFileWriter applies the match coordinates (--revcomp -u -3 -a ADAPTER: columns 5-7 are shifted by 3)")
        if not prefix:
            report.ob("C17.R3", f"{cname} keeps the 5' end", True, facts={"returns": [src(n.value) for n in walk_no_nested(call) if isinstance(n, ast.Return) and n.value is not None]}, expected="no prefix removed before adapter matching", loc=repo.loc(call))
            continue
        ok = not uses_original or bool(compens)
        report.ob("C17.R3", f"{cname} removes a prefix before adapter matching", ok, facts={"prefix_removing_returns": prefix, "writer_slices": "info.original_read" if uses_original else "the processed read", "writer_compensation": compens},
                  expected="the info writer slices the record the match coordinates refer to", loc=repo.loc(call), fact_key="prefix-before-match",
                  why="" if ok else f"{cname} returns {prefix[0]} before adapter trimming, but InfoFileWriter applies the match coordinates to info.original_read (the read before any modification): columns 5-7 show the wrong bases")


def r3_paired_swap(repo, report):
    """Paired --revcomp exchanges R1 and R2.  The info writer slices info.original_read (reverse-complemented when
    info.is_rc): after a swap the record in slot 1 is the former R2, so info1.original_read must be exchanged too (or the
    writer must take the swap into account) - and nothing is reverse-complemented in a swap."""
    from . import c16

    c, fn = repo.need_method("PairedReverseComplementer", "__call__")
    ps = params(fn)
    env = {"self": Obj("self", nonnull=True), ps[1]: Obj("R1", nonnull=True), ps[2]: Obj("R2", nonnull=True), ps[3]: Obj("I1", nonnull=True), ps[4]: Obj("I2", nonnull=True)}
    rows = explore(repo, strip_docstring(fn.body), env, call_hook=c16._hook, inline=False, max_rows=40000)
    swapped = [r for r in rows if any(e[0] == "store" and e[1] == "I1.is_rc" and e[2] == "True" for e in r.effects)]
    exchanged = [r for r in swapped if any(e[0] == "store" and e[1] == "I1.original_read" for e in r.effects) and any(e[0] == "store" and e[1] == "I2.original_read" for e in r.effects)]
    c2, wf = repo.need_method("InfoFileWriter", "__call__")
    I = params(wf)[2]
    writer_uses_original = any(isinstance(n, ast.Attribute) and n.attr == "original_read" for n in ast.walk(wf))
    writer_flips = any(isinstance(x, ast.Call) and isinstance(x.func, ast.Attribute) and x.func.attr == "reverse_complement" for x in ast.walk(wf))
    ok = bool(swapped) and (len(exchanged) == len(swapped) or not writer_uses_original)
    report.ob("C17.R3", "PairedReverseComplementer swaps the reads but not info.original_read", ok,
              facts={"swapping_paths": len(swapped), "paths_that_exchange_original_read": len(exchanged), "writer_slices": "info.original_read" if writer_uses_original else "the processed read", "writer_reverse_complements_when_is_rc": writer_flips},
              expected="after a swap info1/info2.original_read are the swapped input records (and a swapped pair is not reverse-complemented by the writer)", loc=repo.loc(fn), fact_key="paired-swap-original-read", cases=len(swapped),
              why="" if ok else "the info rows of a swapped pair are cut from the reverse complement of the ORIGINAL R1 although the record in slot 1 is the former R2: -g ^AACC -G ^GGCC --revcomp on R1 GGCCTTTTTCCCCC / R2 AACCAAAAAGGGGG writes AAAAAGGGGG but the info row shows GGGG + GAAAAAGGCC")


def r4_names(repo, report):
    n = 0
    for cls in [repo.cls("SingleAdapter"), repo.cls("LinkedAdapter")]:
        if cls is None:
            continue
        init = cls.methods.get("__init__")
        if init is None:
            continue
        ps = params(init)
        if "name" not in ps:
            continue

        def hook(ex, node, env, cls=cls):
            if src(node.func) == "super().__init__":
                # Matchable.__init__(self, name, ...) stores its first argument in self.name (checked below)
                arg = node.args[0] if node.args else next((k.value for k in node.keywords if k.arg == "name"), None)
                if arg is not None:
                    v = ex.ev(arg, env)
                    env["self.name"] = v
                    ex.effect("store", "self.name", vkey(v), node)
                return Const(None)
            if chain(node.func) == "_generate_adapter_name":
                return Obj("GENERATED", nonnull=True)
            return None

        env = {"self": Obj("self", nonnull=True)}
        for p_ in ps[1:]:
            env[p_] = Obj(p_.upper())
        try:
            rows = explore(repo, strip_docstring(init.body), env, call_hook=hook, inline=False, max_rows=4000)
        except Unrecognised as u:
            report.unrecognised("C17.R4", f"{cls.name}.__init__", u.what, repo.loc(init))
            continue
        bad = []
        for r in rows:
            if r.exit[0] == "raise":
                continue
            final = [e[2] for e in r.effects if e[0] == "store" and e[1] == "self.name"]
            want = "GENERATED" if r.valuation.get("isnone:NAME") is True else "NAME" if r.valuation.get("isnone:NAME") is False else None
            if not final or want is None or str(final[-1]) != want:
                bad.append({"name_given": r.valuation.get("isnone:NAME") is False, "self.name_at_the_end": str(final[-1]) if final else None})
        n += 1
        report.ob("C17.R4", f"{cls.name}.__init__ leaves the adapter named", not bad, facts={"paths": len(rows), "problems": bad[:2]}, loc=repo.loc(init),
                  expected="self.name = _generate_adapter_name() if name is None else name, and nothing overwrites it afterwards",
                  why=(f"with name given={bad[0]['name_given']} the constructor ends with self.name = {bad[0]['self.name_at_the_end']}" if bad else ""))
    c, m_init = repo.method("Matchable", "__init__")
    ok = m_init is not None and any(isinstance(x, ast.Assign) and chain(x.targets[0]) == "self.name" and chain(x.value) == params(m_init)[1] for x in ast.walk(m_init))
    report.ob("C17.R4", "Matchable.__init__ stores its name argument", ok, facts={}, expected="self.name = name", loc=repo.loc(m_init) if m_init else "")
    report.floor("C17.R4", "adapter constructors with an optional name", n, 2)
