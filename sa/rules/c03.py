"""C03 - Output reads are aligned slices of the input; qualities stay in step."""
from __future__ import annotations

import ast
import re

from .. import constfold
from ..absint import Const, Obj, Tup, explore, vkey
from ..argtable import by_dest, option_table
from ..core import Unrecognised
from ..lin import Lin
from ..repo import chain, params, src, strip_docstring, walk_no_nested, calls, enclosing, qualname
from ..tables import Bool, Sign, check_table, SKIP


def run(repo, report, tier):
    report.rule("C03.R1", "in the whole package a record's .sequence / .qualities is only assigned on a private copy made in the same function (x = read[:]) at the designated mask / lowercase / zero-cap / case-normalisation sites",
                "a modifier changes bases or qualities of the read object it received: other holders of the same object (the untrimmed orientation under --revcomp, info.original_read) see the change, or sequence and qualities get out of step")
    report.rule("C03.R2", "the written strings keep the length and change only the documented positions: mask = N*start + seq[start:stop] + N*(len-stop); lowercase = seq[:start].lower() + seq[start:stop].upper() + seq[stop:].lower(); zero-cap uses a two-argument (1:1) translation table; (start, stop) = remainder(matches)",
                "masking / lower-casing changes the read length or touches bases inside the part that trim would keep")
    report.rule("C03.R4", "one interval, three encodings: for both match classes trimmed(), trim_slice() and remainder_interval() denote the same [lo, hi); removed_sequence_length = len - (hi - lo); retained_adapter_interval is the hull with [rstart, rstop); remainder() = (sum of starts, + length of the last); LinkedMatch composes front then back with the back coordinates shifted by front.rstop; crop = [rstart, rstop) of the last match",
                "retain / mask / lowercase / crop act on a different interval than trim; statistics report a different length than was removed")
    report.rule("C03.R5", "every --action value (none -> None) selects a branch in AdapterCutter.match_and_trim and in PairedAdapterCutter.__call__; non-trim branches call the same helper on the original read and the match list; None returns read[:]; the constructor's accepted set equals the option's choices; retain/crop exclude times > 1",
                "an action silently behaves like trim for some cutter (today: --pair-adapters --action=crop)")
    report.rule("C03.R6", "trimming modifiers slice the record object (so dnaio cuts sequence and qualities alike), never one of its strings; every modifier returns its input, a slice of it, or a copy with only the name changed",
                "sequence and qualities end up with different lengths")
    report.guard("C03.R1", "package sweep", r1_writers, repo, report)
    report.guard("C03.R2", "mask/lowercase/zero-cap", r2_strings, repo, report)
    report.guard("C03.R4", "match interval algebra", r4_intervals, repo, report)
    report.guard("C03.R5", "action dispatch", r5_actions, repo, report)
    report.guard("C03.R5", "match protocol of the action helpers", r5_match_protocol, repo, report)
    report.guard("C03.R6", "modifier returns", r6_returns, repo, report)
    report.guard("C03.R6", "empty reads", r6_empty_reads, repo, report)
    report.trust("dnaio.SequenceRecord.__getitem__(slice) slices sequence and qualities with the same slice and keeps the name (dnaio 1.2.4)")
    report.trust("str.lower/upper and str.translate with a table built by two-argument str.maketrans preserve the length")


RECORD_FIELDS = ("sequence", "qualities")


def r1_writers(repo, report):
    sites = []
    for m, q, fn in repo.all_functions():
        for n in walk_no_nested(fn):
            targets = []
            if isinstance(n, ast.Assign):
                targets = n.targets
            elif isinstance(n, (ast.AugAssign, ast.AnnAssign)):
                targets = [n.target]
            for t in targets:
                for tt in (t.elts if isinstance(t, (ast.Tuple, ast.List)) else [t]):
                    if isinstance(tt, ast.Attribute) and tt.attr in RECORD_FIELDS:
                        base = chain(tt.value)
                        if base == "self" or (base or "").startswith("self."):
                            continue  # the object's own field (adapter, match, statistics), not a read record
                        sites.append((m, q, fn, n, tt, base))
    report.saw(call_sites=len(sites))
    report.floor("C03.R1", "record field writes", len(sites), 5)
    for m, q, fn, n, tt, base in sites:
        value = n.value if isinstance(n, (ast.Assign, ast.AugAssign, ast.AnnAssign)) else None
        # (a case normalisation x.f = x.f.upper() is a write like any other: on the caller's record it changes
        #  info.original_read and, under paired --revcomp, the mate the cutter is tried on - it needs a private copy too)
        # (a) the base name's most recent assignment before the write is a full-slice copy
        copy_ok = False
        last = None
        if base and "." not in base:
            for s in walk_no_nested(fn):
                if isinstance(s, ast.Assign) and any(isinstance(x, ast.Name) and x.id == base for x in s.targets) and s.lineno < n.lineno:
                    if last is None or s.lineno > last.lineno:
                        last = s
            if last is not None:
                v = last.value
                copy_ok = isinstance(v, ast.Subscript) and isinstance(v.slice, ast.Slice) and v.slice.lower is None and v.slice.upper is None and v.slice.step is None
        report.ob("C03.R1", f"{q}: {src(tt)}", copy_ok and isinstance(n, ast.Assign), facts={"statement": src(n)[:160], "base_defined_by": src(last)[:100] if last is not None else None},
                  expected=f"{base} = <record>[:] (a private copy) before its {tt.attr} is assigned", loc=repo.loc(n, m),
                  why="" if copy_ok else f"{src(tt)} is assigned on an object that is not a private copy made in this function")


def _concat_parts(e):
    if isinstance(e, ast.BinOp) and isinstance(e.op, ast.Add):
        return _concat_parts(e.left) + _concat_parts(e.right)
    return [e]


def _lin_of(e, env):
    from ..absint import Executor

    ex = Executor(None, {}, inline=False)
    return ex.num(ex.ev(e, env), e)


def r2_strings(repo, report):
    c, masked = repo.need_method("AdapterCutter", "masked_read")
    c, lower = repo.need_method("AdapterCutter", "lowercased_read")
    for fn, kind in ((masked, "mask"), (lower, "lowercase")):
        ps = params(fn)
        R, M = ps[0], ps[1]
        # start, stop = remainder(matches)
        unp = [n for n in fn.body if isinstance(n, ast.Assign) and isinstance(n.targets[0], ast.Tuple) and isinstance(n.value, ast.Call) and chain(n.value.func) == "remainder"]
        ok_rem = len(unp) == 1 and [src(a) for a in unp[0].value.args] == [M] and len(unp[0].targets[0].elts) == 2
        report.ob("C03.R2", f"AdapterCutter.{fn.name}: interval", ok_rem, facts={"statement": src(unp[0]) if unp else None}, expected=f"start, stop = remainder({M})", loc=repo.loc(fn))
        if not ok_rem:
            continue
        S, E = [e.id for e in unp[0].targets[0].elts]
        env = {S: Obj("START"), E: Obj("STOP"), R: Obj("READ", nonnull=True)}
        wr = [n for n in fn.body if isinstance(n, ast.Assign) and isinstance(n.targets[0], ast.Attribute) and n.targets[0].attr == "sequence"]
        if len(wr) != 1:
            report.unrecognised("C03.R2", f"AdapterCutter.{fn.name}", "expected exactly one assignment to .sequence", repo.loc(fn))
            continue
        parts = _concat_parts(wr[0].value)
        L = Lin.atom("len(READ)")
        pos = Lin.k(0)
        problems = []
        described = []
        for p in parts:
            d = _describe_part(p, env, R)
            if d is None:
                problems.append(f"unrecognised piece {src(p)}")
                break
            kind_p, lo, hi, tr = d
            described.append((kind_p, (lo.key() if lo is not None else None), hi.key(), tr))
            if kind_p == "repeat":
                # "N" * k : occupies [pos, pos + k)
                lo2, hi2 = pos, pos + hi
                if tr != "N":
                    problems.append(f"repeated character {tr!r} is not 'N'")
            else:
                lo2, hi2 = lo, hi
                if lo2 != pos:
                    problems.append(f"piece {src(p)} starts at {lo2.key()} but the string so far has length {pos.key()}")
            # classify region
            region = "inside" if (lo2 == Lin.atom("START") and hi2 == Lin.atom("STOP")) else "before" if (lo2 == Lin.k(0) and hi2 == Lin.atom("START")) else "after" if (lo2 == Lin.atom("STOP") and hi2 == L) else None
            if region is None:
                problems.append(f"piece {src(p)} covers [{lo2.key()}, {hi2.key()}), which is none of [0,start) [start,stop) [stop,len)")
            else:
                want = {"mask": {"before": ("repeat", "N"), "inside": ("slice", None), "after": ("repeat", "N")},
                        "lowercase": {"before": ("slice", "lower"), "inside": ("slice", "upper"), "after": ("slice", "lower")}}[kind][region]
                if (kind_p, tr) != want:
                    problems.append(f"region {region}: found {kind_p}/{tr}, expected {want[0]}/{want[1]}")
            pos = hi2
        if not problems and pos != L:
            problems.append(f"total length is {pos.key()}, not len(read)")
        report.ob("C03.R2", f"AdapterCutter.{fn.name}: written string", not problems, facts={"pieces": described, "problems": problems}, expected={"mask": "N*start + seq[start:stop] + N*(len-stop)", "lowercase": "seq[:start].lower() + seq[start:stop].upper() + seq[stop:].lower()"}[kind],
                  loc=repo.loc(wr[0]), why="; ".join(problems))
        # result is a copy of the read and is what is returned
        rets = [n for n in fn.body if isinstance(n, ast.Return)]
        tgt = chain(wr[0].targets[0].value)
        report.ob("C03.R2", f"AdapterCutter.{fn.name}: returns the modified copy", len(rets) == 1 and chain(rets[0].value) == tgt, facts={"returns": src(rets[0].value) if rets else None}, expected=f"return {tgt}", loc=repo.loc(fn))
    # zero cap: two-argument maketrans
    c, zinit = repo.need_method("ZeroCapper", "__init__")
    mt = [x for x in calls(zinit) if chain(x.func) == "str.maketrans"]
    ok = len(mt) == 1 and len(mt[0].args) == 2 and not mt[0].keywords
    facts = {"maketrans": src(mt[0])[:120] if mt else None}
    if ok:
        # both arguments have the same length qb, and the replacement is chr(qb)
        a, b = mt[0].args
        try:
            zp = params(zinit)
            for qb in (33, 64):
                cenv = {zp[1]: qb}
                for st in zinit.body:  # locals that are plain functions of the base
                    if isinstance(st, ast.Assign) and isinstance(st.targets[0], ast.Name):
                        try:
                            cenv[st.targets[0].id] = constfold.fold(st.value, cenv)
                        except constfold.NotConstant:
                            pass
                av = constfold.fold(a, cenv)
                bv = constfold.fold(b, cenv)
                if len(av) != len(bv) or av != "".join(map(chr, range(qb))) or bv != chr(qb) * qb:
                    ok = False
                    facts[f"qb={qb}"] = (repr(av)[:40], repr(bv)[:40])
        except constfold.NotConstant as e:
            ok = None
            facts["error"] = str(e)
    report.ob("C03.R2", "ZeroCapper translation table", ok, facts=facts, expected="str.maketrans(all characters below the base, chr(base) repeated): a 1:1 map, length preserving", loc=repo.loc(zinit))
    c, zcall = repo.need_method("ZeroCapper", "__call__")
    wr = [n for n in ast.walk(zcall) if isinstance(n, ast.Assign) and isinstance(n.targets[0], ast.Attribute) and n.targets[0].attr == "qualities"]
    ok = len(wr) == 1 and isinstance(wr[0].value, ast.Call) and isinstance(wr[0].value.func, ast.Attribute) and wr[0].value.func.attr == "translate" and src(wr[0].value.func.value) == src(wr[0].targets[0]) and [src(a) for a in wr[0].value.args] == ["self.zero_cap_trans"]
    report.ob("C03.R2", "ZeroCapper.__call__", ok, facts={"statement": src(wr[0]) if wr else None}, expected="x.qualities = x.qualities.translate(self.zero_cap_trans)", loc=repo.loc(zcall))


def _describe_part(p, env, R):
    """('repeat', None, count, char) | ('slice', lo, hi, transform)"""
    L = Lin.atom("len(READ)")
    if isinstance(p, ast.BinOp) and isinstance(p.op, ast.Mult):
        c, k = (p.left, p.right) if isinstance(p.left, ast.Constant) else (p.right, p.left)
        if isinstance(c, ast.Constant) and isinstance(c.value, str) and len(c.value) == 1:
            return ("repeat", None, _lin_of(k, env), c.value)
        return None
    tr = None
    if isinstance(p, ast.Call) and isinstance(p.func, ast.Attribute) and p.func.attr in ("lower", "upper") and not p.args:
        tr = p.func.attr
        p = p.func.value
    if isinstance(p, ast.Subscript) and isinstance(p.slice, ast.Slice) and p.slice.step is None and chain(p.value) == f"{R}.sequence":
        lo = _lin_of(p.slice.lower, env) if p.slice.lower is not None else Lin.k(0)
        hi = _lin_of(p.slice.upper, env) if p.slice.upper is not None else L
        return ("slice", lo, hi, tr)
    return None


# ---------------------------------------------------------------------------
def _interval_of(expr, env, L, recname=None):
    """[lo, hi) denoted by read[a:b] / slice(a, b) / (a, b)."""
    if isinstance(expr, ast.Subscript) and isinstance(expr.slice, ast.Slice) and expr.slice.step is None:
        lo = _lin_of(expr.slice.lower, env) if expr.slice.lower is not None else Lin.k(0)
        hi = _lin_of(expr.slice.upper, env) if expr.slice.upper is not None else L
        return lo, hi
    if isinstance(expr, ast.Call) and chain(expr.func) == "slice" and len(expr.args) == 2:
        a, b = expr.args
        lo = Lin.k(0) if (isinstance(a, ast.Constant) and a.value is None) else _lin_of(a, env)
        hi = L if (isinstance(b, ast.Constant) and b.value is None) else _lin_of(b, env)
        return lo, hi
    if isinstance(expr, ast.Tuple) and len(expr.elts) == 2:
        return _lin_of(expr.elts[0], env), _lin_of(expr.elts[1], env)
    raise Unrecognised(f"cannot read an interval from {src(expr)}")


def _single_return(repo, cname, mname):
    c, f = repo.need_method(cname, mname)
    body = strip_docstring(f.body)
    rets = [s for s in body if isinstance(s, ast.Return)]
    if len(body) != 1 or len(rets) != 1:
        raise Unrecognised(f"{cname}.{mname} is not a single return statement", repo.loc(f))
    return f, rets[0].value


def _interval_paths(repo, cname, mname, slice_expr):
    """A remainder_interval that is not one return statement (e.g. derived from trim_slice() in a common base class):
    every returning path, as (valuation, (lo, hi)), with  x = self.trim_slice(); x.start / x.stop  replaced by the
    two arguments of that class's slice(...)."""
    import copy

    c, f = repo.need_method(cname, mname)
    body = copy.deepcopy(strip_docstring(f.body))
    bound = {n.targets[0].id for st in body for n in ast.walk(st) if isinstance(n, ast.Assign) and isinstance(n.targets[0], ast.Name) and src(n.value) == "self.trim_slice()"}
    if bound and not (isinstance(slice_expr, ast.Call) and chain(slice_expr.func) == "slice" and len(slice_expr.args) == 2):
        raise Unrecognised(f"{cname}.trim_slice does not return slice(a, b)", repo.loc(f))

    class T(ast.NodeTransformer):
        def visit_Attribute(self, n):
            self.generic_visit(n)
            if isinstance(n.value, ast.Name) and n.value.id in bound and n.attr in ("start", "stop"):
                return copy.deepcopy(slice_expr.args[0 if n.attr == "start" else 1])
            return n

    body = [T().visit(st) for st in body]
    body = [st for st in body if not (isinstance(st, ast.Assign) and src(st.value) == "self.trim_slice()")]
    for st in body:
        ast.fix_missing_locations(st)
    rows = explore(repo, body, {"self": Obj("self", nonnull=True)}, inline=False)
    out = []
    for r in rows:
        if r.valuation.get("sign:len(self.sequence)") == -1:
            continue
        if r.exit[0] != "return" or not (isinstance(r.exit[1], Tup) and len(r.exit[1].items) == 2):
            raise Unrecognised(f"{cname}.{mname}: a path does not return a pair", repo.loc(f))
        zero = {}
        for k, v in r.valuation.items():
            if k.startswith("truthy:self.") and v is False:
                zero[k[len("truthy:"):]] = Lin.k(0)
            if k == "sign:len(self.sequence)" and v == 0:
                zero["len(self.sequence)"] = Lin.k(0)
        pair = []
        for it in r.exit[1].items:
            if isinstance(it, Obj):
                it = Lin.atom(vkey(it))
            if not isinstance(it, Lin):
                raise Unrecognised(f"{cname}.{mname}: bound {vkey(it)} is not a number", repo.loc(f))
            pair.append(it)
        out.append((r.describe()["valuation"], zero, tuple(pair)))
    return f, out


def r4_intervals(repo, report):
    L = Lin.atom("len(self.sequence)")
    env = {"self": Obj("self", nonnull=True)}
    order = [Lin.k(0), Lin.atom("self.rstart"), Lin.atom("self.rstop"), L]  # 0 <= rstart <= rstop <= len (C01)

    def rank(x):
        for i, o in enumerate(order):
            if x == o:
                return i
        raise Unrecognised(f"interval bound {x.key()} is not one of 0, rstart, rstop, len")

    for cname in ("RemoveBeforeMatch", "RemoveAfterMatch"):
        cls = repo.cls(cname)
        report.saw(cls=cname, file=cls.module.relpath)
        try:
            f1, e1 = _single_return(repo, cname, "trimmed")
            f2, e2 = _single_return(repo, cname, "trim_slice")
            try:
                f3, e3 = _single_return(repo, cname, "remainder_interval")
                paths3 = None
            except Unrecognised:
                f3, paths3 = _interval_paths(repo, cname, "remainder_interval", e2)
            f4, e4 = _single_return(repo, cname, "removed_sequence_length")
            f5, e5 = _single_return(repo, cname, "retained_adapter_interval")
        except Unrecognised as u:
            report.unrecognised("C03.R4", cname, u.what, u.loc)
            continue
        rp = params(f1)[1]
        if not (isinstance(e1, ast.Subscript) and chain(e1.value) == rp):
            report.ob("C03.R4", f"{cname}.trimmed slices the record", False, facts={"returns": src(e1)}, expected=f"{rp}[a:b]", loc=repo.loc(f1))
            continue
        # trimmed() is applied to a read whose sequence is self.sequence, so len(read) == len(self.sequence)
        i1 = _interval_of(e1, env, L)
        i2 = _interval_of(e2, env, L)
        if paths3 is not None:
            # path by path: under what the path assumes (a bound that was tested falsy is 0) the pair is trimmed()'s interval
            wrong = [(val, [x.key() for x in pair]) for val, zero, pair in paths3 if tuple(x.subst(zero) for x in pair) != tuple(x.subst(zero) for x in i1)]
            report.ob("C03.R4", f"{cname}: trimmed / trim_slice / remainder_interval", i1 == i2 and not wrong and bool(paths3), facts={"trimmed": [x.key() for x in i1], "trim_slice": [x.key() for x in i2], "remainder_interval paths": len(paths3), "disagreeing": wrong[:2]},
                      expected="the same [lo, hi) on every path", loc=repo.loc(f3), cases=len(paths3),
                      why=(f"when {wrong[0][0]} remainder_interval() is {wrong[0][1]} but trimmed() keeps {[x.key() for x in i1]}: mask/lowercase leave bases untouched that trim removes" if wrong else ""))
            i3 = i1
            if wrong or i1 != i2:
                continue
        else:
            i3 = _interval_of(e3, env, L)
        same = i1 == i2 == i3
        if paths3 is None:
            report.ob("C03.R4", f"{cname}: trimmed / trim_slice / remainder_interval", same, facts={"trimmed": [x.key() for x in i1], "trim_slice": [x.key() for x in i2], "remainder_interval": [x.key() for x in i3]},
                      expected="the same [lo, hi)", loc=repo.loc(f1), why="" if same else "the three encodings of the kept interval disagree")
        removed = _lin_of(e4, env)
        want = L - (i3[1] - i3[0])
        report.ob("C03.R4", f"{cname}.removed_sequence_length", removed == want, facts={"returns": removed.key(), "len-(hi-lo)": want.key()}, expected="len(sequence) - (hi - lo)", loc=repo.loc(f4))
        ret = _interval_of(e5, env, L)
        lo = order[min(rank(i3[0]), rank(Lin.atom("self.rstart")))]
        hi = order[max(rank(i3[1]), rank(Lin.atom("self.rstop")))]
        report.ob("C03.R4", f"{cname}.retained_adapter_interval", ret == (lo, hi), facts={"returns": [x.key() for x in ret], "hull": [lo.key(), hi.key()]}, expected="hull of the kept interval and [rstart, rstop)", loc=repo.loc(f5))
    # remainder(): abstract execution on literal lists of 1..3 matches
    fn = repo.func("adapters", "remainder")
    ps = params(fn)
    for n in (1, 2, 3):
        items = [Obj(f"M{i}", nonnull=True) for i in range(1, n + 1)]

        def hook(ex, node, env):
            f = node.func
            if isinstance(f, ast.Attribute) and f.attr == "remainder_interval" and not node.args:
                k = vkey(ex.ev(f.value, env))
                return Tup([Lin.atom(f"{k}.lo"), Lin.atom(f"{k}.hi")])
            return None

        rows = explore(repo, strip_docstring(fn.body), {ps[0]: Tup(items, "list")}, call_hook=hook, inline=False)
        rets = [r for r in rows if r.exit[0] == "return"]
        start = Lin.k(0)
        for i in range(1, n + 1):
            start = start + Lin.atom(f"M{i}.lo")
        want = f"({start.key()}, {(start + Lin.atom(f'M{n}.hi') - Lin.atom(f'M{n}.lo')).key()})"
        got = sorted({vkey(r.exit[1]) for r in rets})
        report.saw(function="adapters.remainder", valuations=len(rows))
        report.ob("C03.R4", f"remainder() of {n} successive match(es)", got == [want], facts={"returns": got}, expected=want, loc=repo.loc(fn), cases=len(rows),
                  why="" if got == [want] else "the kept interval of successive rounds is not (sum of the starts, + length of the last remainder)")
    rows = explore(repo, strip_docstring(fn.body), {ps[0]: Tup([], "list")}, inline=False)
    report.ob("C03.R4", "remainder() of no match", all(r.exit[0] == "raise" for r in rows), facts={"exits": [r.exit[0] for r in rows]}, expected="raises", loc=repo.loc(fn))
    # LinkedMatch
    c, rai = repo.need_method("LinkedMatch", "retained_adapter_interval")
    rows = explore(repo, strip_docstring(rai.body), {"self": Obj("self", nonnull=True)}, inline=False)
    roles = {"f": Bool("truthy:self.front_match"), "b": Bool("truthy:self.back_match")}

    def exp(rv):
        if not rv["f"] and not rv["b"]:
            return SKIP  # excluded by the constructor's assertion
        lo = "self.front_match.rstart" if rv["f"] else "0"
        if rv["b"]:
            hi = "self.back_match.rstop+self.front_match.rstop" if rv["f"] else "self.back_match.rstop"
        else:
            hi = "len(self.front_match.sequence)"
        return f"({lo}, {hi})"

    def outcome(r):
        if r.exit[0] != "return":
            return r.exit[0]
        v = r.exit[1]
        if isinstance(v, Tup) and len(v.items) == 2:
            def norm(x):
                if isinstance(x, Lin):
                    return "+".join(sorted(a for a in x.terms)) if not x.is_const() and all(c == 1 for c in x.terms.values()) and x.const == 0 else x.key()
                return vkey(x)
            return f"({norm(v.items[0])}, {norm(v.items[1])})"
        return vkey(v)

    def exp_norm(rv):
        e = exp(rv)
        if e is SKIP:
            return e
        lo, hi = e[1:-1].split(", ")
        hi = "+".join(sorted(hi.split("+")))
        return f"({lo}, {hi})"

    mism, n, _ = check_table(rows, roles, exp_norm, outcome)
    report.ob("C03.R4", "LinkedMatch.retained_adapter_interval", not mism, facts={"mismatches": mism}, expected="(front.rstart or 0, back.rstop shifted by front.rstop, or the end of the read)", loc=repo.loc(rai), cases=n,
              why=(f"{mism[0]['inputs']}: code {mism[0]['code']}, expected {mism[0]['expected']}" if mism else ""))
    c, tr = repo.need_method("LinkedMatch", "trimmed")
    rp = params(tr)[1]
    rows = explore(repo, strip_docstring(tr.body), {"self": Obj("self", nonnull=True), rp: Obj("READ", nonnull=True)}, inline=False)

    def exp_t(rv):
        x = "READ"
        if rv["f"]:
            x = f"self.front_match.trimmed({x})"
        if rv["b"]:
            x = f"self.back_match.trimmed({x})"
        return x

    mism, n, _ = check_table(rows, roles, exp_t, lambda r: vkey(r.exit[1]) if r.exit[0] == "return" else r.exit[0])
    report.ob("C03.R4", "LinkedMatch.trimmed", not mism, facts={"mismatches": mism}, expected="front first, then back on the result", loc=repo.loc(tr), cases=n)
    c, ri = repo.need_method("LinkedMatch", "remainder_interval")
    calls_rem = [x for x in calls(ri) if chain(x.func) == "remainder"]
    lst = [n for n in ast.walk(ri) if isinstance(n, ast.ListComp)]
    ok = len(calls_rem) == 1 and len(lst) == 1 and src(lst[0].generators[0].iter) in ("[self.front_match, self.back_match]", "(self.front_match, self.back_match)") and "is not None" in src(lst[0].generators[0].ifs[0])
    report.ob("C03.R4", "LinkedMatch.remainder_interval", ok, facts={"list": src(lst[0]) if lst else None}, expected="remainder([front_match, back_match] without None), front first", loc=repo.loc(ri))
    # crop / retain helpers
    c, cr = repo.need_method("AdapterCutter", "cropped_read")
    cp = params(cr)
    rows = explore(repo, strip_docstring(cr.body), {cp[0]: Obj("READ", nonnull=True), cp[1]: Obj("MATCHES", nonnull=True)}, inline=False)
    got = sorted({vkey(r.exit[1]) for r in rows if r.exit[0] == "return"})
    report.ob("C03.R4", "AdapterCutter.cropped_read", got == ["READ[MATCHES[-1].rstart:MATCHES[-1].rstop]"], facts={"returns": got}, expected="read[m.rstart:m.rstop] for the last match", loc=repo.loc(cr))
    c, rt = repo.need_method("AdapterCutter", "trim_but_retain_adapter")
    tp = params(rt)
    rows = explore(repo, strip_docstring(rt.body), {tp[0]: Obj("READ", nonnull=True), tp[1]: Obj("MATCHES", nonnull=True)}, inline=False)
    got = sorted({vkey(r.exit[1]) for r in rows if r.exit[0] == "return"})
    want = "READ[MATCHES[-1].retained_adapter_interval()[0]:MATCHES[-1].retained_adapter_interval()[1]]"
    report.ob("C03.R4", "AdapterCutter.trim_but_retain_adapter", got == [want], facts={"returns": got}, expected=want, loc=repo.loc(rt))


# ---------------------------------------------------------------------------
def action_domain(repo):
    opts = by_dest(option_table(repo))
    acts = opts.get("action")
    if not acts:
        raise Unrecognised("--action option not found")
    dom = set()
    for o in acts:
        if o.choices:
            dom |= set(o.choices)
        if o.action == "store_const" and o.const is not None:
            dom.add(o.const)
    if not dom:
        raise Unrecognised("--action has no choices")
    return sorted(dom)


def r5_actions(repo, report):
    dom = action_domain(repo)
    # none -> None in the builder
    fn = repo.func("cli", "make_pipeline_from_args")
    conv = [n for n in ast.walk(fn) if isinstance(n, ast.Assign) and chain(n.targets[0]) == "action"]
    ok = len(conv) == 1 and src(conv[0].value) in ("None if args.action == 'none' else args.action",)
    report.ob("C03.R5", "builder maps 'none' to None", ok, facts={"statement": src(conv[0]) if conv else None, "choices": dom}, expected="action = None if args.action == 'none' else args.action", loc=repo.loc(conv[0]) if conv else repo.loc(fn))
    values = [None if a == "none" else a for a in dom]
    report.floor("C03.R5", "--action values", len(values), 6)
    # AdapterCutter.match_and_trim
    c, mt = repo.need_method("AdapterCutter", "match_and_trim")
    ps = params(mt)

    def hook(ex, node, env):
        f = node.func
        if isinstance(f, ast.Attribute) and f.attr == "match_to":
            return Obj("MATCH")
        return None

    helper = {"retain": "trim_but_retain_adapter", "mask": "masked_read", "lowercase": "lowercased_read", "crop": "cropped_read"}
    results = {}
    for a in values:
        env = {"self": Obj("self", nonnull=True), ps[1]: Obj("READ", nonnull=True), "self.action": Const(a), "self.times": Lin.k(1)}
        rows = explore(repo, strip_docstring(mt.body), env, call_hook=hook, inline=False)
        hit = [r for r in rows if r.valuation.get("isnone:MATCH") is False]
        outs = sorted({vkey(r.exit[1]) for r in hit if r.exit[0] == "return"})
        results[str(a)] = outs
        if a == "trim":
            want = "(MATCH.trimmed(READ), [MATCH])"
        elif a is None:
            want = "(READ[:], [MATCH])"
        elif a in helper:
            want = f"(self.{helper[a]}(READ, [MATCH]), [MATCH])"
        else:
            report.unrecognised("C03.R5", f"AdapterCutter.match_and_trim action={a!r}", "the option offers an action that the property does not describe", repo.loc(mt))
            continue
        ups1 = sorted({f"{e[1]} = {str(e[2])[:50]}" for r in rows for e in r.effects if e[0] == "store" and str(e[1]).endswith(".sequence") and ".upper()" in str(e[2])})
        report.ob("C03.R5", f"AdapterCutter.match_and_trim action={a!r}: case is normalised only for 'lowercase'", (not ups1) or a == "lowercase", facts={"upper_casing_stores": ups1}, loc=repo.loc(mt),
                  expected="read.sequence.upper() only on the way to the lowercase action",
                  why=(f"with action {a!r} the read is upper-cased ({ups1[0]})" if ups1 and a != "lowercase" else ""))
        # a private copy of the read (READ[:]) handed to the helper is as good as the read itself
        norm = [o.replace("(READ[:], [MATCH])", "(READ, [MATCH])") if a in helper else o for o in outs]
        report.ob("C03.R5", f"AdapterCutter.match_and_trim action={a!r}", norm == [want], facts={"returns": outs}, expected=want, loc=repo.loc(mt), fact_key=f"action={a}",
                  why="" if norm == [want] else f"action {a!r} does not reach its own branch (it returns {outs})")
        miss = [r for r in rows if r.valuation.get("isnone:MATCH") is True]
        outs_m = sorted({vkey(r.exit[1]) for r in miss if r.exit[0] == "return"})
        report.ob("C03.R5", f"AdapterCutter.match_and_trim action={a!r} without match", outs_m in (["(READ, [])"], ["(READ[:], [])"]), facts={"returns": outs_m}, expected="(READ, []) (or a copy of it)", loc=repo.loc(mt))
    # constructor accepts exactly the domain
    c, init = repo.need_method("AdapterCutter", "__init__")
    asserts = [n for n in ast.walk(init) if isinstance(n, ast.Assert) and isinstance(n.test, ast.Compare) and chain(n.test.left) == "action"]
    acc = None
    if asserts:
        try:
            acc = constfold.fold(asserts[0].test.comparators[0])
        except constfold.NotConstant:
            acc = None
    ok = acc is not None and set(acc) == set(values)
    report.ob("C03.R5", "AdapterCutter.__init__ accepted actions", ok, facts={"accepted": [str(x) for x in acc] if acc else None, "option": [str(v) for v in values]}, expected="assert action in (<the option's choices with none -> None>)", loc=repo.loc(init))
    rc = [n for n in ast.walk(init) if isinstance(n, ast.If) and any(isinstance(x, ast.Raise) for x in n.body) and "times" in src(n.test)]
    ok = False
    if rc:
        rows = explore(repo, [rc[0]], {"action": Obj("ACTION"), "times": Obj("TIMES")}, inline=False)
        ok = True
        for r in rows:
            many = r.valuation.get("sign:TIMES-1")
            if many is None:
                continue
        tst = src(rc[0].test)
        ok = "'retain'" in tst and "'crop'" in tst and "times > 1" in tst
    report.ob("C03.R5", "retain/crop exclude times > 1", ok, facts={"guard": src(rc[0].test) if rc else None}, expected="action in {'retain', 'crop'} and times > 1 raises", loc=repo.loc(init))
    # PairedAdapterCutter.__call__
    c, pc = repo.need_method("PairedAdapterCutter", "__call__")
    pp = params(pc)

    def hook2(ex, node, env):
        if chain(node.func) == "self._find_best_match_pair":
            return Tup([Obj("M1", nonnull=True), Obj("M2", nonnull=True)])
        return None

    for a in values:
        env = {"self": Obj("self", nonnull=True), pp[1]: Obj("R1", nonnull=True), pp[2]: Obj("R2", nonnull=True), pp[3]: Obj("I1", nonnull=True), pp[4]: Obj("I2", nonnull=True), "self.action": Const(a)}
        rows = explore(repo, strip_docstring(pc.body), env, call_hook=hook2, inline=False)
        outs = sorted({vkey(r.exit[1]) for r in rows if r.exit[0] == "return"})

        def w(read, m):
            if a == "trim":
                return f"{m}.trimmed({read})"
            if a is None:
                return f"{read}[:]"
            return f"AdapterCutter.{helper[a]}({read}, [{m}])"

        if a not in ("trim", None) and a not in helper:
            continue
        want = f"[{w('R1', 'M1')}, {w('R2', 'M2')}]"
        ups = sorted({f"{e[1]} = {str(e[2])[:50]}" for r in rows for e in r.effects if e[0] == "store" and str(e[1]).endswith(".sequence") and ".upper()" in str(e[2])})
        report.ob("C03.R5", f"PairedAdapterCutter.__call__ action={a!r}: case is normalised only for 'lowercase'", (not ups) or a == "lowercase", facts={"upper_casing_stores": ups}, loc=repo.loc(pc),
                  expected="read.sequence.upper() only on the way to the lowercase action",
                  why=(f"with action {a!r} the read is upper-cased ({ups[0]}): lower-case bases in the part that is kept are changed although only mask/lowercase may change bases, and mask only to N" if ups and a != "lowercase" else ""))
        normp = [re.sub(r"\((R[12])\[:\], \[", r"(\1, [", o) if a in helper else o for o in outs]  # a private copy handed to the helper is as good as the read
        report.ob("C03.R5", f"PairedAdapterCutter.__call__ action={a!r}", normp == [want], facts={"returns": outs}, expected=want, loc=repo.loc(pc), fact_key=f"action={a}",
                  why="" if normp == [want] else f"with --pair-adapters, action {a!r} returns {outs}")


def r6_returns(repo, report):
    mods = [c for c in repo.subclasses("SingleEndModifier")]
    report.floor("C03.R6", "single-end modifier classes", len(mods), 13)
    for cls in mods:
        c, fn = repo.method(cls.name, "__call__")
        if fn is None:
            continue
        ps = params(fn)
        rec = ps[1]
        bad = []
        shapes = []
        rets = [n for n in walk_no_nested(fn) if isinstance(n, ast.Return)]
        # names assigned from rec[...] / rec itself / helper results are "records"
        for r in rets:
            v = r.value
            if v is None:
                continue
            s = src(v)
            shapes.append(s)
            for sub in ast.walk(v):
                if isinstance(sub, ast.Subscript) and isinstance(sub.value, ast.Attribute) and sub.value.attr in RECORD_FIELDS:
                    bad.append(f"returns a slice of one string: {s}")
            if isinstance(v, ast.Subscript):
                if chain(v.value) != rec:
                    bad.append(f"slices {src(v.value)}, not the record parameter")
        # a __call__ without any return statement on some path returns None (the read would be lost)
        report.saw(cls=cls.name, function=f"{cls.name}.__call__")
        report.ob("C03.R6", f"{cls.name}.__call__ returns", not bad, facts={"returns": shapes, "problems": bad}, expected="the record, record[a:b], or a copy of it", loc=repo.loc(fn), why="; ".join(bad))
    # frozen dnaio fact users: the six slicing modifiers slice with two bounds derived from one computation
    for cname in ("QualityTrimmer", "NextseqQualityTrimmer", "PolyATrimmer", "UnconditionalCutter", "Shortener", "NEndTrimmer"):
        if cname not in repo.classes:
            report.unrecognised("C03.R6", cname, "slicing modifier class not found")


_FIXTURE_EMPTY = """
class Bad:
    def __call__(self, read, info):
        s = read.sequence
        if s[0] != "N" and s[-1] != "N":
            return read
        return read[1:]

class Good:
    def __call__(self, read, info):
        s = read.sequence
        if s and s[0] != "N":
            return read
        if not read.qualities:
            return read
        return read[: ord(read.qualities[0])]
"""


def unguarded_constant_index(fn):
    """Subscripts  x[k]  (k an integer constant) of the sequence / qualities string of a record parameter - or of a local
    alias of it - that no enclosing or preceding test on that string protects: on an empty read they raise IndexError."""
    ps = [a.arg for a in fn.args.args][1:]
    strings = {f"{p_}.{a_}" for p_ in ps for a_ in ("sequence", "qualities")}
    alias = {}
    for n in ast.walk(fn):
        if isinstance(n, ast.Assign) and len(n.targets) == 1 and isinstance(n.targets[0], ast.Name) and chain(n.value) in strings:
            alias[n.targets[0].id] = chain(n.value)
    out = []

    def base_of(sub):
        b = chain(sub.value)
        if b in strings:
            return b
        if isinstance(sub.value, ast.Name) and sub.value.id in alias:
            return sub.value.id
        return None

    def is_const_index(sl):
        return (isinstance(sl, ast.Constant) and isinstance(sl.value, int)) or (isinstance(sl, ast.UnaryOp) and isinstance(sl.operand, ast.Constant) and isinstance(sl.operand.value, int))

    def tests_base(test, base, skip):
        """does the test look at the string itself (truthiness / len / comparison), other than through the subscript `skip`?"""
        names = {base} | ({alias[base]} if base in alias else set()) | {k for k, v in alias.items() if v == base or v == alias.get(base)}
        for x in ast.walk(test):
            if x is skip:
                continue
            if isinstance(x, (ast.Name, ast.Attribute)) and chain(x) in names:
                par = getattr(x, "_parent", None)
                if isinstance(par, ast.Subscript) and par.value is x and is_const_index(par.slice):
                    continue
                return True
        return False

    for sub in ast.walk(fn):
        if not (isinstance(sub, ast.Subscript) and is_const_index(sub.slice)):
            continue
        base = base_of(sub)
        if base is None:
            continue
        guarded = False
        node = sub
        while node is not fn and node is not None and not guarded:
            parent = getattr(node, "_parent", None)
            if parent is None:
                break
            if isinstance(parent, ast.BoolOp) and isinstance(parent.op, ast.And):
                idx = parent.values.index(node) if node in parent.values else 0
                guarded = any(tests_base(v, base, sub) for v in parent.values[:idx])
            elif isinstance(parent, (ast.If, ast.IfExp, ast.While)) and node is not parent.test:
                guarded = tests_base(parent.test, base, sub)
            if not guarded:
                for field in ("body", "orelse", "finalbody"):
                    blk = getattr(parent, field, None)
                    if isinstance(blk, list) and node in blk:
                        for st in blk[:blk.index(node)]:
                            if isinstance(st, ast.If) and st.body and isinstance(st.body[-1], (ast.Return, ast.Raise, ast.Continue, ast.Break)) and tests_base(st.test, base, sub):
                                guarded = True
            node = parent
        if not guarded:
            out.append(f"{src(sub)} (line {sub.lineno})")
    return out


def r6_empty_reads(repo, report):
    # the detector itself must see the embedded positive example on every run (the expected count on the tree is zero)
    fx = ast.parse(_FIXTURE_EMPTY)
    for n in ast.walk(fx):
        for ch_ in ast.iter_child_nodes(n):
            ch_._parent = n
    got = {c.name: unguarded_constant_index(c.body[0]) for c in fx.body if isinstance(c, ast.ClassDef)}
    report.ob("C03.R6", "detector self-check: unguarded constant index", len(got.get("Bad", [])) == 2 and got.get("Good") == [], facts={k: v for k, v in got.items()}, expected="2 findings in the bad fixture, none in the good one", loc="sa/rules/c03.py")
    n = 0
    for base in ("SingleEndModifier", "PairedEndModifier"):
        for cls in repo.subclasses(base):
            fn = cls.methods.get("__call__")
            if fn is None:
                continue
            n += 1
            bad = unguarded_constant_index(fn)
            if bad:
                report.ob("C03.R6", f"{cls.name}.__call__ accepts the empty read", False, facts={"unguarded": bad}, expected="no read.sequence[k] / read.qualities[k] without a test that the string is non-empty", loc=repo.loc(fn),
                          why=f"{bad[0]} raises IndexError on an empty read (a read may be empty in the input or become empty through an earlier modifier); the run aborts instead of passing the read on")
    report.ob("C03.R6", "modifiers accept the empty read", True, facts={"modifier_call_methods_checked": n}, expected="no unguarded constant index into the read's strings", loc="src/cutadapt/modifiers.py", cases=n)
    report.floor("C03.R6", "modifier __call__ methods checked for empty reads", n, 15)


def r5_match_protocol(repo, report):
    """The action helpers of AdapterCutter get the list of matches of a read; an element may be of ANY match class
    (single 5'/3' matches and linked matches).  Every attribute or method a helper uses on a match must exist on every
    concrete match class, otherwise that action crashes for that kind of adapter."""
    helpers = ("trim_but_retain_adapter", "masked_read", "lowercased_read", "cropped_read")
    concrete = [c for c in repo.subclasses("Match") if not any(isinstance(d, ast.Name) and d.id == "abstractmethod" for m_ in c.methods.values() for d in m_.decorator_list) and c.name != "SingleMatch"]

    def provides(cls, attr):
        for k in repo.mro(cls.name):
            if attr in k.methods or attr in k.class_attrs:
                return True
            init = k.methods.get("__init__")
            if init is not None and any(isinstance(n, (ast.Assign, ast.AnnAssign)) and any(chain(t) == f"self.{attr}" for t in (n.targets if isinstance(n, ast.Assign) else [n.target])) for n in ast.walk(init)):
                return True
        return False

    # Documented as unsupported (doc/guide.rst, "Linked adapters do not work in combination with --info-file,
    # --action=mask and --action=crop"): the run stops with an exception and nothing is written, so no clause of C03
    # (which speaks about what IS written) is broken.  One named pair, nothing wider.
    unsupported = {("cropped_read", "LinkedMatch"): "documented: linked adapters do not work with --action=crop; the run aborts, no record is written"}
    n = 0
    for h in helpers:
        c, fn = repo.method("AdapterCutter", h)
        if fn is None:
            continue
        ps = params(fn)
        mlist = ps[-1]
        # names bound to an element of the list
        elems = {n_.targets[0].id for n_ in ast.walk(fn) if isinstance(n_, ast.Assign) and isinstance(n_.targets[0], ast.Name) and isinstance(n_.value, ast.Subscript) and chain(n_.value.value) == mlist}
        used = set()
        for x in ast.walk(fn):
            if isinstance(x, ast.Attribute):
                base = x.value
                if (isinstance(base, ast.Name) and base.id in elems) or (isinstance(base, ast.Subscript) and chain(base.value) == mlist):
                    used.add(x.attr)
        # helpers that go through remainder(matches) use remainder_interval of each element
        if any(isinstance(x, ast.Call) and chain(x.func) == "remainder" for x in ast.walk(fn)):
            used.add("remainder_interval")
        # a helper does what its action says or fails: it does not catch the failure and do something else instead
        swallow = [src(h_.type) if h_.type is not None else "bare except" for t_ in ast.walk(fn) if isinstance(t_, ast.Try) for h_ in t_.handlers
                   if h_.type is None or any(nm in src(h_.type) for nm in ("AttributeError", "Exception", "TypeError"))]
        report.ob("C03.R5", f"AdapterCutter.{h} does not fall back to another result", not swallow, facts={"handlers": swallow}, loc=repo.loc(fn),
                  expected="no handler for AttributeError/Exception around the use of the match",
                  why=(f"{h} catches {swallow[0]} and returns something else: for a match class without the attributes it needs (a linked match) the action silently becomes another one (e.g. crop behaves like trim) instead of failing" if swallow else ""))
        for cls in concrete:
            n += 1
            missing = sorted(a for a in used if not provides(cls, a))
            if missing and (h, cls.name) in unsupported:
                report.ob("C03.R5", f"AdapterCutter.{h} works for {cls.name}", True, facts={"uses": sorted(used), "missing_on_class": missing, "exception": unsupported[(h, cls.name)]},
                          expected="documented unsupported combination", loc=repo.loc(fn))
                continue
            report.ob("C03.R5", f"AdapterCutter.{h} works for {cls.name}", not missing, facts={"uses": sorted(used), "missing_on_class": missing},
                      expected="every attribute the helper reads is provided by every concrete match class", loc=repo.loc(fn), fact_key="match-protocol" if missing else None,
                      why=(f"{h} reads .{missing[0]} of the match, which {cls.name} does not have: the action crashes with AttributeError for that kind of adapter" if missing else ""))
    report.floor("C03.R5", "action helper x match class", n, 9)
