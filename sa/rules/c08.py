"""C08 - An adapter index changes only speed, never what is found (the decision structure of the index)."""
from __future__ import annotations

import ast

from ..absint import Const, Executor, NeedAtom, Obj, Tup, explore, vkey
from ..core import Unrecognised
from ..lin import Lin
from ..repo import chain, params, src, strip_docstring, calls
from ..tables import Bool, Sign, check_table, SKIP
from ..localroles import rename, name_of, unique, calls_to, assigned_names


def run(repo, report, tier):
    report.rule("C08.R1", "coordinates inside the read: the multi-length matcher only looks up a length that is at most len(sequence) (and never skips a length that is); the match constructors use [0, length) resp. [len - length, len) and the whole adapter",
                "a read shorter than an indexed string gets a match with negative / out-of-range coordinates (today: -a TTACTAGGGC$ -a AACTACG$ on AACTACG), or a read consisting of exactly one adapter is not trimmed")
    report.rule("C08.R2", "ambiguity bookkeeping: after inserting (s, adapter) the string s is marked ambiguous iff the best number of matches for s is attained by two adapters - a strictly better entry clears an earlier tie; both index builders (edit / Hamming) behave alike",
                "a read carrying an exact copy of a barcode stays unassigned because two worse candidates tied before (order dependence)")
    report.rule("C08.R3", "best-of over lengths: replace iff more matches, or equal matches and fewer errors; stop early only when length < best_m; a lookup miss (also on the N path) continues with the next length; lengths are tried longest first",
                "a shorter adapter is not found because a longer affix missed, or the worse of two candidates is reported")
    report.rule("C08.R4", "eligibility and k: an adapter is indexable iff it is of the right anchored class, without wildcards, with k = int(len * rate) <= 3; each adapter's neighbourhood is enumerated with ITS OWN k; indels <-> edit environment, no indels <-> Hamming spheres 0..k",
                "an adapter is matched through the index with more errors than it tolerates")
    report.rule("C08.R5", "N fallback: an affix containing N never takes the dictionary verdict directly; it is re-aligned with the candidate adapter", "N bases in the read are counted as matches")
    report.guard("C08.R1", "AdapterIndex coordinates", r1_coordinates, repo, report)
    report.guard("C08.R2", "AdapterIndex._make_index", r2_ambiguity, repo, report)
    report.guard("C08.R3", "AdapterIndex._match_to_multiple_lengths", r3_bestof, repo, report)
    report.guard("C08.R4", "AdapterIndex eligibility", r4_eligibility, repo, report)
    report.guard("C08.R4", "regrouping", r4_regroup, repo, report)
    report.guard("C08.R5", "N fallback", r5_nfallback, repo, report)
    report.rule("C08.R6", "a match built by the index carries the alignment score the one-by-one search gives the same occurrence (match +1, mismatch -1, indel -2), not the bare number of matches: downstream comparisons (best adapter among indexed and other adapters, --revcomp) are made on that field",
                "the adapter that wins, or the orientation --revcomp keeps, differs with and without --no-index")
    report.guard("C08.R6", "score of indexed matches", r6_score_units, repo, report)
    report.notes.append("Not decided: completeness of the neighbourhood enumerators (C-level DP), the 'exactly one adapter within tolerance' clause (about concrete strings).")


class WrongMatchArguments(Unrecognised):
    pass


def _compiled_patterns(repo):
    """module-level  NAME = re.compile("<pattern>")  of adapters.py"""
    m = repo.modules["adapters"]
    out = {}
    for n in m.tree.body:
        if isinstance(n, ast.Assign) and isinstance(n.targets[0], ast.Name) and isinstance(n.value, ast.Call) and chain(n.value.func) == "re.compile" and n.value.args and isinstance(n.value.args[0], ast.Constant):
            out[n.targets[0].id] = n.value.args[0].value
    return out


def _foreign_hook(repo):
    """Both spellings of "the affix has a character the index cannot contain" / "the affix with such characters replaced":
    'N' in affix  and  affix.replace('N', 'A')  on one side, PATTERN.search(affix) and PATTERN.sub('A', affix) on the other.
    The calls are rendered alike (FOREIGN(x) / PLAIN(x)); which characters the spelling covers is decided by the
    trigger obligation of C08.R5."""
    pats = _compiled_patterns(repo)

    def hk(ex, node, env):
        f = node.func
        if isinstance(f, ast.Attribute) and isinstance(f.value, ast.Name) and f.value.id in pats:
            if f.attr == "search" and len(node.args) == 1:
                return Obj(f"FOREIGN({vkey(ex.ev(node.args[0], env))})")
            if f.attr == "sub" and len(node.args) == 2:
                return Obj(f"PLAIN({vkey(ex.ev(node.args[1], env))})", nonnull=True)
        if isinstance(f, ast.Attribute) and f.attr == "replace" and len(node.args) == 2 and all(isinstance(a, ast.Constant) for a in node.args):
            return Obj(f"PLAIN({vkey(ex.ev(f.value, env))})", nonnull=True)
        return None

    return hk


def _has_foreign(r, affix):
    v = r.valuation.get(f"in:'N':{affix}")
    return v if v is not None else r.valuation.get(f"truthy:FOREIGN({affix})")


def _score_helpers(repo):
    """methods of AdapterIndex that convert (adapter, length, matches, errors) of an entry into the score of the match
    (C08.R6 decides what they compute; for the coordinate and selection rules they are transparent)"""
    from ..repo import expand

    out = set()
    cls = repo.cls("AdapterIndex")
    for fn in cls.methods.values():
        for call in calls_to(fn, "self._make_match"):
            if len(call.args) == 5:
                e = expand(fn, call.args[2])
                if isinstance(e, ast.Call) and isinstance(e.func, ast.Attribute) and chain(e.func.value) == "self" and e.func.attr in cls.methods and len(e.args) == 4:
                    out.add(e.func.attr)
    return out


def _ml_rows(repo):
    """decision tree of one iteration of the loop over lengths in _match_to_multiple_lengths"""
    c, fn0 = repo.need_method("AdapterIndex", "_match_to_multiple_lengths")
    # locals by role: the best-so-far record is what is handed to _make_match(adapter, length, matches, errors, read);
    # the affix is what _make_affix cuts from
    mm = unique(calls_to(fn0, "self._make_match"), "_match_to_multiple_lengths: call of self._make_match", repo.loc(fn0))
    if len(mm.args) != 5:
        raise Unrecognised("_match_to_multiple_lengths: self._make_match is not called with five positional arguments", repo.loc(mm))
    from ..repo import expand as _expand

    margs = list(mm.args)
    sc_ = _expand(fn0, margs[2])
    if isinstance(sc_, ast.Call) and isinstance(sc_.func, ast.Attribute) and sc_.func.attr in _score_helpers(repo) and len(sc_.args) == 4:
        margs[2] = sc_.args[2]  # the recorded number of matches the score is converted from
    mm = ast.Call(func=mm.func, args=margs, keywords=[])
    ast.copy_location(mm, margs[0])
    if not all(isinstance(a, ast.Name) for a in mm.args[:4]):
        # the match must be built from the recorded best candidate (adapter, length, matches, errors): a derived
        # expression in one of these places (e.g. len(adapter) for the length) is a wrong fact, not an unknown shape
        raise WrongMatchArguments(f"_make_match is called with {[src(a) for a in mm.args[:4]]}: the match is not built from the recorded (adapter, length, matches, errors) of the best candidate", repo.loc(mm))
    best = [name_of(a, "best-so-far argument of _make_match", repo.loc(mm)) for a in mm.args[:4]]
    aff = unique([name_of(x.args[0], "first argument of _make_affix", repo.loc(x)) for x in calls_to(fn0, "self._make_affix") if x.args], "_match_to_multiple_lengths: affix variable", repo.loc(fn0))
    fn = rename(fn0, dict(zip(best, ("best_adapter", "best_length", "best_m", "best_e")), **{aff: "affix"}))
    ps = params(fn)
    loops = [s for s in strip_docstring(fn.body) if isinstance(s, ast.For)]
    if len(loops) != 1 or src(loops[0].iter) != "self._lengths":
        raise Unrecognised("_match_to_multiple_lengths: loop over self._lengths not found", repo.loc(fn))
    lp = loops[0]
    env = {"self": Obj("self", nonnull=True), ps[1]: Obj("SEQ", nonnull=True), lp.target.id: Lin.atom("LENGTH"),
           "affix": Obj("AFFIX", nonnull=True), "best_adapter": Obj("BEST_ADAPTER"), "best_length": Lin.atom("BEST_LENGTH"), "best_m": Lin.atom("BEST_M"), "best_e": Lin.atom("BEST_E")}

    def hook(ex, node, env):
        cn = chain(node.func)
        if cn == "self._make_affix":
            ex.calls.append((f"make_affix({vkey(ex.ev(node.args[0], env))}, {vkey(ex.ev(node.args[1], env))})", node, "make_affix"))
            return Obj("AFFIX2", nonnull=True)
        if cn == "self._lookup_with_n":
            ex.calls.append((f"lookup_with_n({vkey(ex.ev(node.args[0], env))})", node, "lookup_with_n"))
            return Obj("NRESULT")
        if cn and cn.startswith("self.") and cn[5:] in helpers and len(node.args) == 4:
            return ex.ev(node.args[2], env)
        return fhk(ex, node, env)

    helpers = _score_helpers(repo)
    fhk = _foreign_hook(repo)
    rows = explore(repo, lp.body, env, call_hook=hook, inline=False, loop_mode="forbid")
    return fn, lp, rows


def r1_coordinates(repo, report):
    try:
        fn, lp, rows = _ml_rows(repo)
    except WrongMatchArguments as w:
        report.ob("C08.R1", "_match_to_multiple_lengths: the match is built from the best candidate's record", False, facts={"call": w.what[:200]}, expected="self._make_match(best_adapter, best_length, best_m, best_e, sequence)", loc=w.loc,
                  why="the reported interval is not the affix length that was looked up (with an indel in the occurrence the adapter length differs from it: coordinates are off by the indel size, possibly beyond the read)")
        raise
    report.saw(function="AdapterIndex._match_to_multiple_lengths", file="src/cutadapt/adapters.py", valuations=len(rows))
    # every path that performs a lookup must have established length <= len(sequence); a path with length <= len must not skip
    bad = []
    lookups = 0
    for r in rows:
        looked = any(c[2] in ("make_affix", "lookup_with_n") for c in r.calls) or any(k.startswith("haskey:self._index[") for k in r.valuation)
        judge = Executor(None, r.valuation)
        try:
            longer = judge.compare(ast.Gt(), Lin.atom("LENGTH"), Lin.atom("len(SEQ)"))
        except NeedAtom:
            longer = None
        if looked:
            lookups += 1
            if longer is None:
                bad.append("a length is looked up without having been compared with len(sequence)")
            elif longer:
                bad.append("a length greater than len(sequence) is looked up")
        else:
            # skipped before the lookup: allowed for the early stop (length < best_m -> break) or for length > len
            if r.exit[0] == "continue" and longer is False:
                bad.append("a length that fits into the read (length <= len(sequence)) is skipped")
    bad = sorted(set(bad))
    report.ob("C08.R1", "_match_to_multiple_lengths: only lengths that fit into the read", not bad and lookups > 0, facts={"paths": len(rows), "paths_with_lookup": lookups, "problems": bad},
              expected="skip iff length > len(sequence)", loc=repo.loc(lp), cases=len(rows), fact_key="length-not-bounded" if bad else None,
              why=bad[0] if bad else "")
    # the one-length matcher: installed only for one length; a hit implies len(affix) == _length
    c, init = repo.need_method("AdapterIndex", "__init__")
    ips = params(init)

    def init_hook(ex, node, env):
        cn = chain(node.func)
        if cn == "self._make_index":
            return Tup([Obj("LENGTHS", nonnull=True), Obj("INDEX", nonnull=True), Obj("AMBIG")])
        if cn == "self._accept" or (cn and cn.startswith("logger.")):
            return Const(None)
        return None

    irows = explore(repo, strip_docstring(init.body), {"self": Obj("self", nonnull=True), ips[1]: Obj("ADAPTERS"), ips[2]: Obj("PREFIX")}, call_hook=init_hook, inline=False)
    bad = []
    n_inst = 0
    for r in irows:
        if r.exit[0] == "raise":
            continue
        st = {e[1]: e[2] for e in r.effects if e[0] == "store"}
        one_len = r.valuation.get("sign:len(LENGTHS)-1")
        if one_len is None:
            bad.append(("the matcher is installed without looking at the number of lengths", st.get("self.match_to")))
            continue
        n_inst += 1
        want = "self._match_to_one_length" if one_len == 0 else "self._match_to_multiple_lengths"
        if st.get("self.match_to") != want:
            bad.append((f"len(lengths) {'=' if one_len == 0 else '!='} 1", st.get("self.match_to")))
        if one_len == 0 and st.get("self._length") != "LENGTHS[0]":
            bad.append(("the single length is not recorded", st.get("self._length")))
        if st.get("self._lengths") != "LENGTHS" or st.get("self._index") != "INDEX":
            bad.append(("lengths / index are not what _make_index returned", st.get("self._lengths"), st.get("self._index")))
    report.ob("C08.R1", "one-length matcher installed iff there is exactly one length", not bad and n_inst >= 2, facts={"paths": len(irows), "problems": [str(b)[:200] for b in bad[:2]]},
              expected="len(self._lengths) == 1 -> _match_to_one_length with self._length = self._lengths[0]; else _match_to_multiple_lengths", loc=repo.loc(init), cases=len(irows))
    c, one = repo.need_method("AdapterIndex", "_match_to_one_length")
    ops = params(one)

    def hook(ex, node, env):
        cn = chain(node.func)
        if cn == "self._make_affix":
            ex.calls.append((f"make_affix({vkey(ex.ev(node.args[0], env))}, {vkey(ex.ev(node.args[1], env))})", node, "make_affix"))
            return Obj("AFFIX", nonnull=True)
        if cn == "self._lookup_with_n":
            return Obj("NRESULT")
        if cn == "self._make_match":
            return Obj("MATCH(" + ", ".join(vkey(ex.ev(a, env)) for a in node.args) + ")", nonnull=True)
        if cn and cn.startswith("self.") and cn[5:] in helpers and len(node.args) == 4:
            return ex.ev(node.args[2], env)
        return fhk(ex, node, env)

    helpers = _score_helpers(repo)
    fhk = _foreign_hook(repo)
    rows1 = explore(repo, strip_docstring(one.body), {"self": Obj("self", nonnull=True), ops[1]: Obj("SEQ", nonnull=True)}, call_hook=hook, inline=False)
    bad = []
    for r in rows1:
        hasn = _has_foreign(r, "AFFIX")
        ret = vkey(r.exit[1]) if r.exit[0] == "return" else r.exit[0]
        aff = [c_[0] for c_ in r.calls if c_[2] == "make_affix"]
        if aff != ["make_affix(SEQ.upper(), self._length)"]:
            bad.append(("affix", aff))
        if hasn:
            hit = r.valuation.get("isnone:NRESULT") is False
            want = "MATCH(NRESULT[0], self._length, NRESULT[2], NRESULT[1], SEQ)" if hit else "None"
        else:
            hit = r.valuation.get("haskey:self._index[AFFIX]")
            want = "MATCH(self._index[AFFIX][0], self._length, self._index[AFFIX][2], self._index[AFFIX][1], SEQ)" if hit else "None"
        if ret != want:
            bad.append((r.describe()["valuation"], ret, want))
    report.ob("C08.R1", "_match_to_one_length", not bad and len(rows1) >= 4, facts={"paths": len(rows1), "problems": [str(b)[:260] for b in bad[:2]]},
              expected="affix = make_affix(seq.upper(), _length); a match is built only after a successful lookup of that affix (N: re-alignment), with (adapter, _length, matches, errors, sequence)", loc=repo.loc(one), cases=len(rows1),
              why=str(bad[0])[:200] if bad else "")
    # match constructors
    for mname, cls, want in (("_make_prefix_match", "RemoveBeforeMatch", {"astart": "0", "astop": "len(adapter.sequence)", "rstart": "0", "rstop": "length"}),
                             ("_make_suffix_match", "RemoveAfterMatch", {"astart": "0", "astop": "len(adapter.sequence)", "rstart": "len(sequence) - length", "rstop": "len(sequence)"})):
        c, f = repo.need_method("AdapterIndex", mname)
        rets = [n.value for n in ast.walk(f) if isinstance(n, ast.Return)]
        ok = len(rets) == 1 and isinstance(rets[0], ast.Call) and chain(rets[0].func) == cls
        kw = {k.arg: src(k.value) for k in rets[0].keywords} if ok else {}
        want_all = dict(want, score="score", errors="errors", adapter="adapter", sequence="sequence")
        ok = ok and kw == want_all and params(f) == ["adapter", "length", "score", "errors", "sequence"]
        report.ob("C08.R1", f"AdapterIndex.{mname}", ok, facts=kw, expected=want_all, loc=repo.loc(f), why="" if ok else "the match coordinates are not the anchored affix of the given length")
    # prefix/suffix helpers and their installation
    c, mp = repo.need_method("AdapterIndex", "_make_prefix")
    c, ms = repo.need_method("AdapterIndex", "_make_suffix")
    r1 = [src(n.value) for n in ast.walk(mp) if isinstance(n, ast.Return)]
    r2 = [src(n.value) for n in ast.walk(ms) if isinstance(n, ast.Return)]
    report.ob("C08.R1", "affix helpers", r1 == ["s[:n]"] and r2 == ["s[-n:]"], facts={"prefix": r1, "suffix": r2}, expected="s[:n] / s[-n:]", loc=repo.loc(mp))
    bad = []
    n_inst = 0
    for r in irows:
        if r.exit[0] == "raise":
            continue
        st = {e[1]: e[2] for e in r.effects if e[0] == "store"}
        pf = r.valuation.get("truthy:PREFIX")
        if pf is None:
            bad.append(("helpers installed without looking at the prefix flag", st.get("self._make_affix")))
            continue
        n_inst += 1
        want = ("self._make_prefix", "self._make_prefix_match") if pf else ("self._make_suffix", "self._make_suffix_match")
        if (st.get("self._make_affix"), st.get("self._make_match")) != want:
            bad.append((f"prefix={pf}", st.get("self._make_affix"), st.get("self._make_match")))
    report.ob("C08.R1", "prefix index uses prefix helpers, suffix index suffix helpers", not bad and n_inst >= 2, facts={"paths": len(irows), "problems": [str(b)[:200] for b in bad[:2]]},
              expected="prefix: (_make_prefix, _make_prefix_match); else (_make_suffix, _make_suffix_match)", loc=repo.loc(init), cases=len(irows))
    ipa = repo.cls("IndexedPrefixAdapters").methods["__init__"]
    isa = repo.cls("IndexedSuffixAdapters").methods["__init__"]
    from ..repo import call_arguments

    def index_flag(fn_):
        cs_ = [x for x in ast.walk(fn_) if isinstance(x, ast.Call) and chain(x.func) == "AdapterIndex"]
        if len(cs_) != 1:
            return None
        a_ = call_arguments(repo, cs_[0])
        first = a_.get("adapters", a_.get(0))
        return (src(first) if first is not None else None, src(a_["prefix"]) if "prefix" in a_ else None)

    got = (index_flag(ipa), index_flag(isa))
    p1 = params(ipa)[1] if len(params(ipa)) > 1 else None
    p2 = params(isa)[1] if len(params(isa)) > 1 else None
    ok = got == ((p1, "True"), (p2, "False"))
    report.ob("C08.R1", "IndexedPrefixAdapters / IndexedSuffixAdapters", ok, facts={"AdapterIndex_arguments": [list(g) if g else None for g in got]}, expected="AdapterIndex(adapters, prefix=True) / AdapterIndex(adapters, prefix=False)", loc=repo.loc(ipa))


def _index_roles(repo, fn0):
    """_make_index with its locals named by role: the index is the dictionary returned (second component) and stored
    into with a (adapter, errors, matches) triple under the enumerated string; the other container keyed by that
    string is the ambiguity record; the lengths set is what is returned sorted."""
    rets = [n.value for n in ast.walk(fn0) if isinstance(n, ast.Return) and isinstance(n.value, ast.Tuple)]
    ret = unique(rets, "_make_index: returned tuple", repo.loc(fn0))
    if len(ret.elts) != 3:
        raise Unrecognised("_make_index does not return (lengths, index, max_k)", repo.loc(ret))
    index = name_of(ret.elts[1], "_make_index: returned index", repo.loc(ret))
    srt = ret.elts[0]
    lengths = name_of(srt.args[0], "_make_index: lengths", repo.loc(ret)) if isinstance(srt, ast.Call) and chain(srt.func) == "sorted" and srt.args else None
    sites = []
    for n in ast.walk(fn0):
        if isinstance(n, ast.For):
            direct = [s for s in n.body if isinstance(s, ast.Assign) and isinstance(s.targets[0], ast.Subscript) and chain(s.targets[0].value) == index]
            if direct:
                sites.append((n, direct[0]))
    mapping = {index: "index"}
    if lengths:
        mapping[lengths] = "lengths"
    amb = set()
    for lp, st in sites:
        key = name_of(st.targets[0].slice, "index key", repo.loc(st))
        if not (isinstance(st.value, ast.Tuple) and len(st.value.elts) == 3):
            raise Unrecognised("_make_index: the index entry is not an (adapter, errors, matches) triple", repo.loc(st))
        ad, er, ma = [name_of(e, "component of the index entry", repo.loc(st)) for e in st.value.elts]
        for a_, c_ in ((key, "s"), (ad, "adapter"), (er, "errors"), (ma, "matches")):
            if mapping.get(a_, c_) != c_:
                raise Unrecognised(f"_make_index: variable {a_} plays two roles ({mapping[a_]}, {c_})", repo.loc(st))
            mapping[a_] = c_
        for x in ast.walk(lp):
            if isinstance(x, ast.Subscript) and isinstance(x.value, ast.Name) and x.value.id != index and isinstance(x.slice, ast.Name) and x.slice.id == key and isinstance(x.ctx, ast.Store):
                amb.add(x.value.id)
            if isinstance(x, ast.Compare) and len(x.ops) == 1 and isinstance(x.ops[0], (ast.In, ast.NotIn)) and isinstance(x.left, ast.Name) and x.left.id == key and isinstance(x.comparators[0], ast.Name) and x.comparators[0].id != index:
                amb.add(x.comparators[0].id)
    if len(amb) == 1:
        mapping[amb.pop()] = "ambiguous"
    defs = assigned_names(fn0)
    inv = {v: k for k, v in mapping.items()}
    ad = inv.get("adapter")
    seqs = [k for k, vs in defs.items() if any(src(v) == f"{ad}.sequence" for v in vs)]
    if len(seqs) == 1:
        mapping[seqs[0]] = "sequence"
        ks = [k for k, vs in defs.items() if any(isinstance(v, ast.Call) and chain(v.func) == "int" and f"{ad}.max_error_rate" in src(v) for v in vs)]
        if len(ks) == 1:
            mapping[ks[0]] = "k"
        ns = [k for k, vs in defs.items() if any(src(v) == f"len({seqs[0]})" for v in vs)]
        if len(ns) == 1:
            mapping[ns[0]] = "n"
    fn = rename(fn0, mapping)
    sites2 = []
    for n in ast.walk(fn):
        if isinstance(n, ast.For) and any(isinstance(s, ast.Assign) and isinstance(s.targets[0], ast.Subscript) and chain(s.targets[0].value) == "index" for s in n.body):
            sites2.append(n)
    return fn, sites2


def r2_ambiguity(repo, report):
    c, fn0 = repo.need_method("AdapterIndex", "_make_index")
    fn, sites = _index_roles(repo, fn0)
    report.floor("C08.R2", "index insertion loops", len(sites), 2)
    tables = []
    for lp in sites:
        names = [n.id for n in ast.walk(lp.target) if isinstance(n, ast.Name)]
        sname = "s"
        env = {"self": Obj("self", nonnull=True), "index": Obj("INDEX", nonnull=True), "ambiguous": Obj("AMBIG", nonnull=True), "adapter": Obj("ADAPTER", nonnull=True),
               "k": Lin.atom("K"), "lengths": Obj("LENGTHS", nonnull=True), sname: Obj("S", nonnull=True), "matches": Lin.atom("MATCHES"), "errors": Lin.atom("ERRORS")}
        rows = explore(repo, lp.body, env, inline=False, loop_mode="forbid")
        report.saw(function="AdapterIndex._make_index", valuations=len(rows))
        roles = {"known": Bool("in:S:INDEX"), "d": Sign(Lin.atom("MATCHES") - Lin.atom("INDEX[S][2]")), "amb": Bool("in:S:AMBIG")}

        def outcome(r):
            stored = any(e[0] == "store" and e[1] == "INDEX[S]" and e[2] == "(ADAPTER, ERRORS, MATCHES)" for e in r.effects)
            marked = any(e[0] == "store" and e[1] == "AMBIG[S]" for e in r.effects)
            cleared = any((e[0] == "del" and "AMBIG" in e[1] and "S" in e[1]) or (e[0] == "call" and e[1] in ("AMBIG.pop", "AMBIG.discard", "AMBIG.remove") and "(S" in e[2]) for e in r.effects)
            return (stored, marked, cleared)

        def after(rv, o):
            """is S ambiguous after the step?"""
            stored, marked, cleared = o
            a = rv["amb"]
            if marked:
                a = True
            if cleared:
                a = False
            return a

        def exp_amb(rv):
            if not rv["known"]:
                return False  # a new string is not ambiguous (it cannot have been marked before)
            if rv["d"] < 0:
                return rv["amb"]  # worse candidate: nothing changes
            if rv["d"] == 0:
                return True  # ties with the best so far
            return False  # strictly better: the earlier tie among worse candidates is void

        def exp_store(rv):
            return (not rv["known"]) or rv["d"] >= 0

        def constraint(rv):
            return rv["known"] or not rv["amb"]

        mism = []
        n = 0
        import itertools

        # whatever happens to one string, the enumeration of the adapter's neighbourhood goes on with the next string
        for r in rows:
            if r.exit[0] in ("break", "return", "raise"):
                mism.append({"inputs": r.describe()["valuation"], "code": f"the loop over the neighbourhood is left with '{r.exit[0]}'", "expected": "continue with the next string"})

        for combo in itertools.product((False, True), (-1, 0, 1), (False, True)):
            rv = dict(zip(("known", "d", "amb"), combo))
            if not constraint(rv):
                continue
            total = {roles["known"].key: rv["known"], roles["d"].key: roles["d"].to_atom(rv["d"]), roles["amb"].key: rv["amb"]}
            cands = [r for r in rows if all(total.get(k, v) == v for k, v in r.valuation.items() if k in total)]
            outs = {outcome(r) for r in cands}
            n += 1
            if len(outs) != 1:
                mism.append({"inputs": rv, "code": sorted(map(str, outs)), "expected": "a single outcome"})
                continue
            o = outs.pop()
            if o[0] != exp_store(rv):
                mism.append({"inputs": rv, "code": f"index entry {'replaced' if o[0] else 'kept'}", "expected": "replaced" if exp_store(rv) else "kept"})
            if after(rv, o) != exp_amb(rv):
                mism.append({"inputs": rv, "code": f"ambiguous afterwards: {after(rv, o)}", "expected": f"ambiguous afterwards: {exp_amb(rv)}"})
        tables.append((lp, mism, n))
        kind = "edit environment" if "edit_environment" in src(lp.iter) else "Hamming spheres"
        report.ob("C08.R2", f"_make_index insertion ({kind})", not mism, facts={"rows": len(rows), "mismatches": mism[:3]},
                  expected="replace iff new or at least as many matches; ambiguous afterwards iff the best count is attained twice (strictly better clears)", loc=repo.loc(lp), cases=n,
                  fact_key="tie-not-cleared" if mism and all("ambiguous afterwards" in m["code"] and m["inputs"]["d"] == 1 for m in mism) else None,
                  why=(f"for {mism[0]['inputs']}: {mism[0]['code']}, expected {mism[0]['expected']}" if mism else ""))
    # ambiguous strings are removed from the index afterwards
    dels = [n for n in ast.walk(fn) if isinstance(n, ast.For) and src(n.iter) == "ambiguous" and isinstance(n.target, ast.Name) and any(isinstance(x, ast.Delete) and src(x.targets[0]) == f"index[{n.target.id}]" for x in n.body)]
    report.ob("C08.R2", "ambiguous strings are removed from the index", len(dels) == 1, facts={"loop": src(dels[0])[:80] if dels else None}, expected="for s in ambiguous: del index[s]", loc=repo.loc(fn))


def r3_bestof(repo, report):
    fn, lp, rows = _ml_rows(repo)
    bad = []
    for r in rows:
        judge = Executor(None, r.valuation)
        # early stop
        try:
            shorter = judge.compare(ast.Lt(), Lin.atom("LENGTH"), Lin.atom("BEST_M"))
        except NeedAtom:
            shorter = None
        if r.exit[0] == "break":
            if shorter is not True:
                bad.append(("early stop although length >= best_m", r.describe()["valuation"]))
            continue
        if shorter is True:
            bad.append(("no early stop for length < best_m (harmless) ", ""))
            continue
        if r.exit[0] == "return":
            bad.append(("a lookup miss ends the search instead of continuing with the next length", r.describe()["valuation"]))
            continue
        # candidates
        hasn = _has_foreign(r, "AFFIX2")
        if hasn is None:
            if r.exit[0] == "continue":
                continue
            bad.append(("affix is not tested for N", r.describe()["valuation"]))
            continue
        if hasn:
            miss = r.valuation.get("isnone:NRESULT")
            cand = ("NRESULT[0]", Lin.atom("NRESULT[1]"), Lin.atom("NRESULT[2]"))
        else:
            hk = r.valuation.get("haskey:self._index[AFFIX2]")
            miss = (hk is False)
            cand = ("self._index[AFFIX2][0]", Lin.atom("self._index[AFFIX2][1]"), Lin.atom("self._index[AFFIX2][2]"))
        changed = vkey(r.env["best_m"]) != "BEST_M"
        if miss:
            if r.exit[0] != "continue" or changed:
                bad.append(("miss", r.exit[0], changed))
            continue
        try:
            more = judge.compare(ast.Gt(), cand[2], Lin.atom("BEST_M"))
            same = judge.compare(ast.Eq(), cand[2], Lin.atom("BEST_M"))
            fewer = judge.compare(ast.Lt(), cand[1], Lin.atom("BEST_E")) if same else None
        except NeedAtom:
            bad.append(("selection does not compare (matches, errors) with the best so far", sorted(r.valuation)))
            continue
        want = bool(more or (same and fewer))
        if changed != want:
            bad.append(("selection", {"more": more, "same": same, "fewer_errors": fewer}, "updated" if changed else "kept"))
            continue
        if not changed and not (vkey(r.env["best_adapter"]) == "BEST_ADAPTER" and vkey(r.env["best_e"]) == "BEST_E" and vkey(r.env["best_length"]) == "BEST_LENGTH"):
            bad.append(("a worse candidate changes part of the best-so-far record", {k: vkey(r.env[k]) for k in ("best_adapter", "best_e", "best_m", "best_length")}))
            continue
        if changed and not (vkey(r.env["best_adapter"]) == cand[0] and vkey(r.env["best_e"]) == cand[1].key() and vkey(r.env["best_m"]) == cand[2].key() and vkey(r.env["best_length"]) == "LENGTH"):
            bad.append(("recorded candidate", vkey(r.env["best_adapter"]), vkey(r.env["best_e"]), vkey(r.env["best_m"]), vkey(r.env["best_length"])))
    bad = [b for b in bad if "harmless" not in b[0]]
    report.ob("C08.R3", "_match_to_multiple_lengths: selection and continuation", not bad, facts={"paths": len(rows), "problems": [str(b)[:260] for b in bad[:3]]},
              expected="break only if length < best_m; miss -> continue; replace iff more matches or equal matches and fewer errors; record (adapter, errors, matches, length)", loc=repo.loc(lp), cases=len(rows),
              why=str(bad[0])[:240] if bad else "")
    # the affix for the next length is cut from the current affix / the read, never grown
    mk = sorted({c_[0] for r in rows for c_ in r.calls if c_[2] == "make_affix"})
    report.ob("C08.R3", "affix per length", mk == ["make_affix(AFFIX, LENGTH)"], facts={"calls": mk}, expected="affix = make_affix(affix, length) (lengths descend, so each affix is an affix of the previous one)", loc=repo.loc(lp))
    # final result
    body = strip_docstring(fn.body)
    tail = body[body.index(lp) + 1:]
    helpers2 = _score_helpers(repo)

    def hook2(ex, node, env):  # the score conversion is transparent here (C08.R6 decides what it computes)
        cn = chain(node.func)
        if cn and cn.startswith("self.") and cn[5:] in helpers2 and len(node.args) == 4:
            return ex.ev(node.args[2], env)
        return None

    rows2 = explore(repo, tail, {"self": Obj("self", nonnull=True), params(fn)[1]: Obj("SEQ", nonnull=True), "best_adapter": Obj("BEST_ADAPTER"), "best_length": Lin.atom("BEST_LENGTH"), "best_m": Lin.atom("BEST_M"), "best_e": Lin.atom("BEST_E")}, call_hook=hook2, inline=False)
    tbl = {}
    for r in rows2:
        j = Executor(None, r.valuation)
        try:
            none = j.compare(ast.Eq(), Lin.atom("BEST_M"), Lin.k(-1))
        except NeedAtom:
            none = None
        tbl[str(none)] = vkey(r.exit[1]) if r.exit[0] == "return" else r.exit[0]
    ok = tbl == {"True": "None", "False": "self._make_match(BEST_ADAPTER, BEST_LENGTH, BEST_M, BEST_E, SEQ)"}
    inits = {chain(s.targets[0]) if isinstance(s, ast.Assign) else chain(s.target): src(s.value) for s in body[:body.index(lp)] if isinstance(s, (ast.Assign, ast.AnnAssign)) and s.value is not None}
    ok = ok and inits.get("best_m") == "-1" and inits.get("affix") == f"{params(fn)[1]}.upper()"
    report.ob("C08.R3", "_match_to_multiple_lengths: result", ok, facts={"table": tbl, "initial": {k: inits.get(k) for k in ("best_m", "best_e", "affix")}}, expected="None iff nothing was found (best_m still -1), else make_match(best adapter, best length, best_m, best_e, sequence)", loc=repo.loc(fn))
    c, mi0 = repo.need_method("AdapterIndex", "_make_index")
    mi, _sites = _index_roles(repo, mi0)
    rets = [src(n.value) for n in ast.walk(mi) if isinstance(n, ast.Return)]
    report.ob("C08.R3", "lengths are tried longest first", len(rets) == 1 and rets[0].startswith("(sorted(lengths, reverse=True),"), facts={"returns": rets}, expected="sorted(lengths, reverse=True)", loc=repo.loc(mi))


def r4_eligibility(repo, report):
    c, acc = repo.need_method("AdapterIndex", "_accept")
    ps = params(acc)
    A, P = ps[1], ps[2]
    rows = explore(repo, strip_docstring(acc.body), {ps[0]: Obj("cls", nonnull=True), A: Obj("AD", nonnull=True), P: Obj("PREFIX")}, inline=False)
    K = Lin.atom("int(AD.max_error_rate*len(AD))")
    roles = {"prefix": Bool("truthy:PREFIX"), "isp": Bool("isinstance:AD:PrefixAdapter"), "iss": Bool("isinstance:AD:SuffixAdapter"), "rw": Bool("truthy:AD.read_wildcards"), "aw": Bool("truthy:AD.adapter_wildcards"), "k": Sign(K - 3)}

    def exp(rv):
        if rv["prefix"] and not rv["isp"]:
            return "raise"
        if not rv["prefix"] and not rv["iss"]:
            return "raise"
        if rv["rw"] or rv["aw"] or rv["k"] > 0:
            return "raise"
        return "fall"

    try:
        mism, n, _ = check_table(rows, roles, exp, lambda r: r.exit[0])
        report.ob("C08.R4", "AdapterIndex._accept", not mism, facts={"rows": len(rows), "mismatches": mism[:3]}, expected="rejected unless: right anchored class, no read wildcards, no adapter wildcards, int(len * rate) <= 3", loc=repo.loc(acc), cases=n,
                  why=str(mism[0]) if mism else "")
    except Unrecognised as u:
        report.unrecognised("C08.R4", "AdapterIndex._accept", u.what, repo.loc(acc))
    c, ia = repo.need_method("AdapterIndex", "is_acceptable")
    rows = explore(repo, strip_docstring(ia.body), {params(ia)[0]: Obj("cls", cls="AdapterIndex", nonnull=True), params(ia)[1]: Obj("AD"), params(ia)[2]: Obj("PREFIX")}, inline=False)
    ok = sorted({vkey(r.exit[1]) for r in rows if r.exit[0] == "return"}) in (["True"], ["False", "True"]) and any(isinstance(n, ast.ExceptHandler) and chain(n.type) == "ValueError" for n in ast.walk(ia))
    report.ob("C08.R4", "AdapterIndex.is_acceptable", ok, facts={"handler": "ValueError"}, expected="True iff _accept does not raise ValueError", loc=repo.loc(ia))
    # own k in _make_index
    c, mi0 = repo.need_method("AdapterIndex", "_make_index")
    mi, _sites = _index_roles(repo, mi0)
    loops = [n for n in ast.walk(mi) if isinstance(n, ast.For) and src(n.iter) == "self._adapters" and isinstance(n.target, ast.Name)]
    main = [l for l in loops if any(isinstance(x, ast.Call) and chain(x.func) == "edit_environment" for x in ast.walk(l))]
    if len(main) != 1:
        raise Unrecognised("_make_index: loop over the adapters not found", repo.loc(mi))
    lp = main[0]
    av = lp.target.id
    defs = {chain(s.targets[0]): src(s.value) for s in lp.body if isinstance(s, ast.Assign)}
    seqv = [k for k, v in defs.items() if v == f"{av}.sequence"]
    kv = [k for k, v in defs.items() if seqv and v.replace(" ", "") in (f"int({av}.max_error_rate*len({seqv[0]}))", f"int(len({seqv[0]})*{av}.max_error_rate)")]
    ok_k = bool(seqv) and bool(kv)
    ee = [x for x in calls(lp) if chain(x.func) == "edit_environment"]
    hs = [x for x in calls(lp) if chain(x.func) == "hamming_sphere"]
    ok_ee = len(ee) == 1 and ok_k and [src(a) for a in ee[0].args] == [seqv[0], kv[0]]
    facts = {"k": defs.get(kv[0]) if kv else None, "edit_environment": src(ee[0]) if ee else None, "hamming_sphere": src(hs[0]) if hs else None}
    report.ob("C08.R4", "_make_index: each adapter's own k", ok_k and ok_ee, facts=facts, expected="k = int(adapter.max_error_rate * len(sequence)); edit_environment(sequence, k)", loc=repo.loc(lp),
              why="" if (ok_k and ok_ee) else "the neighbourhood of an adapter is not enumerated with its own error allowance")
    # indels <-> edit env, else spheres 0..k with matches = n - errors
    top = [s for s in lp.body if isinstance(s, ast.If)]
    ok = len(top) == 1 and src(top[0].test) == f"{av}.indels" and any(x in ee for x in ast.walk(ast.Module(body=top[0].body, type_ignores=[]))) and any(x in hs for x in ast.walk(ast.Module(body=top[0].orelse, type_ignores=[])))
    sph = [n for n in ast.walk(ast.Module(body=top[0].orelse, type_ignores=[])) if isinstance(n, ast.For)] if top else []
    ok = ok and len(sph) >= 2 and ok_k and src(sph[0].iter) == f"range({kv[0]} + 1)" and len(hs) == 1 and [src(a) for a in hs[0].args] == [seqv[0], sph[0].target.id]
    md = [src(s.value) for s in (sph[0].body if sph else []) if isinstance(s, ast.Assign) and chain(s.targets[0]) == "matches"]
    ok = ok and md == [f"n - {sph[0].target.id}"] if sph else False
    report.ob("C08.R4", "_make_index: indels <-> edit environment, no indels <-> Hamming spheres 0..k", ok, facts={"spheres": src(sph[0].iter) if sph else None, "matches": md}, expected="if adapter.indels: edit_environment(sequence, k) else: for errors in range(k + 1): hamming_sphere(sequence, errors), matches = n - errors", loc=repo.loc(lp))
    # the comparers and the index agree on k (int(rate * effective length) with no wildcards = len)
    c, pc = repo.need_method("PrefixComparer", "__init__")
    mk = [src(n.value) for n in ast.walk(pc) if isinstance(n, ast.Assign) and chain(n.targets[0]) == "self.max_k"]
    report.ob("C08.R4", "PrefixComparer.max_k", mk == ["int(max_error_rate * self.effective_length)"], facts={"max_k": mk}, expected="int(max_error_rate * self.effective_length) - equals the index's k for wildcard-free adapters", loc=repo.loc(pc))
    # _split_adapters
    c, sp = repo.need_method("AdapterCutter", "_split_adapters")
    tests = [src(n.test) for n in ast.walk(sp) if isinstance(n, ast.If)]
    lv = [n.target.id for n in ast.walk(sp) if isinstance(n, ast.For) and isinstance(n.target, ast.Name)]
    a = lv[0] if len(lv) == 1 else "a"
    ok = tests == [f"AdapterIndex.is_acceptable({a}, prefix=True)", f"AdapterIndex.is_acceptable({a}, prefix=False)"]
    report.ob("C08.R4", "AdapterCutter._split_adapters", ok, facts={"tests": tests}, expected="prefix group: is_acceptable(a, prefix=True); suffix group: is_acceptable(a, prefix=False); else other", loc=repo.loc(sp))


def r5_nfallback(repo, report):
    fn, lp, rows = _ml_rows(repo)
    bad = []
    for r in rows:
        hasn = _has_foreign(r, "AFFIX2")
        direct = any(k.startswith("haskey:self._index[") for k in r.valuation)
        viaN = any(c[2] == "lookup_with_n" for c in r.calls)
        if hasn is True and (direct or not viaN):
            bad.append(("an affix containing N takes the dictionary verdict directly", r.describe()["valuation"]))
        if hasn is False and viaN:
            bad.append(("N path without N", ""))
    report.ob("C08.R5", "_match_to_multiple_lengths: N path", not bad, facts={"problems": [str(b)[:200] for b in bad[:2]]}, expected="'N' in affix -> _lookup_with_n(affix), never self._index[affix]", loc=repo.loc(lp), cases=len(rows))
    c, ln = repo.need_method("AdapterIndex", "_lookup_with_n")
    lps = params(ln)
    _fallback_trigger(repo, report, ln)

    def hook(ex, node, env):
        f = node.func
        if isinstance(f, ast.Attribute) and f.attr == "match_to":
            ex.calls.append((f"{vkey(ex.ev(f.value, env))}.match_to({vkey(ex.ev(node.args[0], env))})", node, "match_to"))
            return Obj("REMATCH")
        return fhk(ex, node, env)

    fhk = _foreign_hook(repo)

    rows = explore(repo, strip_docstring(ln.body), {"self": Obj("self", nonnull=True), lps[1]: Obj("AFFIX", nonnull=True)}, call_hook=hook, inline=False)
    bad = []
    partial = []
    K = "self._index[PLAIN(AFFIX)]"
    for r in rows:
        hk = r.valuation.get(f"haskey:{K}")
        ret = vkey(r.exit[1]) if r.exit[0] == "return" else r.exit[0]
        if hk is None:
            bad.append(("lookup key", sorted(r.valuation)))
            continue
        if not hk:
            if ret != "None":
                bad.append(("miss", ret))
            continue
        mt = [c_[0] for c_ in r.calls if c_[2] == "match_to"]
        if mt != [f"{K}[0].match_to(AFFIX)"]:
            bad.append(("re-alignment", mt))
        if r.valuation.get("isnone:REMATCH"):
            if ret != "None":
                bad.append(("failed re-alignment", ret))
        elif ret != "None":
            if not (ret.startswith(f"({K}[0], REMATCH.errors, ") and "REMATCH.score" in ret):
                bad.append(("result", ret))
            # the caller builds the match over the WHOLE affix (rstop = length): the re-alignment must have consumed all of it
            from ..absint import entails

            whole = entails(r.valuation, ast.Eq(), Lin.atom("REMATCH.rstop") - Lin.atom("REMATCH.rstart"), Lin.atom("len(AFFIX)"))
            if whole is not True:
                partial.append(r.describe()["valuation"])
    report.ob("C08.R5", "_lookup_with_n: the re-aligned match spans the whole affix", not partial, facts={"accepting_paths_without_the_check": partial[:2]},
              expected="a result is returned only if match.rstop - match.rstart == len(affix); otherwise None (the shorter length is looked up in its own turn)", loc=repo.loc(ln), fact_key="n-realign-partial" if partial else None,
              why="" if not partial else "the candidate adapter may align to only a part of the affix (e.g. ACGTACGTAC in ACGTACGTACN), but the caller reports the whole affix as removed with the errors of the part: -g ^ACGTACGTAC -g ^TTGGCCAATT on ACGTACGTACNGGGG removes 11 bases and reports 0 errors")
    report.ob("C08.R5", "_lookup_with_n", not bad and len(rows) >= 3, facts={"paths": len(rows), "problems": [str(b)[:240] for b in bad[:2]]},
              expected="candidate = index[affix with N -> A]; re-align candidate adapter with the real affix; (adapter, match.errors, match.score) or None", loc=repo.loc(ln), cases=len(rows), why=str(bad[0])[:200] if bad else "")


def _index_alphabet(repo):
    """the characters the index strings are made of: what hamming_sphere / edit_environment substitute and insert"""
    m = repo.modules["_align"]
    alph = set()
    for fname in ("hamming_sphere", "edit_environment", "hamming_environment", "py_edit_environment", "slow_edit_environment"):
        fn = next((n for n in ast.walk(m.tree) if isinstance(n, ast.FunctionDef) and n.name == fname), None)
        if fn is None:
            continue
        for n in ast.walk(fn):
            if isinstance(n, ast.For) and isinstance(n.iter, ast.Constant) and isinstance(n.iter.value, str):
                alph.add(n.iter.value)
    if len(alph) != 1:
        raise Unrecognised(f"_align.pyx: the alphabet of the index strings is not a single literal ({sorted(alph)})")
    return set(alph.pop())


def _fallback_trigger(repo, report, ln):
    """The dictionary holds strings over the index alphabet only (the adapters are wildcard-free, their neighbourhoods
    are generated over ACGT). A read character outside that alphabet is a mismatch for the one-by-one comparison; for the
    dictionary it makes the key absent. So the detour through _lookup_with_n must be taken for EVERY character outside
    the alphabet, and must replace every such character before the lookup."""
    import re._parser as rp  # noqa: PLC2701

    alphabet = _index_alphabet(repo)
    pats = _compiled_patterns(repo)

    def covers(expr, subject_of):
        """(covered-all?, description) for a trigger / substitution expression"""
        if isinstance(expr, ast.Compare) and len(expr.ops) == 1 and isinstance(expr.ops[0], ast.In) and isinstance(expr.left, ast.Constant) and isinstance(expr.left.value, str):
            return False, f"only {expr.left.value!r}"
        if isinstance(expr, ast.Call) and isinstance(expr.func, ast.Attribute) and expr.func.attr == "replace" and expr.args and isinstance(expr.args[0], ast.Constant):
            return False, f"only {expr.args[0].value!r}"
        if isinstance(expr, ast.Call) and isinstance(expr.func, ast.Attribute) and isinstance(expr.func.value, ast.Name) and expr.func.value.id in pats and expr.func.attr in ("search", "sub"):
            tree = rp.parse(pats[expr.func.value.id])
            if len(tree) == 1 and str(tree[0][0]) == "IN" and str(tree[0][1][0][0]) == "NEGATE":
                members = {chr(v) for k, v in tree[0][1][1:] if str(k) == "LITERAL"}
                if len(members) == len(tree[0][1]) - 1:
                    if expr.func.attr == "sub" and not (isinstance(expr.args[0], ast.Constant) and expr.args[0].value in alphabet):
                        return False, f"replaced by {src(expr.args[0])}, which is not in the alphabet"
                    return members == alphabet, f"everything but {''.join(sorted(members))}"
            raise Unrecognised(f"pattern {pats[expr.func.value.id]!r} is not a negated character class", repo.loc(expr))
        raise Unrecognised(f"{src(expr)[:60]}: not a known spelling of 'has a character outside the index alphabet'", repo.loc(expr))

    problems = []
    n = 0
    for mname in ("_match_to_one_length", "_match_to_multiple_lengths"):
        c, fn = repo.need_method("AdapterIndex", mname)
        trig = [x for x in ast.walk(fn) if isinstance(x, ast.If) and any(isinstance(c_, ast.Call) and chain(c_.func) == "self._lookup_with_n" for st in x.body for c_ in ast.walk(st))]
        if len(trig) != 1:
            raise Unrecognised(f"{mname}: the test that routes to _lookup_with_n was not found", repo.loc(fn))
        n += 1
        okc, what = covers(trig[0].test, None)
        if not okc:
            problems.append(f"{mname} takes the detour for {what} ({src(trig[0].test)})")
    subs = [x for x in ast.walk(ln) if isinstance(x, ast.Call) and isinstance(x.func, ast.Attribute) and x.func.attr in ("replace", "sub")]
    if len(subs) != 1:
        raise Unrecognised("_lookup_with_n: the substitution before the lookup was not found", repo.loc(ln))
    n += 1
    okc, what = covers(subs[0], None)
    if not okc:
        problems.append(f"_lookup_with_n replaces {what} ({src(subs[0])})")
    report.ob("C08.R5", "index lookups: every read character outside the index alphabet takes the detour", not problems, facts={"index_alphabet": "".join(sorted(alphabet)), "sites": n, "problems": problems}, loc=repo.loc(ln), cases=n,
              fact_key="foreign-characters" if problems else None,
              expected="the detour test and the substitution cover every character that is not in the alphabet of the index strings (a negated class of exactly that alphabet)",
              why=(f"{problems[0]}: a read with another character outside {''.join(sorted(alphabet))} (R, Y, '.', ...) at the anchored end is looked up as it is, is not in the dictionary and is reported as 'no match', while the same adapter searched one by one matches with that character as a mismatch: -g ^ACGTACGTAC -g ^TTGGCCAATT --no-indels on ARGTACGTACTTTT removes nothing with the index and 10 bases with --no-index" if problems else ""))


def r6_score_units(repo, report):
    """The index dictionary stores, per string, (adapter, errors, matches). A match object's `score` is compared with the
    scores of matches found by the aligner/comparers (MultipleAdapters over an index group and further adapters, the
    reverse-complement decision), whose unit is  matches - mismatches - 2 * indels.  So the third argument of the match
    constructors must be that quantity, computed from the entry - for an indel-free entry of an adapter of length n
    with e mismatches: n - 2e - and what _lookup_with_n hands back in the entry's place must be in the entry's unit."""
    from .. import constfold
    from ..repo import expand

    c, mk = repo.need_method("AdapterIndex", "_make_index")
    # what an entry holds, by role (not by the names of the locals): (adapter, errors, matches) - in the indel-free branch
    # the third component is defined as  <length> - <second component>
    stores = [n for n in ast.walk(mk) if isinstance(n, ast.Assign) and isinstance(n.targets[0], ast.Subscript) and isinstance(n.targets[0].value, ast.Name) and isinstance(n.value, ast.Tuple) and len(n.value.elts) == 3
              and all(isinstance(e_, ast.Name) for e_ in n.value.elts)]
    stored = sorted({src(n.value) for n in stores})
    is_matches = False
    for st in stores:
        e2, e3 = st.value.elts[1].id, st.value.elts[2].id
        for d in ast.walk(mk):
            if isinstance(d, ast.Assign) and isinstance(d.targets[0], ast.Name) and d.targets[0].id == e3 and isinstance(d.value, ast.BinOp) and isinstance(d.value.op, ast.Sub) and isinstance(d.value.right, ast.Name) and d.value.right.id == e2:
                is_matches = True
    if len(stores) < 2 or len(stored) != 1 or not is_matches:
        raise Unrecognised(f"_make_index: entries {stored} are not recognisable as (adapter, errors, matches = length - errors)", repo.loc(mk))
    problems = []
    sites = 0
    for mname in ("_match_to_one_length", "_match_to_multiple_lengths"):
        c, fn = repo.need_method("AdapterIndex", mname)
        for call in calls_to(fn, "self._make_match"):
            if len(call.args) != 5:
                raise Unrecognised(f"{mname}: self._make_match is not called with five positional arguments", repo.loc(call))
            sites += 1
            sc = expand(fn, call.args[2])
            if isinstance(sc, ast.Name):
                problems.append(f"{mname}: the score of the match is {sc.id}, the entry's number of matches")
                continue
            if not (isinstance(sc, ast.Call) and isinstance(sc.func, ast.Attribute) and chain(sc.func.value) in ("self", "AdapterIndex") and sc.func.attr in repo.cls("AdapterIndex").methods and len(sc.args) == 4):
                raise Unrecognised(f"{mname}: score {src(sc)[:60]} is neither the entry's third component nor a conversion helper(adapter, length, matches, errors)", repo.loc(call))
            if [src(a) for a in sc.args] != [src(call.args[0]), src(call.args[1]), src(call.args[2]) if False else src(sc.args[2]), src(call.args[3])] or src(sc.args[0]) != src(call.args[0]) or src(sc.args[1]) != src(call.args[1]) or src(sc.args[3]) != src(call.args[3]):
                problems.append(f"{mname}: the score is converted from {[src(a) for a in sc.args]}, the match is built from {[src(a) for a in call.args[:4]]}")
                continue
            helper = repo.cls("AdapterIndex").methods[sc.func.attr]
            hp = [p_ for p_ in params(helper) if p_ not in ("self", "cls")]
            wrong = []
            for n_ in (6, 9, 12):
                for e_ in (0, 1, 2, 3):
                    try:
                        got = constfold.fold_function(helper, {hp[0]: {"__attrs__": {"sequence": "A" * n_}}, hp[1]: n_, hp[2]: n_ - e_, hp[3]: e_})
                    except constfold.NotConstant as ex:
                        raise Unrecognised(f"{sc.func.attr}: not foldable ({ex})", repo.loc(helper))
                    if got != n_ - 2 * e_:
                        wrong.append((n_, e_, got))
            if wrong:
                problems.append(f"{sc.func.attr}(adapter of length {wrong[0][0]}, {wrong[0][0]}, {wrong[0][0] - wrong[0][1]} matches, {wrong[0][1]} errors) = {wrong[0][2]}, the comparers give {wrong[0][0] - 2 * wrong[0][1]}")
    # the fallback's result takes the place of a dictionary entry: its third component is a number of matches
    c, ln = repo.need_method("AdapterIndex", "_lookup_with_n")
    rets = [expand(ln, r_.value) for r_ in ast.walk(ln) if isinstance(r_, ast.Return) and isinstance(r_.value, ast.Tuple) and len(r_.value.elts) == 3]
    for rt in rets:
        sites += 1
        third = rt.elts[2]
        from .c03 import _lin_of

        try:
            val = _lin_of(third, {"self": Obj("self", nonnull=True), "match": Obj("M", nonnull=True), "adapter": Obj("AD", nonnull=True), "affix": Obj("AFFIX", nonnull=True)})
        except Unrecognised:
            val = None
        if val is None:
            raise Unrecognised(f"_lookup_with_n: third component {src(third)[:60]} is not linear in the match's fields", repo.loc(ln))
        # indel-free re-alignment over the whole affix of an adapter of length N: score = N - 2E, len(affix) = N
        subst = {a: Lin.atom("N") for a in val.atoms() if a.startswith("len(")}
        subst.update({a: Lin.atom("N") - Lin.atom("E") * 2 for a in val.atoms() if a.endswith(".score")})
        subst.update({a: Lin.atom("E") for a in val.atoms() if a.endswith(".errors")})
        if val.subst(subst) != Lin.atom("N") - Lin.atom("E"):
            problems.append(f"_lookup_with_n hands back {src(third)[:50]} where the dictionary has a number of matches (for an indel-free occurrence: {val.subst(subst).key()} instead of N-E)")
    report.ob("C08.R6", "indexed matches carry the alignment score", not problems and sites >= 3, facts={"sites": sites, "entry": stored[0], "problems": problems[:3]}, loc=repo.loc(mk), cases=sites, fact_key="score-unit" if problems else None,
              expected="score = conversion(adapter, length, matches, errors) with n - 2e for an indel-free entry; _lookup_with_n returns (adapter, errors, matches)",
              why=(f"{problems[0]}: the comparers/aligner score the same occurrence as matches - mismatches, so an indexed match with errors looks better than it is: -e 0.25 --no-indels -g ^ACGTACCTAA -g ^CCCCCCCCCC -a 'GGGGGGG$' -a 'AAAAAAA$' on ACGTACGAAATTTTTGGGGGGG removes the 5' adapter (score 8 against 7) with the index and the 3' adapter (7 against 6) with --no-index" if problems else ""))


def r4_regroup(repo, report):
    """with the index every given adapter is still searched exactly once (same construct as C09.R1)"""
    from ..core import Report
    from . import c09

    tmp = Report("C08", report.tier)
    c09.r1_best(repo, tmp)
    hit = [o for o in tmp.obligations if "_regroup_into_indexed_adapters" in o.construct or o.construct == "AdapterCutter adapter list"]
    for o in hit:
        report.ob("C08.R4", o.construct, None if o.state == "UNRECOGNISED" else o.state == "DISCHARGED", facts=o.facts, expected=o.expected, loc=o.loc, why=o.why, cases=o.cases)
    report.floor("C08.R4", "regrouping obligations", len(hit), 3)
