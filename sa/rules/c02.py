"""C02 - Admissible adapter occurrences are found (band / limit conditions without which matches are lost)."""
from __future__ import annotations

import ast

from ..absint import Const, Executor, NeedAtom, Obj, Tup, entails, explore, vkey
from ..core import Unrecognised
from ..lin import Lin
from ..repo import chain, params, src, strip_docstring, calls
from ..tables import Bool, Sign, check_table, SKIP
from .c01 import _locate_fragments


def run(repo, report, tier):
    report.rule("C02.R1", "column range contains the band: max_n >= min(n, m + k) and is only restricted when the read start may not be skipped; min_n <= max(0, n - m - k), only restricted when the read end may not be skipped; k = int(max_error_rate * m)",
                "occurrences are lost for particular read lengths (regression class of issues 485/665/784)")
    report.rule("C02.R2", "Ukkonen limit: initially last >= min(m, k + 1) and = m when the adapter start may be skipped; the shrink loop only passes over cells with cost > k, and last is re-extended by one while below m",
                "a cell within the error budget is cut off from the band")
    report.rule("C02.R3", "early exit: the only break of the column loop follows the update of the best match and requires cost == 0 and origin >= 0", "a later, better occurrence is missed or an inexact one ends the search")
    report.rule("C02.R4", "candidate scans: last-row candidates are considered iff the read end may be skipped; the last-column scan runs over first_i..last_filled_i with first_i = 0 iff the adapter end may be skipped, else m, and only if the last column was computed",
                "partial occurrences at the read end are never considered")
    report.rule("C02.R5", "rightmost 5' adapters search the reversed read with the reversed adapter and 3' flags (= C01.R1/R7 on RightmostFrontAdapter)", "the rightmost copy is not preferred")
    report.guard("C02.R1", "Aligner.locate band", r1_r2_band, repo, report)
    report.guard("C02.R3", "Aligner.locate early exit", r3_break, repo, report)
    report.guard("C02.R4", "Aligner.locate candidate scans", r4_scans, repo, report)
    report.guard("C02.R5", "RightmostFrontAdapter", r5_rightmost, repo, report)
    report.notes.append("Not decided: completeness of the search itself, leftmost/rightmost optimality, 'exact copies never survive' - statements about every read; the obligations are the band/limit conditions without which matches are lost for particular read lengths.")


def _prologue(repo):
    fn, col_loop, cell_loop, site1, scan_if, site2 = _locate_fragments(repo)
    body = strip_docstring(fn.body)
    pre = body[:body.index([s for s in body if any(x is col_loop for x in ast.walk(s))][0])]
    return fn, col_loop, cell_loop, site1, scan_if, site2, pre


def r1_r2_band(repo, report):
    fn, col_loop, cell_loop, site1, scan_if, site2, pre = _prologue(repo)
    # statements that define k, max_n, min_n, last
    names = ("k", "max_n", "min_n", "last")
    stmts = []
    for s in pre:
        tgt = None
        if isinstance(s, ast.AnnAssign):
            tgt = chain(s.target)
        elif isinstance(s, ast.Assign):
            tgt = chain(s.targets[0])
        if tgt in names:
            stmts.append(s)
        elif isinstance(s, ast.If) and any(isinstance(x, ast.Assign) and chain(x.targets[0]) in names for x in ast.walk(s)) and not any(isinstance(x, ast.For) for x in ast.walk(s)):
            stmts.append(s)
    env = {"self": Obj("self", nonnull=True), "m": Lin.atom("M"), "n": Lin.atom("N"), "max_error_rate": Obj("RATE")}
    rows = explore(repo, stmts, env, inline=False, integer=True, max_rows=5000)
    report.saw(function="Aligner.locate", file="src/cutadapt/_align.pyx", valuations=len(rows))
    K = Lin.atom("int(M*RATE)")
    bad1, bad2 = [], []
    for r in rows:
        k = r.env.get("k")
        if k is None or vkey(k) not in ("int(M*RATE)", "M*RATE"):  # <int>(max_error_rate * m): the C cast truncates
            bad1.append(("k", vkey(k)))
            continue
        K = Executor(None, {}).num(k)
        siq = r.valuation.get("truthy:self.start_in_query")
        eiq = r.valuation.get("truthy:self.stop_in_query")
        sir = r.valuation.get("truthy:self.start_in_reference")
        mx, mn, last = r.env["max_n"], r.env["min_n"], r.env["last"]
        # max_n
        if siq:
            if mx != Lin.atom("N"):
                bad1.append(("the read start may be skipped but the column range is restricted", vkey(mx)))
        else:
            # need max_n >= min(N, M + K)
            lo = None
            for cand in (Lin.atom("N"), Lin.atom("M") + K):
                if entails(r.valuation, ast.GtE(), mx, cand) is True and (entails(r.valuation, ast.LtE(), cand, Lin.atom("N")) is True and entails(r.valuation, ast.LtE(), cand, Lin.atom("M") + K) is True):
                    lo = cand
            if lo is None and not (entails(r.valuation, ast.GtE(), mx, Lin.atom("N")) is True):
                # direct: mx >= N or mx >= M+K with that being the min
                ge_n = entails(r.valuation, ast.GtE(), mx, Lin.atom("N"))
                ge_b = entails(r.valuation, ast.GtE(), mx, Lin.atom("M") + K)
                if not (ge_n is True or (ge_b is True)):
                    bad1.append(("max_n may be smaller than min(n, m + k)", vkey(mx), r.describe()["valuation"]))
        if eiq:
            if mn != Lin.k(0):
                bad1.append(("the read end may be skipped but the first column is restricted", vkey(mn)))
        else:
            le_0 = entails(r.valuation, ast.LtE(), mn, Lin.k(0))
            le_b = entails(r.valuation, ast.LtE(), mn, Lin.atom("N") - Lin.atom("M") - K)
            if not (le_0 is True or le_b is True):
                bad1.append(("min_n may be larger than max(0, n - m - k)", vkey(mn), r.describe()["valuation"]))
        # last
        if sir:
            if last != Lin.atom("M"):
                bad2.append(("the adapter start may be skipped but the band limit is not m", vkey(last)))
        else:
            ge_m = entails(r.valuation, ast.GtE(), last, Lin.atom("M"))
            ge_k = entails(r.valuation, ast.GtE(), last, K + 1)
            if not (ge_m is True or ge_k is True):
                bad2.append(("initial band limit may be below min(m, k + 1)", vkey(last), r.describe()["valuation"]))
    report.ob("C02.R1", "Aligner.locate: column range", not bad1 and len(rows) >= 8, facts={"paths": len(rows), "problems": [str(b)[:240] for b in bad1[:3]]},
              expected="k = int(max_error_rate * m); max_n = n unless the read start is fixed, then >= min(n, m + k); min_n = 0 unless the read end is fixed, then <= max(0, n - m - k)", loc=repo.loc(fn), cases=len(rows),
              why=str(bad1[0])[:240] if bad1 else "")
    report.ob("C02.R2", "Aligner.locate: initial band limit", not bad2, facts={"problems": [str(b)[:240] for b in bad2[:3]]}, expected="last = m if the adapter start may be skipped, else >= min(m, k + 1)", loc=repo.loc(fn), cases=len(rows),
              why=str(bad2[0])[:240] if bad2 else "")
    ok = src(col_loop.iter) == "range(min_n + 1, max_n + 1)" and src(cell_loop.iter) == "range(1, last + 1)"
    report.ob("C02.R1", "Aligner.locate: loops cover columns min_n+1..max_n and rows 1..last", ok, facts={"columns": src(col_loop.iter), "rows": src(cell_loop.iter)}, expected="for j in range(min_n + 1, max_n + 1): for i in range(1, last + 1)", loc=repo.loc(col_loop))
    # shrink / extend
    wl = [s for s in col_loop.body if isinstance(s, ast.While)]
    ok = len(wl) == 1
    facts = {}
    if ok:
        rows = explore(repo, [wl[0]], {"last": Lin.atom("LAST"), "column": Obj("COL", nonnull=True), "k": Lin.atom("K")}, inline=False)
        bad = []
        for r in rows:
            stepped = r.env["last"] != Lin.atom("LAST")
            over = entails(r.valuation, ast.Gt(), Lin.atom("COL[LAST].cost"), Lin.atom("K"))
            nonneg = entails(r.valuation, ast.GtE(), Lin.atom("LAST"), Lin.k(0))
            if stepped and not (over is True and nonneg is True):
                bad.append(("the band is shrunk past a cell whose cost is within k", r.describe()["valuation"]))
            if stepped and r.env["last"] != Lin.atom("LAST") - 1:
                bad.append(("step", vkey(r.env["last"])))
        facts["shrink_problems"] = [str(b)[:200] for b in bad]
        ok = not bad
    ext = [s for s in col_loop.body if isinstance(s, ast.If) and src(s.test).replace(" ", "") == "last<m"]
    ok2 = len(ext) == 1 and [src(x) for x in ext[0].body] == ["last += 1"]
    filled = [s for s in col_loop.body if isinstance(s, ast.Assign) and isinstance(s.targets[0], ast.Name) and src(s.value) == "last"]
    ok3 = len(filled) == 1 and col_loop.body.index(filled[0]) < col_loop.body.index(wl[0]) if wl else False
    report.ob("C02.R2", "Aligner.locate: band shrinks only over cells with cost > k and grows by one", ok and ok2 and ok3, facts=facts | {"extend": src(ext[0])[:60] if ext else None, "last_filled_i_recorded_before_shrinking": ok3},
              expected="while last >= 0 and column[last].cost > k: last -= 1; if last < m: last += 1; last_filled_i = last before shrinking", loc=repo.loc(wl[0]) if wl else repo.loc(col_loop))


def r3_break(repo, report):
    fn, col_loop, cell_loop, site1, scan_if, site2, pre = _prologue(repo)
    breaks = []
    for n in ast.walk(col_loop):
        if isinstance(n, ast.Break):
            # breaks of inner loops do not count
            p = getattr(n, "_parent", None)
            inner = False
            while p is not None and p is not col_loop:
                if isinstance(p, (ast.For, ast.While)):
                    inner = True
                p = getattr(p, "_parent", None)
            if not inner:
                breaks.append(n)
    ok = len(breaks) == 1
    facts = {"breaks": len(breaks)}
    if ok:
        b = breaks[0]
        guard = getattr(b, "_parent", None)
        facts["guard"] = src(guard.test) if isinstance(guard, ast.If) else None
        ok = isinstance(guard, ast.If)
        if ok:
            rows = explore(repo, [guard], {"cost": Lin.atom("COST"), "origin": Lin.atom("ORIGIN")}, inline=False, loop_mode="fork")
            roles = {"c": Sign(Lin.atom("COST")), "o": Sign(Lin.atom("ORIGIN"))}
            mism, n, _ = check_table(rows, roles, lambda rv: "break" if (rv["c"] == 0 and rv["o"] >= 0) else "fall", lambda r: r.exit[0])
            facts["mismatches"] = mism
            ok = not mism
            # the break follows the update of best: it sits inside the recording branch after the stores
            rec = getattr(guard, "_parent", None)
            stores = [s for s in getattr(rec, "body", []) if isinstance(s, ast.Assign) and (chain(s.targets[0]) or "").startswith("best.")]
            ok = ok and isinstance(rec, ast.If) and len(stores) >= 4 and rec.body.index(guard) > rec.body.index(stores[-1])
            facts["after_best_update"] = isinstance(rec, ast.If) and len(stores) >= 4
    report.ob("C02.R3", "Aligner.locate: early exit", ok, facts=facts, expected="one break in the column loop, under cost == 0 and origin >= 0, after best.* was updated", loc=repo.loc(breaks[0]) if breaks else repo.loc(col_loop),
              why="" if ok else "the search stops early on something that is not an exact match starting inside the read")


def r4_scans(repo, report):
    fn, col_loop, cell_loop, site1, scan_if, site2, pre = _prologue(repo)
    ok = src(site1.test) in ("stop_in_query", "self.stop_in_query")
    d = [s for s in pre if isinstance(s, ast.AnnAssign) and chain(s.target) == "stop_in_query"]
    ok = ok and (src(site1.test) != "stop_in_query" or (len(d) == 1 and src(d[0].value) == "self.stop_in_query"))
    # it is the else-branch of 'last < m': i.e. considered when the band reached the last row
    parent = getattr(site1, "_parent", None)
    ok = ok and isinstance(parent, ast.If) and src(parent.test).replace(" ", "") == "last<m"
    report.ob("C02.R4", "last-row candidates iff the read end may be skipped", ok, facts={"test": src(site1.test), "under": src(parent.test) if isinstance(parent, ast.If) else None}, expected="if last < m: ... elif stop_in_query: <consider column[m]>", loc=repo.loc(site1))
    body = scan_if.body
    fi = [s for s in body if isinstance(s, ast.Assign) and isinstance(s.targets[0], ast.Name) and isinstance(s.value, ast.IfExp)]
    ok = len(fi) == 1
    tbl = {}
    if ok:
        rows = explore(repo, [fi[0]], {"self": Obj("self", nonnull=True), "m": Lin.atom("M")}, inline=False)
        for r in rows:
            tbl[str(r.valuation.get("truthy:self.stop_in_reference"))] = vkey(r.env[fi[0].targets[0].id])
        ok = tbl == {"True": "0", "False": "M"}
    filled = [x.targets[0].id for x in col_loop.body if isinstance(x, ast.Assign) and isinstance(x.targets[0], ast.Name) and src(x.value) == "last"]
    fvar = fi[0].targets[0].id if fi else None
    ok2 = len(filled) == 1 and src(site2.iter) == f"reversed(range({fvar}, {filled[0]} + 1))"
    ok3 = src(scan_if.test).replace(" ", "") in ("max_n==n", "n==max_n")
    report.ob("C02.R4", "last-column scan", ok and ok2 and ok3, facts={"first_i": tbl, "iterates": src(site2.iter), "condition": src(scan_if.test)},
              expected="if max_n == n: first_i = 0 if stop_in_reference else m; for i in reversed(range(first_i, last_filled_i + 1))", loc=repo.loc(scan_if),
              why="" if (ok and ok2 and ok3) else "partial adapter occurrences at the end of the read are not (all) considered")
    # the candidate's values are those of cell i
    vals = {chain(s.targets[0]): src(s.value) for s in site2.body if isinstance(s, ast.Assign) and chain(s.targets[0]) in ("length", "cost", "score")}
    ok = vals == {"length": "i + min(column[i].origin, 0)", "cost": "column[i].cost", "score": "column[i].score"}
    report.ob("C02.R4", "last-column candidate values", ok, facts=vals, expected={"length": "i + min(column[i].origin, 0)", "cost": "column[i].cost", "score": "column[i].score"}, loc=repo.loc(site2))
    vals1 = {chain(s.targets[0]): src(s.value) for s in site1.body if isinstance(s, ast.Assign) and chain(s.targets[0]) in ("length", "cost", "score", "origin")}
    ok = vals1 == {"cost": "column[m].cost", "score": "column[m].score", "origin": "column[m].origin", "length": "m + min(origin, 0)"}
    report.ob("C02.R4", "last-row candidate values", ok, facts=vals1, expected="cost/score/origin of column[m]; length = m + min(origin, 0)", loc=repo.loc(site1))


def r5_rightmost(repo, report):
    from . import c01
    from ..core import Report

    tmp = Report("C01", report.tier)
    c01.r1_flags(repo, tmp)
    c01.r7_tuple(repo, tmp)
    n = 0
    for o in tmp.obligations:
        if "RightmostFrontAdapter" in o.construct:
            n += 1
            report.ob("C02.R5", o.construct, None if o.state == "UNRECOGNISED" else o.state == "DISCHARGED", facts=o.facts, expected=o.expected, loc=o.loc, why=o.why)
    report.floor("C02.R5", "RightmostFrontAdapter obligations", n, 3)
    from .c07 import _class_config

    cfg = _class_config(repo, "RightmostFrontAdapter", False)
    fouts = {o for v, o in cfg["finder"]}
    ok = len(fouts) == 1 and next(iter(fouts)).startswith("FINDER(SEQ[::-1]") and "back_adapter=True" in next(iter(fouts))
    report.ob("C02.R5", "RightmostFrontAdapter: prefilter built from the reversed adapter with 3' search sets", ok, facts={"finder": sorted(fouts)}, expected="_make_kmer_finder(self.sequence[::-1], back_adapter=True, ...)", loc=repo.loc(repo.cls("RightmostFrontAdapter").node))
