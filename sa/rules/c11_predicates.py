"""C11.R2 (criteria as decision tables) and C11.R3 (a filter consumes, redirects iff it has a writer)."""
from __future__ import annotations

import ast

from ..absint import Const, Obj, explore, vkey
from ..core import Unrecognised
from ..lin import Lin
from ..repo import chain, params, src, strip_docstring
from ..roles import call_rows, step_classes
from ..tables import Bool, Sign, check_table, SKIP


def _init_attr_from_param(repo, cls_name):
    """{param -> self attribute} assigned directly in __init__"""
    c, f = repo.method(cls_name, "__init__")
    out = {}
    if f is None:
        return out
    ps = params(f)[1:]
    for n in ast.walk(f):
        if isinstance(n, ast.Assign) and len(n.targets) == 1 and isinstance(n.value, ast.Name) and n.value.id in ps:
            ch = chain(n.targets[0])
            if ch and ch.startswith("self."):
                out[n.value.id] = ch
    return out


def _ret_bool(row):
    if row.exit[0] != "return":
        return f"exit:{row.exit[0]}"
    v = row.exit[1]
    if isinstance(v, Const) and isinstance(v.value, bool):
        return v.value
    return f"value:{vkey(v)}"


def _test_rows(repo, cls_name):
    cls = repo.cls(cls_name)
    c, f = repo.need_method(cls_name, "test")
    ps = params(f)
    if len(ps) != 3:
        raise Unrecognised(f"{cls_name}.test signature", repo.loc(f))
    env = {"self": Obj("self", nonnull=True), ps[1]: Obj("READ", nonnull=True), ps[2]: Obj("INFO", nonnull=True)}
    rows = explore(repo, strip_docstring(f.body), env, integer=False, inline=False, loop_mode="forbid")
    return cls, f, rows


def _n_count_calls(repo):
    """.count() calls in TooManyN.test (locals expanded, the record parameter written READ) that are not one of the
    case-insensitive forms"""
    from ..repo import expand

    c, f = repo.need_method("TooManyN", "test")
    ps = params(f)
    out = []
    for n in ast.walk(f):
        if isinstance(n, ast.Call) and isinstance(n.func, ast.Attribute) and n.func.attr == "count":
            e = expand(f, n)
            for x in ast.walk(e):
                if isinstance(x, ast.Name) and x.id == ps[1]:
                    x.id = "READ"
            t = src(e)
            if t not in N_COUNT_FORMS:
                out.append(t)
    return out


N_COUNT_FORMS = {"READ.sequence.lower().count('n')", "READ.sequence.upper().count('N')"}


def r2_criteria(repo, report):
    report.rule("C11.R2", "each predicate's test(), as a decision table over the sign of (measure - threshold), is: too short iff len < min; too long iff len > max; too many N iff n > count (fraction of the length when count < 1, never for the empty read; n counts N and n); expected errors iff ee > max; average error rate iff ee/len > max (never for the empty read); CASAVA iff characters 1..3 after the first blank are ':Y:'; trimmed/untrimmed iff info.matches is non-empty/empty",
                "boundary values (length equal to -m, N fraction exactly at the cut-off) are filtered although the documented criterion keeps them, or vice versa")
    preds = {c.name for c in repo.subclasses("Predicate")}
    report.floor("C11.R2", "predicate classes", len(preds), 8)
    done = set()

    def table(cname, roles, expected, what, constraint=None, extra_facts=None):
        cls, f, rows = _test_rows(repo, cname)
        report.saw(cls=cname, file=cls.module.relpath, function=f"{cname}.test", valuations=len(rows))
        try:
            mism, n, det = check_table(rows, roles, expected, _ret_bool, constraint=constraint)
        except Unrecognised as u:
            report.unrecognised("C11.R2", f"{cname}.test", u.what, repo.loc(f))
            return
        facts = {"rows": len(rows), "mismatches": mism}
        if extra_facts:
            facts.update(extra_facts)
        report.ob("C11.R2", f"{cname}.test", not mism, facts=facts, expected=what, loc=repo.loc(f), cases=n,
                  why=(f"on {mism[0]['inputs']} the code answers {mism[0]['code']}, the criterion says {mism[0]['expected']}" if mism else ""))
        done.add(cname)

    # length bounds
    for cname, better in (("TooShort", -1), ("TooLong", 1)):
        if cname not in preds:
            report.unrecognised("C11.R2", cname, "predicate class not found")
            continue
        attrs = list(_init_attr_from_param(repo, cname).values())
        if len(attrs) != 1:
            report.unrecognised("C11.R2", f"{cname}.__init__", f"expected one threshold attribute, found {attrs}")
            continue
        roles = {"d": Sign(Lin.atom("len(READ)") - Lin.atom(attrs[0]))}
        table(cname, roles, lambda rv, b=better: rv["d"] == b, f"filtered iff len(read) {'<' if better < 0 else '>'} threshold (strictly)")
    # N
    if "TooManyN" in preds:
        cls = repo.cls("TooManyN")
        c, init = repo.need_method("TooManyN", "__init__")
        ps = params(init)
        irows = explore(repo, strip_docstring(init.body), {"self": Obj("self", nonnull=True), ps[1]: Obj("COUNT")}, integer=False)
        stores = {}
        bad_init = []
        for r in irows:
            if r.exit[0] == "raise":
                continue
            eff = {e[1]: e[2] for e in r.effects if e[0] == "store"}
            flag = [k for k, v in eff.items() if v in ("True", "False")]
            thr = [k for k, v in eff.items() if v == "COUNT"]
            if len(flag) != 1 or len(thr) != 1:
                bad_init.append(eff)
                continue
            stores = {"flag": flag[0], "thr": thr[0]}
            s = r.valuation.get("sign:COUNT-1")
            if s is None or (eff[flag[0]] == "True") != (s < 0):
                bad_init.append({"valuation": r.describe()["valuation"], "stores": eff})
        report.ob("C11.R2", "TooManyN.__init__", not bad_init and bool(stores), facts={"problems": bad_init[:2], "attrs": stores}, expected="a value below 1 is a fraction (is_proportion iff count < 1), the cutoff is the value itself", loc=repo.loc(init), cases=len(irows))
        odd_counts = _n_count_calls(repo)
        if odd_counts:
            c_, f_ = repo.need_method("TooManyN", "test")
            report.ob("C11.R2", "TooManyN.test N count", False, facts={"count_calls": odd_counts}, expected="the number of N is counted case-insensitively: sequence.lower().count('n')", loc=repo.loc(f_),
                      why=f"the N count is built from {odd_counts[0]}: upper- and lower-case N are not counted together")
            stores = None
        if stores:
            cls, f, rows = _test_rows(repo, "TooManyN")
            # find the N count expression by role: the numerator / the compared count
            nkeys = set()
            for r in rows:
                for k in r.valuation:
                    for form in N_COUNT_FORMS:
                        if form in k:
                            nkeys.add(form)
            allk = " ".join(k for r in rows for k in r.valuation)
            if len(nkeys) != 1:
                report.ob("C11.R2", "TooManyN.test N count", False if "count(" in allk else None, facts={"atoms": sorted({k for r in rows for k in r.valuation})},
                          expected="the number of N is counted case-insensitively: sequence.lower().count('n')", loc=repo.loc(f), why="the N count is not case-insensitive")
            else:
                nk = nkeys.pop()
                report.ob("C11.R2", "TooManyN.test N count", True, facts={"count_expression": nk}, expected="case-insensitive count of N", loc=repo.loc(f))
                roles = {
                    "prop": Bool("truthy:" + stores["flag"]),
                    "empty": Sign(Lin.atom("len(READ)"), values=(0, 1)),
                    "ratio": Sign(Lin.atom(f"({nk}/len(READ))") - Lin.atom(stores["thr"])),
                    "count": Sign(Lin.atom(nk) - Lin.atom(stores["thr"])),
                }

                def exp(rv):
                    if rv["prop"]:
                        if rv["empty"] == 0:
                            return False
                        return rv["ratio"] > 0
                    return rv["count"] > 0

                # the fraction is the quotient n / len compared with the cutoff as given; the product form cutoff * len > n
                # is another floating-point computation: 0.29 * 100 = 28.999999999999996, so a read with exactly 29% N is
                # discarded although it has not MORE than the cutoff
                prod = sorted({k for r in rows for k in r.valuation if k.startswith("sign:") and nk in k and "len(READ)" in k and "*" in k and "/len(READ)" not in k})
                if prod:
                    report.ob("C11.R2", "TooManyN.test", False, facts={"compares": prod[:2]}, expected="n_count / len(read) > cutoff (and never for the empty read)", loc=repo.loc(f),
                              why="the fraction criterion is evaluated as a product with the read length: rounding of cutoff * len moves reads whose N fraction equals the cutoff")
                else:
                    table("TooManyN", roles, exp, "fraction mode: never for the empty read, else iff n/len > cutoff; count mode: iff n > cutoff")
    # expected errors (the call may carry the quality base as a second argument; its presence is C11.R2 'quality base')
    import re as _re

    def ee_term(cname):
        cls_, f_, rows_ = _test_rows(repo, cname)
        found = sorted({m_.group(0) for r in rows_ for k in r.valuation for m_ in _re.finditer(r"expected_errors\(READ\.qualities[^()]*\)", k)})
        return found[0] if len(found) == 1 else "expected_errors(READ.qualities)"

    if "TooManyExpectedErrors" in preds:
        attrs = [a for a in _init_attr_from_param(repo, "TooManyExpectedErrors").values() if "base" not in a]  # the quality base is a parameter, not the threshold
        if len(attrs) == 1:
            roles = {"d": Sign(Lin.atom(ee_term("TooManyExpectedErrors")) - Lin.atom(attrs[0]))}
            table("TooManyExpectedErrors", roles, lambda rv: rv["d"] > 0, "filtered iff expected_errors(qualities) > max (strictly)")
        else:
            report.unrecognised("C11.R2", "TooManyExpectedErrors.__init__", f"threshold attribute not found {attrs}")
    if "TooHighAverageErrorRate" in preds:
        attrs = [a for a in _init_attr_from_param(repo, "TooHighAverageErrorRate").values() if "base" not in a]  # the quality base is a parameter, not the threshold
        if len(attrs) == 1:
            roles = {"empty": Sign(Lin.atom("len(READ)"), values=(0, 1)),
                     "d": Sign(Lin.atom("(" + ee_term("TooHighAverageErrorRate") + "/len(READ))") - Lin.atom(attrs[0]))}
            table("TooHighAverageErrorRate", roles, lambda rv: False if rv["empty"] == 0 else rv["d"] > 0, "never for the empty read; else iff expected_errors/len > max (strictly)")
        else:
            report.unrecognised("C11.R2", "TooHighAverageErrorRate.__init__", f"threshold attribute not found {attrs}")
    if "CasavaFiltered" in preds:
        cls, f, rows = _test_rows(repo, "CasavaFiltered")
        atoms = sorted({k for r in rows for k in r.valuation})
        want = "eq:READ.name.partition(' ')[2][1:4]:':Y:'"
        ok = atoms == [want] and all((_ret_bool(r) is True) == (r.valuation[want] is True) for r in rows)
        report.ob("C11.R2", "CasavaFiltered.test", ok, facts={"atoms": atoms, "rows": [r.describe() for r in rows][:3]}, expected="filtered iff name.partition(' ')[2][1:4] == ':Y:'", loc=repo.loc(f), cases=len(rows))
        done.add("CasavaFiltered")
    for cname, want in (("IsTrimmed", True), ("IsUntrimmed", False)):
        if cname in preds:
            roles = {"m": Bool("truthy:INFO.matches")}
            table(cname, roles, lambda rv, w=want: rv["m"] == w, f"iff info.matches is {'non-empty' if want else 'empty'}")
    missing = sorted(preds - done)
    if missing:
        report.unrecognised("C11.R2", "predicates without a documented criterion", f"{missing}: new predicate classes have no decision table in the oracle")


def r3_first_wins(repo, report):
    report.rule("C11.R3", "a filter step whose predicate applies consumes the read (returns None), counts it once and writes it to its redirect writer iff it has one; otherwise it returns exactly the read(s) it received, in order",
                "a filtered read also reaches later filters or the main output, or a redirect file misses reads")
    n = 0
    for cls, fn, paired in step_classes(repo):
        if not repo.is_subclass(cls.name, "HasFilterStatistics") or repo.is_subclass(cls.name, "HasStatistics"):
            continue
        n += 1
        rows, ps = call_rows(repo, cls, fn)
        reads = [p for p in ps if p.startswith("read")]
        # roles: the predicate verdict atom (a call through a self attribute), writer is None
        verdicts = sorted({k for r in rows for k in r.valuation if k.startswith("truthy:self.") and "(" in k})
        writers = sorted({k for r in rows for k in r.valuation if k.startswith("isnone:self.")})
        if len(verdicts) != 1 or len(writers) != 1:
            report.unrecognised("C11.R3", f"{cls.name}.__call__", f"verdict atoms {verdicts}, writer atoms {writers}", repo.loc(fn))
            continue
        roles = {"hit": Bool(verdicts[0]), "nowriter": Bool(writers[0])}
        wattr = writers[0][len("isnone:"):]

        def outcome(r):
            v = r.exit[1]
            consumed = r.exit[0] == "fall" or (isinstance(v, Const) and v.value is None)
            wrote = [e[2] for e in r.effects if e[0] == "call" and e[1] == wattr + ".write"]
            ret = None if consumed else vkey(v)
            return (consumed, tuple(w[len(wattr + ".write"):] for w in wrote), ret)

        pass_val = reads[0] if len(reads) == 1 else "(" + ", ".join(reads) + ")"
        wargs = "(" + ", ".join(reads) + ")"

        def expected(rv):
            if rv["hit"]:
                return (True, () if rv["nowriter"] else (wargs,), None)
            return (False, (), pass_val)

        try:
            mism, nc, _ = check_table(rows, roles, expected, outcome)
        except Unrecognised as u:
            report.unrecognised("C11.R3", f"{cls.name}.__call__", u.what, repo.loc(fn))
            continue
        # the verdict is asked about the reads of this call, in order
        verdict_args = verdicts[0][verdicts[0].index("(") + 1:-1]
        ok_args = verdict_args.startswith(", ".join(reads))
        report.ob("C11.R3", f"{cls.name}.__call__", not mism and ok_args, facts={"mismatches": mism, "verdict": verdicts[0], "writer": wattr}, expected="hit: consume, write (reads in order) iff writer; miss: return the reads unchanged",
                  loc=repo.loc(fn), cases=nc, why=str(mism[0]) if mism else "")
    report.floor("C11.R3", "filter step classes", n, 2)
