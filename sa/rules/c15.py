"""C15 - Demultiplexing puts every read into the file of its adapter."""
from __future__ import annotations

import ast

from ..absint import Const, Obj, Tup, explore, vkey
from ..core import Unrecognised, Report
from ..repo import chain, params, src, strip_docstring, calls
from ..roles import call_rows
from ..tables import Bool, check_table, SKIP
from . import builder_rules


def run(repo, report, tier):
    report.rule("C15.R1", "a writer is opened for every adapter name (every name combination, plus the three 'unknown' families unless discarding) on every path; the untrimmed target is the explicit path, else the template with 'unknown', else none iff discarding; R1 paths come from the R1 template/option and R2 paths from the R2 ones",
                "a demultiplexed file is missing when it stays empty, or unmatched R2 reads go to the R1 file")
    report.rule("C15.R2", "routing key = name of the LAST match of R1 (info1), resp. (last of info1, last of info2) in that order; the read is written to the writer stored under that key; a linked adapter's front part carries the linked adapter's name",
                "with --times > 1 a read goes to the file of an earlier adapter; R1/R2 names are swapped in the combinatorial key")
    report.rule("C15.R3", "demultiplex mode from the output paths: {name} in -o (and -p) -> normal; {name1} and {name2} in both -> combinatorial; {name} in only one of -o/-p or mixed with {name1}/{name2} -> error; else off",
                "a template is silently treated as a literal file name")
    report.rule("C15.R4", "demultiplexers account for every read (= C04.R1 on the three demultiplexer classes)", "reads dropped by a demultiplexer are not counted")
    report.rule("C15.R5", "a demultiplexer is the only consuming step on its builder paths, excludes --discard-trimmed, and is wired to its own options", "a read is written twice or a template reaches the wrong parameter")
    report.guard("C15.R1", "_open_writers", r1_writers, repo, report)
    report.guard("C15.R1", "descriptor limit", r1_descriptor_limit, repo, report)
    report.guard("C15.R1", "reserved file name", r1_reserved_name, repo, report)
    report.guard("C15.R2", "demultiplexer __call__", r2_routing, repo, report)
    report.guard("C15.R3", "determine_demultiplex_mode", r3_mode, repo, report)
    report.guard("C15.R4", "accounting", r4_accounting, repo, report)
    report.guard("C15.R5", "builder", builder_rules.c15_r5, repo, report, tier)
    report.notes.append("Not decided: multiset equality of the demultiplexed files with the un-demultiplexed output (runtime).")


def _ow_rows(repo, cname):
    cls = repo.cls(cname)
    c, fn = repo.need_method(cname, "_open_writers")
    ps = params(fn)
    env = {}
    for p in ps:
        env[p] = Obj(p.upper(), nonnull=(p == "outfiles"))
    rows = explore(repo, strip_docstring(fn.body), env, inline=False, max_rows=4000)
    return cls, fn, ps, rows


def r1_writers(repo, report):
    # --- single-end ---
    cls, fn, ps, rows = _ow_rows(repo, "Demultiplexer")
    report.saw(function="Demultiplexer._open_writers", file=cls.module.relpath, paths=len(rows))
    bad = []
    for r in rows:
        if r.exit[0] != "return":
            continue
        names_nonempty = r.valuation.get("truthy:ADAPTER_NAMES")
        opens = [e for e in r.effects if e[0] == "store" and "open_record_writer" in e[2]]
        per_name = [e for e in opens if e[4]]
        if names_nonempty:
            if len(per_name) != 1 or per_name[0][1] != "dict()[item(ADAPTER_NAMES)]" or per_name[0][2] != "OUTFILES.open_record_writer(TEMPLATE.replace('{name}', item(ADAPTER_NAMES)))":
                bad.append(("per-name writer", [e[:3] for e in per_name]))
        ret = vkey(r.exit[1])
        disc = r.valuation.get("truthy:DISCARD_UNTRIMMED")
        expl = r.valuation.get("truthy:UNTRIMMED_OUTPUT")
        if disc:
            want = "None"
        elif expl:
            want = "OUTFILES.open_record_writer(UNTRIMMED_OUTPUT)"
        else:
            want = "OUTFILES.open_record_writer(TEMPLATE.replace('{name}', 'unknown'))"
        if not ret.endswith(f", {want})"):
            bad.append(("untrimmed writer", ret[-120:], want))
    # the per-name open must not depend on anything but the loop itself
    inner_atoms = sorted({k for r in rows for k in r.valuation if k not in ("truthy:ADAPTER_NAMES", "truthy:DISCARD_UNTRIMMED", "truthy:UNTRIMMED_OUTPUT")})
    if inner_atoms:
        bad.append(("writer creation depends on", inner_atoms))
    report.ob("C15.R1", "Demultiplexer._open_writers", not bad, facts={"paths": len(rows), "problems": [str(b)[:260] for b in bad[:3]]},
              expected="writers[name] = open(template with {name} -> name) for every name; untrimmed: None iff discarding, else explicit path, else template with 'unknown'", loc=repo.loc(fn), cases=len(rows), why=str(bad[0])[:200] if bad else "")
    # --- paired ---
    cls, fn, ps, rows = _ow_rows(repo, "PairedDemultiplexer")
    report.saw(function="PairedDemultiplexer._open_writers", paths=len(rows))
    bad = []
    for r in rows:
        if r.exit[0] != "return":
            continue
        per_name = [e for e in r.effects if e[0] == "store" and "open_record_writer" in e[2] and e[4]]
        if r.valuation.get("truthy:ADAPTER_NAMES"):
            want = "OUTFILES.open_record_writer(TEMPLATE1.replace('{name}', item(ADAPTER_NAMES)), TEMPLATE2.replace('{name}', item(ADAPTER_NAMES)))"
            if len(per_name) != 1 or per_name[0][2] != want:
                bad.append(("per-name writer", [e[2] for e in per_name]))
        ret = vkey(r.exit[1])
        if r.valuation.get("truthy:DISCARD_UNTRIMMED"):
            want = "None"
        else:
            p1 = "TEMPLATE1.replace('{name}', 'unknown')" if r.valuation.get("isnone:UNTRIMMED_OUTPUT") else "UNTRIMMED_OUTPUT"
            p2 = "TEMPLATE2.replace('{name}', 'unknown')" if r.valuation.get("isnone:UNTRIMMED_PAIRED_OUTPUT") else "UNTRIMMED_PAIRED_OUTPUT"
            want = f"OUTFILES.open_record_writer({p1}, {p2})"
        if not ret.endswith(f", {want})"):
            bad.append(("untrimmed writer", ret[-160:], want))
    report.ob("C15.R1", "PairedDemultiplexer._open_writers", not bad, facts={"paths": len(rows), "problems": [str(b)[:300] for b in bad[:3]]},
              expected="per name: open(template1 -> name, template2 -> name); untrimmed: (untrimmed_output or template1/unknown, untrimmed_paired_output or template2/unknown), None iff discarding", loc=repo.loc(fn), cases=len(rows), why=str(bad[0])[:240] if bad else "")
    # --- combinatorial ---
    cls = repo.cls("CombinatorialDemultiplexer")
    c, fn0 = repo.need_method("CombinatorialDemultiplexer", "_open_writers")
    ps = params(fn0)
    from ..localroles import rename

    # locals by role: the dictionary returned; the list added to the product in the main loop
    m_ = {}
    for n in ast.walk(fn0):
        if isinstance(n, ast.Return) and isinstance(n.value, ast.Name):
            m_[n.value.id] = "writers"
    for l in ast.walk(fn0):
        if isinstance(l, ast.For) and "itertools.product" in src(l.iter):
            xs = {n.id for n in ast.walk(l.iter) if isinstance(n, ast.Name) and n.id not in ps and n.id not in ("itertools", "list")}
            if len(xs) == 1:
                m_[xs.pop()] = "extra"
    fn = rename(fn0, m_)
    text = src(fn)
    loops = [n for n in ast.walk(fn) if isinstance(n, ast.For)]
    main = [l for l in loops if "itertools.product" in src(l.iter)]
    ok = len(main) == 1
    facts = {}
    if ok:
        lp = main[0]
        facts["iterates"] = src(lp.iter)[:120]
        ok = src(lp.iter).replace(" ", "") in (f"list(itertools.product({ps[0]},{ps[1]}))+extra", f"itertools.product({ps[0]},{ps[1]})+extra") or "itertools.product(" + f"{ps[0]}, {ps[1]}" + ")" in src(lp.iter) and "+ extra" in src(lp.iter)
        env = {p: Obj(p.upper(), nonnull=True) for p in ps}
        t1, t2 = lp.target.elts[0].id, lp.target.elts[1].id
        env[t1] = Obj("N1")
        env[t2] = Obj("N2")
        env["writers"] = Obj("WRITERS", nonnull=True)
        rows = explore(repo, lp.body, env, inline=False)
        T1, T2 = ps[2].upper(), ps[3].upper()
        bad = []
        for r in rows:
            f1 = "'unknown'" if r.valuation.get("isnone:N1") else "N1"
            f2 = "'unknown'" if r.valuation.get("isnone:N2") else "N2"
            want = f"OUTFILES.open_record_writer({T1}.replace('{{name1}}', {f1}).replace('{{name2}}', {f2}), {T2}.replace('{{name1}}', {f1}).replace('{{name2}}', {f2}))"
            st = [e for e in r.effects if e[0] == "store" and e[1] == "WRITERS[(N1, N2)]"]
            if len(st) != 1 or st[0][2] != want:
                bad.append(([e[1:3] for e in r.effects if e[0] == "store"], want))
        facts["problems"] = [str(b)[:300] for b in bad[:2]]
        ok = ok and not bad and len(rows) == 4
    # extras: unless discarding (None, None), (None, name2)..., (name1, None)...
    ex = [n for n in ast.walk(fn) if isinstance(n, ast.If) and src(n.test) == ps[4]]
    def extra_items(stmts):
        """kinds of pairs added to the extra list by these statements"""
        kinds = []
        for st in stmts:
            if not (isinstance(st, (ast.Assign, ast.AugAssign, ast.AnnAssign)) and st.value is not None and chain(st.targets[0] if isinstance(st, ast.Assign) else st.target) == "extra"):
                kinds.append("other:" + src(st)[:40])
                continue
            v = st.value
            if isinstance(st, ast.AugAssign) and not isinstance(st.op, ast.Add):
                kinds.append("other:" + src(st)[:40])
                continue
            if isinstance(st, ast.AugAssign) != bool(kinds):
                kinds.append("overwrites:" + src(st)[:40])  # the first statement must assign, every later one must add
                continue
            if isinstance(v, ast.List) and not v.elts:
                kinds.append("empty")
            elif isinstance(v, ast.List) and [src(e) for e in v.elts] == ["(None, None)"]:
                kinds.append("(None, None)")
            elif isinstance(v, ast.ListComp) and len(v.generators) == 1 and not v.generators[0].ifs and isinstance(v.generators[0].target, ast.Name) and isinstance(v.elt, ast.Tuple) and len(v.elt.elts) == 2:
                t = v.generators[0].target.id
                shape = tuple("x" if (isinstance(e, ast.Name) and e.id == t) else src(e) for e in v.elt.elts)
                kinds.append(f"{shape} over {src(v.generators[0].iter)}")
            else:
                kinds.append("other:" + src(v)[:40])
        return kinds

    ok_ex = len(ex) == 1 and extra_items(ex[0].body) == ["empty"] and sorted(extra_items(ex[0].orelse)) == sorted(["(None, None)", f"('None', 'x') over {ps[1]}", f"('x', 'None') over {ps[0]}"])
    facts["extra"] = {"discarding": extra_items(ex[0].body), "otherwise": extra_items(ex[0].orelse)} if len(ex) == 1 else None
    report.ob("C15.R1", "CombinatorialDemultiplexer._open_writers", ok and ok_ex, facts=facts, expected="one writer per (name1, name2) of the product plus, unless discarding, (None, None), (None, name2), (name1, None); None -> 'unknown'; {name1}/{name2} replaced in both templates", loc=repo.loc(fn))


def r2_routing(repo, report):
    for cname, infos in (("Demultiplexer", 1), ("PairedDemultiplexer", 1), ("CombinatorialDemultiplexer", 2)):
        cls = repo.cls(cname)
        c, fn = repo.need_method(cname, "__call__")
        rows, ps = call_rows(repo, cls, fn)
        report.saw(function=f"{cname}.__call__", paths=len(rows))
        info_names = [p for p in ps if p.startswith("info")]
        bad = []
        nw = 0
        for r in rows:
            for e in r.effects:
                if e[0] == "call" and e[1].endswith(".write") and "_writers[" in e[1]:
                    nw += 1
                    key = e[1][e[1].index("_writers[") + 9:-len("].write")]
                    if infos == 1:
                        want = f"{info_names[0]}.matches[-1].adapter.name"
                        if key != want:
                            bad.append({"key": key, "expected": want})
                    else:
                        i1, i2 = info_names[0], info_names[1]
                        k1 = f"{i1}.matches[-1].adapter.name" if r.valuation.get(f"truthy:{i1}.matches") else "None"
                        k2 = f"{i2}.matches[-1].adapter.name" if r.valuation.get(f"truthy:{i2}.matches") else "None"
                        if key != f"({k1}, {k2})":
                            bad.append({"key": key, "expected": f"({k1}, {k2})"})
        # a read (pair) is dropped only because no writer exists for its key (that is how --discard-untrimmed is implemented
        # for the combinatorial mode): never before the lookup
        if infos == 2:
            for r in rows:
                dropped = any(e[0] == "aug" and e[1].endswith("_filtered") for e in r.effects) and not any(e[0] == "call" and e[1].endswith(".write") for e in r.effects)
                if not dropped:
                    continue
                i1, i2 = info_names[0], info_names[1]
                k1 = f"{i1}.matches[-1].adapter.name" if r.valuation.get(f"truthy:{i1}.matches") else "None"
                k2 = f"{i2}.matches[-1].adapter.name" if r.valuation.get(f"truthy:{i2}.matches") else "None"
                miss = [k for k, v in r.valuation.items() if v is False and (k == f"in:({k1}, {k2}):self._writers" or k == f"haskey:self._writers[({k1}, {k2})]")]
                if not miss:
                    bad.append({"dropped_without_lookup_of": f"({k1}, {k2})", "path": r.describe()["valuation"]})
        report.ob("C15.R2", f"{cname}.__call__ routing key", not bad and nw >= 1, facts={"writes": nw, "problems": bad[:3]}, expected="writers[name of the last match (of R1; of R1 and R2)]", loc=repo.loc(fn), cases=len(rows),
                  why=str(bad[0]) if bad else "")
    # linked adapters: the front part carries the linked adapter's name; names given to the demultiplexer are the adapters' names
    c, init = repo.need_method("LinkedAdapter", "__init__")
    st = [src(n) for n in ast.walk(init) if isinstance(n, ast.Assign) and chain(n.targets[0]) == "self.front_adapter.name"]
    report.ob("C15.R2", "LinkedAdapter names its front part", st == ["self.front_adapter.name = self.name"], facts={"statement": st}, expected="self.front_adapter.name = self.name", loc=repo.loc(init))
    _factory_names(repo, report)
    fn = repo.func("cli", "make_pipeline_from_args")
    from ..localroles import _names_of

    d = {}
    for n in ast.walk(fn):
        if isinstance(n, (ast.Assign, ast.AnnAssign)) and n.value is not None:
            t = chain(n.targets[0]) if isinstance(n, ast.Assign) else chain(n.target)
            if t in ("adapter_names", "adapter_names2"):
                d[t] = "names of adapters" if _names_of("adapters")(n.value) else "names of adapters2" if _names_of("adapters2")(n.value) else src(n.value)
    ok = d == {"adapter_names": "names of adapters", "adapter_names2": "names of adapters2"}
    report.ob("C15.R2", "adapter name lists", ok, facts=d, expected={"adapter_names": "[a.name for a in adapters]", "adapter_names2": "[a.name for a in adapters2]"}, loc=repo.loc(fn))


def _factory_names(repo, report):
    """The name under which reads are routed is the adapter's: the name handed to the factory (the FASTA header of a
    file: record) when there is one, else the NAME= prefix of the specification (None lets the class generate a number).
    Explored: on every returning path of both factories the constructed adapter's name argument is exactly that."""
    n_ob = 0
    for fname in ("_make_not_linked_adapter", "_make_linked_adapter"):
        fn = repo.func("parser", fname)
        ps = params(fn)
        if "name" not in ps:
            raise Unrecognised(f"{fname}: no 'name' parameter", repo.loc(fn))

        def hook(ex, node, env):
            if chain(node.func) == "AdapterSpecification.parse":
                side = vkey(ex.ev(node.args[1], env)).strip("'") if len(node.args) > 1 else ""
                return Obj("SPEC" if side != "back" else "SPEC[back]", nonnull=True)
            return None

        rows = explore(repo, strip_docstring(fn.body), {p_: Obj(p_.upper()) for p_ in ps}, call_hook=hook, inline=False)
        report.saw(function=f"parser.{fname}", valuations=len(rows))
        bad = []
        k = 0
        for r in rows:
            if r.exit[0] != "return":
                continue
            k += 1
            got = str(builder_rules.term_args(repo, vkey(r.exit[1])).get("name"))
            given = r.valuation.get("isnone:NAME")
            want = {True: ("SPEC.name",), False: ("NAME",), None: ()}[given]
            if got not in want:
                bad.append({"name parameter is None": given, "name argument": got})
        n_ob += 1
        report.ob("C15.R2", f"{fname}: the adapter is named as the caller says, else as the specification says", not bad and k >= 2, facts={"returning_paths": k, "problems": bad[:2]}, loc=repo.loc(fn), cases=len(rows),
                  expected="name=<name parameter> when it is not None, else the specification's NAME= prefix (the first part's for a linked adapter)",
                  why=(f"with name parameter {'absent' if bad[0]['name parameter is None'] else 'given' if bad[0]['name parameter is None'] is False else 'not consulted'} the adapter is named {bad[0]['name argument']}: the output file of a {{name}} template is named after something else than the adapter's name (FASTA header / NAME= prefix)" if bad else ""))
    report.floor("C15.R2", "adapter factories", n_ob, 2)


def r3_mode(repo, report):
    fn = repo.func("cli", "determine_demultiplex_mode")
    ps = params(fn)
    O, P = ps[0].upper(), ps[1].upper()
    rows = explore(repo, strip_docstring(fn.body), {ps[0]: Obj(O), ps[1]: Obj(P)}, inline=False, max_rows=4000)
    report.saw(function="cli.determine_demultiplex_mode", valuations=len(rows))
    roles = {
        "o_none": Bool(f"isnone:{O}"), "p_none": Bool(f"isnone:{P}"),
        "o_name": Bool(f"in:'{{name}}':{O}"), "p_name": Bool(f"in:'{{name}}':{P}"),
        "o_n1": Bool(f"in:'{{name1}}':{O}"), "o_n2": Bool(f"in:'{{name2}}':{O}"),
        "p_n1": Bool(f"in:'{{name1}}':{P}"), "p_n2": Bool(f"in:'{{name2}}':{P}"),
    }

    def constraint(rv):
        # membership atoms of an absent path are meaningless
        if rv["o_none"] and (rv["o_name"] or rv["o_n1"] or rv["o_n2"]):
            return False
        if rv["p_none"] and (rv["p_name"] or rv["p_n1"] or rv["p_n2"]):
            return False
        return True

    def exp(rv):
        demux = (not rv["o_none"]) and rv["o_name"]
        if not rv["p_none"] and demux != rv["p_name"]:
            return "raise"
        comb = (not rv["o_none"]) and (not rv["p_none"]) and rv["o_n1"] and rv["o_n2"] and rv["p_n1"] and rv["p_n2"]
        if demux and comb:
            return "raise"
        return "'normal'" if demux else "'combinatorial'" if comb else "False"

    def outcome(r):
        if r.exit[0] == "raise":
            return "raise"
        return vkey(r.exit[1])

    mism, n, _ = check_table(rows, roles, exp, outcome, constraint=constraint)
    report.ob("C15.R3", "determine_demultiplex_mode", not mism, facts={"rows": len(rows), "mismatches": mism[:3]}, expected="normal / combinatorial / False / error as in the guide", loc=repo.loc(fn), cases=n,
              why=(f"{mism[0]['inputs']}: code {mism[0]['code']}, expected {mism[0]['expected']}" if mism else ""))


def r4_accounting(repo, report):
    from .c04 import r1_accounting

    tmp = Report("C04", report.tier)
    r1_accounting(repo, tmp)
    n = 0
    for o in tmp.obligations:
        if "Demultiplexer" in o.construct:
            n += 1
            report.ob("C15.R4", o.construct, None if o.state == "UNRECOGNISED" else o.state == "DISCHARGED", facts=o.facts, expected=o.expected, loc=o.loc, why=o.why, cases=o.cases, fact_key=o.fact_key)
    report.floor("C15.R4", "demultiplexer classes", n, 3)


def r1_descriptor_limit(repo, report):
    """One output file per adapter name needs more descriptors than the default soft limit allows for large barcode sets:
    every output file is opened through open_raise_limit, which on EMFILE ('too many open files' for this process)
    raises the soft limit and retries, and re-raises every other error."""
    fn = repo.func("files", "open_raise_limit")
    ps = params(fn)
    va = fn.args.vararg.arg if fn.args.vararg else None
    kw = fn.args.kwarg.arg if fn.args.kwarg else None

    tr = [n for n in ast.walk(fn) if isinstance(n, ast.Try)]
    ok = len(tr) == 1 and len(tr[0].handlers) == 1 and chain(tr[0].handlers[0].type) == "OSError" and bool(tr[0].handlers[0].name)
    facts = {}
    if ok:
        h = tr[0].handlers[0]

        def hook(ex, node, env_):
            cn = chain(node.func)
            if cn == ps[0]:
                star = [src(a_.value) for a_ in node.args if isinstance(a_, ast.Starred)]
                dstar = [src(k.value) for k in node.keywords if k.arg is None]
                ex.effect("call", "retry", f"{star}|{dstar}", node)
                return Obj("FILE2", nonnull=True)
            if cn == "raise_open_files_limit":
                ex.effect("call", "raise_limit", "", node)
                return Const(None)
            if cn and cn.startswith("logger."):
                return Const(None)
            return None

        from ..lin import Lin

        env = {h.name: Obj("E", nonnull=True), "E.errno": Lin.atom("ERRNO"), f"{h.name}.errno": Lin.atom("ERRNO"), "errno.EMFILE": Lin.atom("EMFILE"), "errno.ENFILE": Lin.atom("ENFILE")}
        rows = explore(repo, h.body, env, call_hook=hook, inline=False)
        tbl = {}
        for r in rows:
            is_emfile = r.valuation.get("sign:EMFILE-ERRNO")
            if is_emfile is None:
                is_emfile = r.valuation.get("sign:ERRNO-EMFILE")
            what = (r.exit[0], tuple(e[1] + ":" + e[2] for e in r.effects if e[0] == "call"))
            tbl.setdefault("EMFILE" if is_emfile == 0 else "other" if is_emfile in (-1, 1) else "untested", set()).add(what)
        facts = {k: sorted(map(str, v)) for k, v in tbl.items()}
        want_retry = ("fall", ("raise_limit:", f"retry:['{va}']|['{kw}']"))
        ok = tbl.get("EMFILE") == {want_retry} and tbl.get("other") == {("raise", ())} and "untested" not in tbl
    report.ob("C15.R1", "open_raise_limit: EMFILE -> raise the soft limit and retry", bool(ok), facts=facts,
              expected="except OSError as e: if e.errno == errno.EMFILE: raise_open_files_limit(n); f = func(*args, **kwargs) else: raise", loc=repo.loc(fn),
              why="" if ok else "running out of descriptors while opening one file per adapter is not recovered from (or another error is swallowed)")
    # every demultiplexing output goes through it
    c, fo = repo.need_method("FileOpener", "xopen")
    used = [x for x in calls(fo) if chain(x.func) == "open_raise_limit"]
    report.ob("C15.R1", "FileOpener.xopen opens through open_raise_limit", len(used) == 1, facts={"calls": [src(x)[:80] for x in used]}, expected="open_raise_limit(xopen.xopen, path, mode, ...)", loc=repo.loc(fo))


def r1_reserved_name(repo, report):
    """The demultiplexers write reads without adapter to <template with 'unknown'>.  An adapter named 'unknown' would
    get the same file: two writers on one file, one group of reads lost.  The builder must refuse that name before it
    constructs a demultiplexer (for {name1}/{name2} also among the R2 adapters)."""
    m = repo.func("cli", "make_pipeline_from_args")
    ctor = {}
    for x in ast.walk(m):
        if isinstance(x, ast.Call) and chain(x.func) in ("Demultiplexer", "PairedDemultiplexer", "CombinatorialDemultiplexer") and x.args:
            ctor[chain(x.func)] = x
    if len(ctor) != 3:
        raise Unrecognised(f"make_pipeline_from_args: demultiplexer constructions found: {sorted(ctor)}", repo.loc(m))
    n1 = {chain(c_.args[0]) for c_ in ctor.values()}
    n2 = chain(ctor["CombinatorialDemultiplexer"].args[1]) if len(ctor["CombinatorialDemultiplexer"].args) > 1 else None
    first = min(c_.lineno for c_ in ctor.values())
    guards = []
    for x in ast.walk(m):
        if isinstance(x, ast.If) and x.lineno < first and any(isinstance(r_, ast.Raise) and r_.exc is not None and "CommandLineError" in src(r_.exc) for r_ in x.body):
            if any(isinstance(k, ast.Constant) and k.value == "unknown" for k in ast.walk(x.test)):
                names = {k.id for k in ast.walk(x.test) if isinstance(k, ast.Name)}
                guards.append({"test": src(x.test)[:160], "covers_r1": bool(n1 & names) and len(n1) == 1, "covers_r2": n2 in names})
    ok = any(g["covers_r1"] and g["covers_r2"] for g in guards)
    # what the guard really tests, per demultiplexing mode (operator precedence, conditions on the mode): explored
    if ok:
        gnode = [x for x in ast.walk(m) if isinstance(x, ast.If) and x.lineno < first and any(isinstance(k, ast.Constant) and k.value == "unknown" for k in ast.walk(x.test))
                 and any(isinstance(r_, ast.Raise) for r_ in x.body)][0]
        modevars = sorted({k.id for k in ast.walk(gnode.test) if isinstance(k, ast.Name)} - n1 - {n2})
        env_ = {nm: Obj("MODE") for nm in modevars}
        env_[next(iter(n1))] = Obj("N1", nonnull=True)
        env_[n2] = Obj("N2", nonnull=True)
        try:
            rows_ = explore(repo, [gnode], env_, inline=False)
        except Unrecognised as u:
            rows_ = None
            report.unrecognised("C15.R1", "reserved-name guard per mode", u.what, repo.loc(gnode))
        if rows_ is not None:
            bad_ = []
            for r in rows_:
                if r.valuation.get("truthy:MODE") is not True:
                    continue
                comb = r.valuation.get("eq:MODE:'combinatorial'")
                tested = [k.split(":", 2)[2] for k in r.valuation if k.startswith("in:'unknown':")]
                need = ["N1", "N2"] if comb else ["N1"]
                if not tested or not all(any(nm in t for t in tested) for nm in need):
                    bad_.append({"mode": "combinatorial" if comb else "normal", "lists_tested": tested, "needed": need})
            guards.append({"per_mode_problems": bad_[:2]})
            ok = ok and not bad_
    report.ob("C15.R1", "builder refuses the adapter name 'unknown' when demultiplexing", ok, facts={"guards": guards[:2], "names_r1": sorted(n1), "names_r2": n2}, loc=repo.loc(m),
              expected="if <demultiplexing> and 'unknown' in <adapter names (R2 names too for {name1}/{name2})>: raise CommandLineError(...) before a demultiplexer is built",
              why="" if ok else "an adapter named 'unknown' shares the output file of the reads without adapter: the file is opened twice and one of the two groups is lost, although the report counts all reads as written")
