"""C10 - Read modifications are applied in the documented fixed order."""
from __future__ import annotations

import ast

from ..core import Unrecognised
from ..repo import chain, params, src, strip_docstring
from . import builder_rules

P = "C10"


def run(repo, report, tier):
    report.guard("C10.R1", "make_pipeline_from_args", builder_rules.c10, repo, report, tier)
    report.rule("C10.R3", "both pipelines apply modifiers then steps sequentially, each fed the previous result; the paired wrapper routes modifier i to read i",
                "a step would not see exactly the output of the previous one")
    report.guard("C10.R3", "pipelines", r3_sequential, repo, report)


def r3_sequential(repo, report):
    from .c04 import r5_loops
    # the step loop obligations are those of C04.R5 (same construct), re-reported under C10.R3
    from ..core import Report

    tmp = Report("C04", report.tier)
    r5_loops(repo, tmp)
    for o in tmp.obligations:
        if "step loop" in o.construct:
            report.ob("C10.R3", o.construct, o.state == "DISCHARGED" if o.state != "UNRECOGNISED" else None, facts=o.facts, expected=o.expected, loc=o.loc, why=o.why)
    # the paired wrapper
    from .c05 import wrapper_routing

    wrapper_routing(repo, report, "C10.R3")
    # PairedEndPipeline._add_modifiers keeps list order and wraps tuples (m1, m2) in that order
    cls, fn = repo.need_method("PairedEndPipeline", "_add_modifiers")
    loops = [n for n in ast.walk(fn) if isinstance(n, ast.For)]
    ok = len(loops) == 1 and chain(loops[0].iter) == params(fn)[1]
    c2, f2 = repo.need_method("PairedEndPipeline", "_add_two_single_modifiers")
    calls = [n for n in ast.walk(f2) if isinstance(n, ast.Call) and chain(n.func) == "PairedEndModifierWrapper"]
    p2 = params(f2)
    ok2 = len(calls) == 1 and [src(a) for a in calls[0].args] == p2[1:3]
    appends = [n for n in ast.walk(f2) if isinstance(n, ast.Call) and chain(n.func) == "self._modifiers.append"]
    report.ob("C10.R3", "PairedEndPipeline._add_modifiers", ok and ok2 and len(appends) == 1, facts={"iterates": src(loops[0].iter) if loops else None, "wrapper_args": [src(a) for a in calls[0].args] if calls else None},
              expected="for modifier in modifiers (in order): tuples become PairedEndModifierWrapper(modifier1, modifier2), appended", loc=repo.loc(fn))
