"""C10 - Read modifications are applied in the documented fixed order."""
from __future__ import annotations

import ast

from ..core import Unrecognised
from ..repo import chain, params, src, strip_docstring
from . import builder_rules

P = "C10"


def run(repo, report, tier):
    report.guard("C10.R1", "make_pipeline_from_args", builder_rules.c10, repo, report, tier)
    report.rule("C10.R3", "both pipelines apply modifiers then steps sequentially, each fed the previous result; the paired wrapper routes modifier i to read i",
                "a step would not see exactly the output of the previous one")
    report.guard("C10.R3", "pipelines", r3_sequential, repo, report)
    report.rule("C10.R5", "the renaming placeholders that record what earlier modifiers did ({cut_prefix}, {cut_suffix}, {adapter_name}, {match_sequence}) are filled by the same function of the modification info in the single-end and in the paired-end renamer",
                "a paired-end header shows another (or no) removed piece than the single-end header for the same read")
    report.guard("C10.R5", "renamers", r4_placeholders, repo, report)
    report.guard("C10.R5", "generated rename function", r5_generated_names, repo, report)
    report.rule("C10.R6", "a step 'sees exactly the output of the preceding steps': the modifiers that act on the read alone (-u/-U, -q, --nextseq-trim, --poly-a, --trim-n, --length, --length-tag, --strip-suffix, --zero-cap) do not consult the per-read bookkeeping (info) to decide whether or how to act",
                "a modifier skips reads depending on what an earlier step recorded (e.g. --length-tag keeps a stale length when no adapter matched)")
    report.guard("C10.R6", "read-only modifiers", r6_info_independent, repo, report)
    report.guard("C10.R7", "slice bounds of the cutting steps", r7_no_wraparound, repo, report)


def r3_sequential(repo, report):
    from .c04 import r5_loops
    # the step loop obligations are those of C04.R5 (same construct), re-reported under C10.R3
    from ..core import Report

    tmp = Report("C04", report.tier)
    r5_loops(repo, tmp)
    for o in tmp.obligations:
        if "step loop" in o.construct:
            report.ob("C10.R3", o.construct, o.state == "DISCHARGED" if o.state != "UNRECOGNISED" else None, facts=o.facts, expected=o.expected, loc=o.loc, why=o.why)
    # the paired wrapper
    from .c05 import wrapper_routing

    wrapper_routing(repo, report, "C10.R3")
    # PairedEndPipeline._add_modifiers keeps list order and wraps tuples (m1, m2) in that order
    cls, fn = repo.need_method("PairedEndPipeline", "_add_modifiers")
    loops = [n for n in ast.walk(fn) if isinstance(n, ast.For)]
    ok = len(loops) == 1 and chain(loops[0].iter) == params(fn)[1]
    c2, f2 = repo.need_method("PairedEndPipeline", "_add_two_single_modifiers")
    calls = [n for n in ast.walk(f2) if isinstance(n, ast.Call) and chain(n.func) == "PairedEndModifierWrapper"]
    p2 = params(f2)
    ok2 = len(calls) == 1 and [src(a) for a in calls[0].args] == p2[1:3]
    appends = [n for n in ast.walk(f2) if isinstance(n, ast.Call) and chain(n.func) == "self._modifiers.append"]
    report.ob("C10.R3", "PairedEndPipeline._add_modifiers", ok and ok2 and len(appends) == 1, facts={"iterates": src(loops[0].iter) if loops else None, "wrapper_args": [src(a) for a in calls[0].args] if calls else None},
              expected="for modifier in modifiers (in order): tuples become PairedEndModifierWrapper(modifier1, modifier2), appended", loc=repo.loc(fn))


def r4_placeholders(repo, report):
    import ast as _ast

    from .. import constfold
    from ..absint import Obj, explore, vkey
    from ..repo import chain, params, src, strip_docstring

    c, comp = repo.need_method("Renamer", "compile_rename_function")
    tables = [n for n in _ast.walk(comp) if isinstance(n, _ast.Assign) and isinstance(n.value, _ast.Dict) and len(n.value.keys) >= 4]
    if len(tables) != 1:
        raise Unrecognised("Renamer.compile_rename_function: placeholder code table not found", repo.loc(comp))
    code = constfold.fold(tables[0].value)
    c2, ren = repo.need_method("PairedEndRenamer", "_rename")
    loops = [n for n in _ast.walk(ren) if isinstance(n, _ast.For) and isinstance(n.target, _ast.Tuple) and any(isinstance(x, _ast.Call) and chain(x.func) == "dict" for x in _ast.walk(n))]
    if len(loops) != 1:
        raise Unrecognised("PairedEndRenamer._rename: per-read loop building the placeholder values not found", repo.loc(ren))
    lp = loops[0]
    names = [e.id for e in lp.target.elts if isinstance(e, _ast.Name)]
    # which loop variable is the modification info: the one whose .matches / .cut_prefix are read
    infov = [nm for nm in names if any(isinstance(x, _ast.Attribute) and isinstance(x.value, _ast.Name) and x.value.id == nm and x.attr in ("matches", "cut_prefix", "cut_suffix") for x in _ast.walk(lp))]
    if len(infov) != 1:
        raise Unrecognised("PairedEndRenamer._rename: info variable of the loop not identified", repo.loc(lp))
    captured = []

    def hook(ex, node, env):
        if chain(node.func) == "dict" and node.keywords and not node.args:
            captured.append((dict(ex.val), {k.arg: vkey(ex.ev(k.value, env)) for k in node.keywords if k.arg}))
            return Obj("VALUES", nonnull=True)
        return None

    env = {nm: Obj(nm.upper(), nonnull=True) for nm in names}
    env[infov[0]] = Obj("INFO", nonnull=True)
    env["self"] = Obj("self", nonnull=True)
    prow = explore(repo, lp.body, env, call_hook=hook, inline=False, loop_mode="forbid")
    paired = []
    for r in prow:
        # the values captured on this completed path: the last capture made under a valuation contained in the row's
        cands = [kv for v, kv in captured if all(r.valuation.get(k) == x for k, x in v.items())]
        if cands:
            paired.append((r.valuation, cands[-1]))
    bad = []
    n = 0
    for key in ("cut_prefix", "cut_suffix", "adapter_name", "match_sequence"):
        if key not in code or not all(key in kv for _, kv in paired):
            bad.append((key, "placeholder missing in one of the renamers"))
            continue
        expr = _ast.parse(code[key], mode="eval").body
        from ..normalise import Normaliser

        expr = Normaliser().visit(expr)
        _ast.fix_missing_locations(expr)
        srow = explore(repo, [_ast.Return(value=expr)], {"info": Obj("INFO", nonnull=True), "self": Obj("self", nonnull=True)}, inline=False)
        for val, kv in paired:
            for sr in srow:
                if all(val.get(k, x) == x for k, x in sr.valuation.items()):
                    n += 1
                    want = vkey(sr.exit[1])
                    if kv[key] != want:
                        bad.append((key, {"paired": kv[key], "single": want, "when": {k: v for k, v in sr.valuation.items()}}))
    # the three placeholders that stand for the read's name are taken from the read the renamer is handed - the output
    # of the steps before it (--length-tag, --strip-suffix, prefix/suffix) - not from the record as it was read
    nbad = []
    for key in ("header", "id", "comment"):
        if key not in code:
            nbad.append(f"{{{key}}} has no entry in the code table")
            continue
        e_ = _ast.parse(code[key], mode="eval").body
        roots = {x.id for x in _ast.walk(e_) if isinstance(x, _ast.Name)}
        if "info" in roots or (key == "header" and code[key].replace(" ", "") != "read.name") or (key != "header" and not roots <= {"id_", "comment"}):
            nbad.append(f"{{{key}}} is computed as {code[key]}")
    parsed = [x.value for x in _ast.walk(comp) if isinstance(x, _ast.Constant) and isinstance(x.value, str) and "parse_name(" in x.value]
    if not parsed or any("parse_name(read.name)" not in x.replace(" ", "") for x in parsed):
        nbad.append(f"id_/comment are parsed from {parsed}")
    report.ob("C10.R5", "Renamer: {header}, {id}, {comment} are those of the read at hand", not nbad, facts={"header": code.get("header"), "id": code.get("id"), "comment": code.get("comment"), "parsed_from": parsed, "problems": nbad},
              loc=repo.loc(comp), expected="header = read.name; id_, comment = self.parse_name(read.name)",
              why=(f"{nbad[0]}: the renaming step no longer sees the name produced by the earlier steps (--length-tag, --strip-suffix run before --rename)" if nbad else ""))
    report.ob("C10.R5", "PairedEndRenamer fills the info placeholders like Renamer", not bad and n >= 8, facts={"compared": n, "problems": [str(b)[:260] for b in bad[:3]]},
              expected="cut_prefix / cut_suffix: the recorded piece or ''; adapter_name: name of the last match or 'no_adapter'; match_sequence: of the last match or ''", loc=repo.loc(lp), cases=n,
              why=str(bad[0])[:220] if bad else "")


# modifiers whose documented effect is a function of the read they are handed (and their own options)
_READ_ONLY_MODIFIERS = ("UnconditionalCutter", "QualityTrimmer", "NextseqQualityTrimmer", "PolyATrimmer", "NEndTrimmer", "Shortener", "LengthTagModifier", "SuffixRemover", "ZeroCapper")


def r6_info_independent(repo, report):
    n = 0
    for cname in _READ_ONLY_MODIFIERS:
        cls = repo.classes.get(cname) if hasattr(repo, "classes") else None
        if cls is None or "__call__" not in cls.methods:
            continue
        fn = cls.methods["__call__"]
        ps = params(fn)
        infos = [p_ for p_ in ps[2:]]
        reads = sorted({f"{x.value.id}.{x.attr}" for x in ast.walk(fn) if isinstance(x, ast.Attribute) and isinstance(x.value, ast.Name) and x.value.id in infos and isinstance(x.ctx, ast.Load)})
        passed = sorted({src(c_) for c_ in ast.walk(fn) if isinstance(c_, ast.Call) and any(isinstance(a, ast.Name) and a.id in infos for a in list(c_.args) + [k.value for k in c_.keywords])})
        tested = sorted({src(t) for t in ast.walk(fn) if isinstance(t, (ast.If, ast.IfExp, ast.While)) for x in ast.walk(t.test) if isinstance(x, ast.Name) and x.id in infos})
        n += 1
        ok = not reads and not passed and not tested
        report.ob("C10.R6", f"{cname}.__call__ acts on the read alone", ok, facts={"info_attributes_read": reads, "info_passed_to": passed}, loc=repo.loc(fn),
                  expected="no attribute of the ModificationInfo is read (recording what was cut, e.g. info.cut_prefix = ..., is fine)",
                  why="" if ok else f"{cname} consults {(reads + passed + tested)[0]}: whether or how it acts depends on an earlier step's bookkeeping, not on the read it receives")
    report.floor("C10.R6", "read-only modifiers", n, 9)


def r7_no_wraparound(repo, report):
    """A step that removes bases hands  read[a:b]  to the next step. A bound computed as  len(read) + k  /  len(read) - k  turns
    negative on a read shorter than k - which an earlier step can produce - and a negative bound counts from the other end:
    the slice then keeps bases the step documents to remove. The bounds in use are configured numbers used directly (a
    slice clamps them itself) and indices returned by the trimming functions; arithmetic on the length must be clamped."""
    from ..repo import expand
    n = 0
    for cname in _READ_ONLY_MODIFIERS:
        cls = repo.classes.get(cname) if hasattr(repo, "classes") else None
        if cls is None or "__call__" not in cls.methods:
            continue
        fn = cls.methods["__call__"]
        ps = params(fn)
        rec = ps[1] if len(ps) > 1 else None
        bases = {rec, f"{rec}.sequence", f"{rec}.qualities"}
        bad = []
        k = 0
        for sub in ast.walk(fn):
            if not (isinstance(sub, ast.Subscript) and isinstance(sub.slice, ast.Slice) and src(sub.value) in bases):
                continue
            for bound in (sub.slice.lower, sub.slice.upper):
                if bound is None:
                    continue
                k += 1
                e = expand(fn, bound)
                for b in ast.walk(e):
                    if isinstance(b, ast.BinOp) and isinstance(b.op, (ast.Add, ast.Sub)) and any(isinstance(c_, ast.Call) and src(c_.func) == "len" for c_ in ast.walk(b)):
                        clamped = any(isinstance(c_, ast.Call) and src(c_.func) == "max" and any(x is b for a in c_.args for x in ast.walk(a)) and any(isinstance(a, ast.Constant) and a.value == 0 for a in c_.args) for c_ in ast.walk(e))
                        if not clamped:
                            bad.append(f"{src(sub)}: bound {src(e)}")
        n += 1
        report.ob("C10.R7", f"{cname}.__call__: no slice bound can wrap around", not bad, facts={"bounds": k, "problems": bad[:3]}, loc=repo.loc(fn), cases=k,
                  expected="bounds are configured numbers, indices returned by a trimming function, or length arithmetic inside max(0, ...)",
                  why=(f"{bad[0]} is negative for a read shorter than the amount to remove (an earlier step may have shortened it): the slice then counts from the other end and keeps bases that this step removes" if bad else ""))
    report.floor("C10.R7", "cutting steps", n, 9)


def r5_generated_names(repo, report):
    """Renamer.compile_rename_function writes the rename function as text: one expression per placeholder, plus helper
    lines that are emitted only for some templates.  Every name a placeholder's expression reads must be a parameter of
    the generated function or be assigned by a helper line that is emitted whenever that placeholder is used - otherwise
    the template is accepted and the first read raises NameError."""
    c, fn = repo.need_method("Renamer", "compile_rename_function")
    table = None
    for n in ast.walk(fn):
        if isinstance(n, ast.Assign) and isinstance(n.value, ast.Dict) and n.value.keys and all(isinstance(k, ast.Constant) and isinstance(k.value, str) for k in n.value.keys) and all(isinstance(v, ast.Constant) and isinstance(v.value, str) for v in n.value.values):
            table = {k.value: v.value for k, v in zip(n.value.keys, n.value.values)}
    header = [x.value for x in ast.walk(fn) if isinstance(x, ast.Constant) and isinstance(x.value, str) and x.value.startswith("def ")]
    if table is None or len(header) != 1:
        raise Unrecognised("compile_rename_function: literal code table / 'def ...' line not found", repo.loc(fn))
    try:
        gparams = {a.arg for a in ast.parse(header[0] + "\n  pass").body[0].args.args}
    except SyntaxError:
        raise Unrecognised("compile_rename_function: generated header does not parse", repo.loc(fn))
    # helper lines: lines.append("<assignment>") directly under `if "<p>" in placeholders or ...`
    helpers = []  # (names bound, placeholders whose use triggers the line | None for unconditional)
    for n in ast.walk(fn):
        if isinstance(n, ast.Call) and isinstance(n.func, ast.Attribute) and n.func.attr == "append" and n.args and isinstance(n.args[0], ast.Constant) and isinstance(n.args[0].value, str):
            text = n.args[0].value.strip()
            try:
                st = ast.parse(text).body[0]
            except (SyntaxError, IndexError):
                continue
            if not isinstance(st, ast.Assign):
                continue
            bound = {x.id for t in st.targets for x in ast.walk(t) if isinstance(x, ast.Name)}
            cond = None
            par = getattr(n, "_parent", None)
            while par is not None and par is not fn:
                if isinstance(par, ast.If):
                    trig = {x.left.value for x in ast.walk(par.test) if isinstance(x, ast.Compare) and len(x.ops) == 1 and isinstance(x.ops[0], ast.In) and isinstance(x.left, ast.Constant) and isinstance(x.left.value, str)}
                    only_or = not any(isinstance(x, ast.BoolOp) and isinstance(x.op, ast.And) for x in ast.walk(par.test)) and not any(isinstance(x, ast.UnaryOp) and isinstance(x.op, ast.Not) for x in ast.walk(par.test)) and not any(isinstance(x, ast.Compare) and isinstance(x.ops[0], ast.NotIn) for x in ast.walk(par.test))
                    cond = trig if only_or else set()
                    break
                par = getattr(par, "_parent", None)
            helpers.append((bound, cond))
    import builtins
    bad = []
    for ph, expr in sorted(table.items()):
        try:
            free = {x.id for x in ast.walk(ast.parse(expr, mode="eval")) if isinstance(x, ast.Name)}
        except SyntaxError:
            bad.append({"placeholder": ph, "problem": "expression does not parse"})
            continue
        for name in sorted(free - gparams):
            if hasattr(builtins, name):
                continue
            if not any(name in b and (cnd is None or ph in cnd) for b, cnd in helpers):
                bad.append({"placeholder": ph, "reads": name, "defined_when": [sorted(cnd) if cnd is not None else "always" for b, cnd in helpers if name in b]})
    report.ob("C10.R5", "generated rename function: every name a placeholder reads is defined", not bad and len(table) >= 6, facts={"placeholders": sorted(table), "parameters": sorted(gparams), "problems": bad[:3]}, loc=repo.loc(fn),
              expected="a placeholder's expression reads only parameters of the generated function and names assigned by a helper line emitted whenever the placeholder is used",
              why=(f"{{{bad[0]['placeholder']}}} reads '{bad[0].get('reads')}', which is assigned only when {bad[0].get('defined_when')} is in the template: a template with {{{bad[0]['placeholder']}}} alone raises NameError on the first read" if bad else ""))
