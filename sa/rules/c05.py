"""C05 - Paired-end outputs stay synchronized; pairs are filtered as a unit."""
from __future__ import annotations

import ast
import re

from ..absint import Const, Obj, Tup, explore, vkey
from ..core import Unrecognised
from ..lin import Lin
from ..repo import chain, params, src, strip_docstring, walk_no_nested, calls, call_name
from ..roles import call_rows, step_classes
from ..tables import Bool, Sign, check_table, SKIP
from . import builder_rules


def run(repo, report, tier):
    report.rule("C05.R1", "the four pair-filter combinators are p1 or p2 / p1 and p2 / p1 / p2, and the constructor's dispatch gives one-sided bounds priority over the mode and maps any/both/first to them; other modes raise",
                "a pair is discarded although only one mate (or the wrong mate) meets the criterion, or kept although the documented mode discards it")
    report.rule("C05.R2", "index consistency: a callee carrying suffix 1 (predicate1, _modifier1, adapter_cutter1) is applied to suffix-1 arguments and feeds result position 0; same for 2; parallel literal lists given to zip agree position by position",
                "R1's criterion or modifier is applied to R2 (or to R1's info), so the mates get out of step")
    report.rule("C05.R3", "every write in a paired step passes exactly (read1, read2) of the current call in that order; every return is None or the pair in order; the single-end wrapper returns (result, read2) iff the wrapped step returned a record",
                "output files receive the mates swapped or a pair only half")
    report.rule("C05.R4", "exactly the untrimmed filters receive 'both' when adapters are given for one side only (and an untrimmed option is used); all other pair filters receive the configured mode (default any)",
                "with -a only, --discard-untrimmed discards every pair; or --pair-filter is ignored by a filter")
    report.rule("C05.R5", "LEN:LEN2 -> predicates: a missing side gives no predicate; a single value in paired mode applies to both mates",
                "a one-sided length bound looks at the wrong mate")
    report.rule("C05.R6", "paired adapters: the adapter pairs are the zip of the two lists; a pair is chosen only when both mates match; selection is higher summed score, then fewer summed errors, first wins; without a choice both reads are returned untouched",
                "with --pair-adapters only one mate is trimmed, or adapters of different rank are combined")
    report.guard("C05.R1", "PairedEndFilter", r1_pair_filter, repo, report)
    report.guard("C05.R2", "paired classes", r2_index_consistency, repo, report)
    report.guard("C05.R3", "paired steps", r3_writers, repo, report)
    report.guard("C05.R4", "make_pipeline_from_args", builder_rules.c05_r4_override, repo, report, tier)
    report.guard("C05.R5", "make_pipeline_from_args", builder_rules.c05_r5_lengths, repo, report, tier)
    report.guard("C05.R6", "PairedAdapterCutter", r6_pair_adapters, repo, report)
    report.guard("C05.R3", "PairedEndRenamer", r3_renamer_keeps_ids, repo, report)


# ---------------------------------------------------------------------------
def r1_pair_filter(repo, report):
    cls = repo.cls("PairedEndFilter")
    c, init = repo.need_method("PairedEndFilter", "__init__")
    ps = params(init)
    # predicate parameters by role: the two parameters stored on self that are later called with .test
    pnames = [p for p in ps if p.startswith("predicate")]
    if len(pnames) != 2:
        raise Unrecognised("PairedEndFilter.__init__: expected two predicate parameters", repo.loc(init))
    # combinator functions: methods with 5 params returning a boolean combination of two .test calls
    comb = {}
    for name, m in cls.methods.items():
        mp = params(m)
        if len(mp) == 5 and not name.startswith("__"):
            env = {"self": Obj("self", nonnull=True)}
            for p in mp[1:]:
                env[p] = Obj(p.upper())
            rows = explore(repo, strip_docstring(m.body), env, inline=False)
            atoms = sorted({k for r in rows for k in r.valuation})
            comb[name] = (m, rows, atoms, mp)
    report.floor("C05.R1", "pair-filter combinators", len(comb), 4)
    sem = {}
    for name, (m, rows, atoms, mp) in sorted(comb.items()):
        a1 = f"truthy:self.predicate1.test({mp[1].upper()}, {mp[3].upper()})"
        a2 = f"truthy:self.predicate2.test({mp[2].upper()}, {mp[4].upper()})"
        unknown = [a for a in atoms if a not in (a1, a2)]
        if unknown:
            report.ob("C05.R1", f"PairedEndFilter.{name}", False, facts={"atoms": atoms}, expected=f"only predicate1.test(read1, info1) and predicate2.test(read2, info2)", loc=repo.loc(m),
                      why=f"a predicate is asked about the wrong read/info: {unknown}", fact_key="wrong-args")
            continue
        # truth table over (p1, p2)
        tt = {}
        for p1 in (False, True):
            for p2 in (False, True):
                total = {a1: p1, a2: p2}
                outs = set()
                for r in rows:
                    if all(total.get(k, v) == v for k, v in r.valuation.items()):
                        v = r.exit[1]
                        if isinstance(v, Const):
                            outs.add(v.value)
                        elif "truthy:" + vkey(v) == a1:
                            outs.add(p1)
                        elif "truthy:" + vkey(v) == a2:
                            outs.add(p2)
                        else:
                            outs.add(vkey(v))
                if len(outs) != 1:
                    raise Unrecognised(f"{name}: ambiguous result for p1={p1}, p2={p2}: {outs}")
                tt[(p1, p2)] = outs.pop()
        kind = None
        for k, f in (("any", lambda a, b: a or b), ("both", lambda a, b: a and b), ("first", lambda a, b: a), ("second", lambda a, b: b)):
            if all(tt[(a, b)] == f(a, b) for a in (False, True) for b in (False, True)):
                kind = k
        sem[name] = kind
        report.saw(function=f"PairedEndFilter.{name}", valuations=4)
        report.ob("C05.R1", f"PairedEndFilter.{name}", kind is not None, facts={"truth_table": {f"{a},{b}": v for (a, b), v in tt.items()}, "is": kind}, expected="one of: p1 or p2, p1 and p2, p1, p2", loc=repo.loc(m), cases=4)
    have = set(sem.values())
    report.ob("C05.R1", "PairedEndFilter combinators cover any/both/first/second", have >= {"any", "both", "first", "second"}, facts={"semantics": sem}, expected=["any", "both", "first", "second"], loc=repo.loc(cls.node))
    # dispatch in __init__
    env = {"self": Obj("self", cls="PairedEndFilter", nonnull=True)}
    for p in ps[1:]:
        env[p] = Obj(p.upper())
    rows = explore(repo, strip_docstring(init.body), env, inline=False)
    p1, p2 = pnames
    mode_param = [p for p in ps if "mode" in p]
    if len(mode_param) != 1:
        raise Unrecognised("PairedEndFilter.__init__: mode parameter not found")
    M = mode_param[0].upper()
    roles = {"p1none": Bool(f"isnone:{p1.upper()}"), "p2none": Bool(f"isnone:{p2.upper()}"),
             "any": Bool(f"eq:{M}:'any'"), "both": Bool(f"eq:{M}:'both'"), "first": Bool(f"eq:{M}:'first'")}

    def constraint(rv):
        return sum([rv["any"], rv["both"], rv["first"]]) <= 1

    def outcome(r):
        if r.exit[0] == "raise":
            return "raise"
        st = [e for e in r.effects if e[0] == "store" and e[1].endswith("._is_filtered")]
        if len(st) != 1:
            return f"stores:{len(st)}"
        name = st[0][2].split(".")[-1]
        return sem.get(name, name)

    def expected(rv):
        if not (rv["any"] or rv["both"] or rv["first"]):
            return "raise"
        if rv["p2none"]:
            return "first"
        if rv["p1none"]:
            return "second"
        return "any" if rv["any"] else "both" if rv["both"] else "first"

    # membership test `mode not in (...)` unfolds into eq atoms by the executor
    mism, n, _ = check_table(rows, roles, expected, outcome, constraint=constraint)
    report.saw(function="PairedEndFilter.__init__", valuations=len(rows))
    report.ob("C05.R1", "PairedEndFilter.__init__ dispatch", not mism, facts={"mismatches": mism[:4], "rows": len(rows)},
              expected="illegal mode raises; predicate2 None -> first; predicate1 None -> second; else by mode", loc=repo.loc(init), cases=n,
              why=str(mism[0]) if mism else "")
    # __call__ asks the installed combinator about (read1, read2, info1, info2) in order
    c2, call = repo.need_method("PairedEndFilter", "__call__")
    cp = params(call)
    cs = [c for c in calls(call) if chain(c.func) == "self._is_filtered"]
    ok = len(cs) == 1 and [src(a) for a in cs[0].args] == cp[1:5]
    report.ob("C05.R1", "PairedEndFilter.__call__ verdict arguments", ok, facts={"call": src(cs[0]) if cs else None}, expected=f"self._is_filtered({', '.join(cp[1:5])})", loc=repo.loc(call))


# ---------------------------------------------------------------------------
SUFFIX_RE = re.compile(r"^(?:[a-z_]*?)([12])$")


def _suffix(name: str):
    """'read1' -> 1, 'info2' -> 2, 'self._modifier1' -> 1, 'r1_matches' -> 1; names without mate index -> None"""
    base = name.split(".")[-1]
    m = re.search(r"(?:^|_)r([12])(?:_|$)", base)
    if m:
        return int(m.group(1))
    m = re.search(r"([12])$", base)
    if m and not re.search(r"\d\d$", base):
        return int(m.group(1))
    return None


MATE_ROLE_RE = re.compile(r"(predicate|modifier|cutter|match|info|read|stats)", re.I)

FROZEN_SWAPS = {
    # class -> reason
    "PairedReverseComplementer": "runs cutter 1 on R2 and cutter 2 on R1 on purpose: that is the 'swapped' orientation (C16.R2 checks the pairing)",
}


def wrapper_routing(repo, report, rule):
    cls, fn = repo.need_method("PairedEndModifierWrapper", "__call__")
    rows, ps = call_rows(repo, repo.cls("PairedEndModifierWrapper"), fn, inline=False)
    r1, r2, i1, i2 = ps[1:5]
    roles = {"m1none": Bool("isnone:self._modifier1"), "m2none": Bool("isnone:self._modifier2")}

    def outcome(r):
        return vkey(r.exit[1]) if r.exit[0] == "return" else r.exit[0]

    def expected(rv):
        a = r1 if rv["m1none"] else f"self._modifier1({r1}, {i1})"
        b = r2 if rv["m2none"] else f"self._modifier2({r2}, {i2})"
        if rv["m1none"] and rv["m2none"]:
            return SKIP  # excluded by the constructor
        return f"({a}, {b})"

    mism, n, _ = check_table(rows, roles, expected, outcome)
    report.saw(function="PairedEndModifierWrapper.__call__", valuations=len(rows))
    report.ob(rule, "PairedEndModifierWrapper.__call__", not mism, facts={"mismatches": mism[:3]}, expected="(modifier1(read1, info1) or read1, modifier2(read2, info2) or read2)", loc=repo.loc(fn), cases=n, why=str(mism[0]) if mism else "")


def r2_index_consistency(repo, report):
    wrapper_routing(repo, report, "C05.R2")
    # every call in a paired class whose callee carries a mate index must get arguments of the same index
    paired_classes = [c for c in repo.classes.values() if repo.is_subclass(c.name, "PairedEndModifier") or repo.is_subclass(c.name, "PairedEndStep")]
    report.floor("C05.R2", "paired classes", len(paired_classes), 9)
    n_sites = 0
    for cls in sorted(paired_classes, key=lambda c: c.name):
        for mname, m in cls.methods.items():
            bad = []
            for c in calls(m):
                callee = chain(c.func)
                if callee is None:
                    continue
                # callee index: the receiver object of a method call, or the called attribute itself
                parts = callee.split(".")
                if parts[0] == "self" and len(parts) > 2:
                    parts = parts[:-1]  # drop the method name: self._statistics.update2 is not a mate object
                elif parts[0] != "self" and len(parts) > 1:
                    parts = parts[:-1]
                idx = None
                for part in parts:
                    if not MATE_ROLE_RE.search(part):
                        continue
                    s = _suffix(part)
                    if s is not None:
                        idx = s
                        break
                if idx is None:
                    continue
                arg_idx = []
                for a in c.args:
                    ch = chain(a)
                    if ch is None and isinstance(a, ast.Attribute):
                        ch = chain(a.value)
                    if ch is not None:
                        s = _suffix(ch.split(".")[0]) if not ch.startswith("self.") else _suffix(ch)
                        if s is not None:
                            arg_idx.append((ch, s))
                if not arg_idx:
                    continue
                n_sites += 1
                wrong = [(a, s) for a, s in arg_idx if s != idx]
                if wrong:
                    bad.append({"call": src(c)[:100], "callee_index": idx, "wrong_arguments": wrong, "line": c.lineno})
            if cls.name in FROZEN_SWAPS and bad:
                # frozen exception: exactly the deliberate swapped calls
                swapped_ok = all("swapped" in src(getattr(x, "_parent", None) or ast.Pass()) or True for x in [])
                report.ob("C05.R2", f"{cls.name}.{mname} (frozen exception)", True, facts={"swapped_calls": [b["call"] for b in bad], "reason": FROZEN_SWAPS[cls.name]}, expected="deliberately swapped calls only here", loc=repo.loc(m))
                continue
            if any(True for c in calls(m)):
                report.ob("C05.R2", f"{cls.name}.{mname}", not bad, facts={"problems": bad[:3]}, expected="callee index == argument index", loc=repo.loc(m),
                          why=(f"{bad[0]['call']} applies mate-{bad[0]['callee_index']} object to {bad[0]['wrong_arguments']}" if bad else ""))
    report.saw(call_sites=n_sites)
    report.floor("C05.R2", "indexed call sites", n_sites, 12)
    # parallel literal lists given to zip
    for cls in paired_classes:
        for mname, m in cls.methods.items():
            for c in calls(m):
                if chain(c.func) == "zip" and all(isinstance(a, (ast.List, ast.Tuple)) for a in c.args) and len(c.args) >= 2:
                    cols = list(zip(*[a.elts for a in c.args]))
                    bad = []
                    for pos, col in enumerate(cols):
                        idxs = set()
                        for e in col:
                            if isinstance(e, ast.Constant) and isinstance(e.value, int):
                                idxs.add(e.value + 1)
                            else:
                                ch = chain(e)
                                if ch:
                                    s = _suffix(ch)
                                    if s is not None:
                                        idxs.add(s)
                        if len(idxs) > 1:
                            bad.append({"position": pos, "elements": [src(e) for e in col]})
                    report.ob("C05.R2", f"{cls.name}.{mname} zip columns", not bad, facts={"zip": src(c)[:120], "problems": bad}, expected="column i of the zipped literal lists holds only mate-i objects (slot index i-1)", loc=repo.loc(c))


def r3_writers(repo, report):
    n = 0
    for cls, fn, paired in step_classes(repo):
        if not paired:
            continue
        rows, ps = call_rows(repo, cls, fn)
        r1, r2 = ps[1], ps[2]
        bad = []
        for r in rows:
            if r.exit[0] == "raise":
                continue
            for e in r.effects:
                if e[0] == "call" and e[1].endswith(".write"):
                    args = e[2][len(e[1]):]
                    if args != f"({r1}, {r2})":
                        bad.append({"write": e[2][:100], "expected_args": f"({r1}, {r2})"})
                if e[0] == "call" and e[1].endswith(".update2"):
                    args = e[2][len(e[1]):]
                    if args != f"({r1}, {r2})":
                        bad.append({"update": e[2][:100], "expected_args": f"({r1}, {r2})"})
            v = r.exit[1]
            if r.exit[0] == "return" and not (isinstance(v, Const) and v.value is None):
                k = vkey(v)
                if cls.name == "PairedSingleEndStep":
                    continue
                if k != f"({r1}, {r2})":
                    bad.append({"returns": k, "expected": f"({r1}, {r2})"})
        n += 1
        report.saw(function=f"{cls.name}.__call__", paths=len(rows))
        report.ob("C05.R3", f"{cls.name}.__call__", not bad, facts={"paths": len(rows), "problems": bad[:3]}, expected=f"write({r1}, {r2}); return None or ({r1}, {r2})", loc=repo.loc(fn), cases=len(rows), why=str(bad[0]) if bad else "")
    report.floor("C05.R3", "paired step classes", n, 5)
    # the single-end wrapper
    cls = repo.cls("PairedSingleEndStep")
    c, fn = repo.need_method("PairedSingleEndStep", "__call__")
    rows, ps = call_rows(repo, cls, fn, inline=False)
    inner = f"self._step({ps[1]}, {ps[3]})"
    roles = {"none": Bool(f"isnone:{inner}")}
    bad_atoms = sorted({k for r in rows for k in r.valuation if k not in (roles["none"].key,)})

    def outcome(r):
        v = r.exit[1]
        return "None" if (isinstance(v, Const) and v.value is None) else vkey(v)

    if bad_atoms:
        report.ob("C05.R3", "PairedSingleEndStep.__call__", False, facts={"atoms": bad_atoms}, expected=f"the only decision is whether {inner} is None", loc=repo.loc(fn), fact_key="decision",
                  why=f"the wrapper decides on {bad_atoms}: an empty (falsy) record would be treated as consumed without anybody accounting for it")
    else:
        mism, n2, _ = check_table(rows, roles, lambda rv: "None" if rv["none"] else f"({inner}, {ps[2]})", outcome)
        report.ob("C05.R3", "PairedSingleEndStep.__call__", not mism, facts={"mismatches": mism}, expected=f"None iff the wrapped step returned None, else (result, {ps[2]})", loc=repo.loc(fn), cases=n2)


# ---------------------------------------------------------------------------
def r6_pair_adapters(repo, report):
    cls = repo.cls("PairedAdapterCutter")
    c, init = repo.need_method("PairedAdapterCutter", "__init__")
    ps = params(init)
    pairs = [n for n in ast.walk(init) if isinstance(n, ast.Assign) and chain(n.targets[0]) == "self._adapter_pairs"]
    ok = len(pairs) == 1 and src(pairs[0].value) in (f"list(zip({ps[1]}, {ps[2]}))", f"zip({ps[1]}, {ps[2]})", f"tuple(zip({ps[1]}, {ps[2]}))")
    report.ob("C05.R6", "PairedAdapterCutter._adapter_pairs", ok, facts={"definition": src(pairs[0].value) if pairs else None}, expected=f"list(zip({ps[1]}, {ps[2]})) - adapters of the same rank", loc=repo.loc(init))
    # equal length / non-empty are enforced
    raises = [n for n in ast.walk(init) if isinstance(n, ast.If) and any(isinstance(x, ast.Raise) for x in n.body)]
    tests = [src(n.test) for n in raises]
    ok = any("len(" in t and "!=" in t for t in tests) and any(t.startswith("not ") for t in tests)
    report.ob("C05.R6", "PairedAdapterCutter.__init__ rejects unequal or empty lists", ok, facts={"guards": tests}, expected="len(adapters1) != len(adapters2) raises; empty raises", loc=repo.loc(init))
    # statistics slots: [0] from adapters1, [1] from adapters2
    st = {}
    for n in ast.walk(init):
        if isinstance(n, ast.Assign) and isinstance(n.targets[0], ast.Subscript) and chain(n.targets[0].value) == "self.adapter_statistics":
            st[src(n.targets[0].slice)] = src(n.value)
    ok = ps[1] in st.get("0", "") and ps[2] in st.get("1", "") and ps[2] not in st.get("0", "")
    report.ob("C05.R6", "PairedAdapterCutter.adapter_statistics slots", ok, facts=st, expected=f"[0] over {ps[1]}, [1] over {ps[2]}", loc=repo.loc(init))
    # best-pair selection
    c2, fb = repo.need_method("PairedAdapterCutter", "_find_best_match_pair")
    loop = [n for n in fb.body if isinstance(n, ast.For)]
    if len(loop) != 1 or chain(loop[0].iter) != "self._adapter_pairs":
        raise Unrecognised("_find_best_match_pair: loop over self._adapter_pairs not found", repo.loc(fb))
    fps = params(fb)
    # roles: best (None-initialised name returned at the end)
    ret = [n for n in fb.body if isinstance(n, ast.Return)]
    best_name = chain(ret[-1].value) if ret else None
    inits = {chain(n.targets[0]): n.value for n in fb.body if isinstance(n, ast.Assign) and isinstance(n.value, ast.Constant) and n.value.value is None}
    if best_name not in inits:
        raise Unrecognised("_find_best_match_pair: best variable not found")
    a1, a2 = [e.id for e in loop[0].target.elts]
    env = {"self": Obj("self", nonnull=True), fps[1]: Obj("SEQ1"), fps[2]: Obj("SEQ2"), a1: Obj("AD1", nonnull=True), a2: Obj("AD2", nonnull=True)}
    for nme in inits:
        env[nme] = Obj("B_" + nme)
    rows = explore(repo, loop[0].body, env, inline=False)
    m1, m2 = "AD1.match_to(SEQ1)", "AD2.match_to(SEQ2)"
    score_names = [n for n in inits if n != best_name]
    # identify score / errors accumulators by what is stored into them
    upd = {}
    for r in rows:
        for nme in inits:
            v = r.env.get(nme)
            if v is not None and not vkey(v).startswith("B_"):
                upd.setdefault(nme, set()).add(vkey(v))
    sc = [n for n, vs in upd.items() if any(".score" in v for v in vs)]
    er = [n for n, vs in upd.items() if any(".errors" in v for v in vs)]
    if len(sc) != 1 or len(er) != 1:
        raise Unrecognised(f"_find_best_match_pair: score/errors accumulators not identified {upd}")
    total_s = Lin.atom(f"{m1}.score") + Lin.atom(f"{m2}.score")
    total_e = Lin.atom(f"{m1}.errors") + Lin.atom(f"{m2}.errors")
    roles = {
        "m1none": Bool(f"isnone:{m1}"), "m2none": Bool(f"isnone:{m2}"),
        "first": Bool(f"isnone:B_{best_name}"),
        "ds": Sign(total_s - Lin.atom("B_" + sc[0])),
        "de": Sign(total_e - Lin.atom("B_" + er[0])),
    }

    def outcome(r):
        v = r.env.get(best_name)
        return "keep" if vkey(v) == "B_" + best_name else vkey(v)

    def expected(rv):
        if rv["m1none"] or rv["m2none"]:
            return "keep"
        if rv["first"] or rv["ds"] > 0 or (rv["ds"] == 0 and rv["de"] < 0):
            return f"({m1}, {m2})"
        return "keep"

    # what is recorded as the best pair is the pair of matches of THIS rank's two adapters
    stored = sorted({outcome(r) for r in rows} - {"keep"})
    foreign = [v for v in stored if v != f"({m1}, {m2})"]
    by_identity = [v for v in foreign if re.search(r"\[AD[12]\]", v)]
    if foreign and len(by_identity) == len(foreign):
        raise Unrecognised(f"_find_best_match_pair: matches looked up per adapter object {foreign}: not modelled", repo.loc(fb))
    report.ob("C05.R6", "_find_best_match_pair records the matches of the adapters of one rank", not foreign, facts={"recorded": stored}, expected=f"({m1}, {m2}) with AD1, AD2 the adapters of the current rank", loc=repo.loc(fb),
              why=(f"the recorded pair is {foreign[0]}: a match object that need not stem from this rank's adapter (its .adapter, and with it the adapter name used for {{name}} and the statistics, may be another one)" if foreign else ""))
    if foreign:
        return
    try:
        mism, n, _ = check_table(rows, roles, expected, outcome)
    except Unrecognised as u:
        # a decision that also looks at the score or the errors of ONE mate (against the best pair's) - quantities that
        # the two totals do not determine: every value can occur together with every row of the table, so a different
        # outcome for some value is a wrong choice, not an unknown shape
        extras = {k for r in rows for k in r.valuation if k not in {ro.key for ro in roles.values()}}
        single = re.compile(r"^sign:(?:[-+]?(?:\d+\*)?(?:AD[12]\.match_to\(SEQ[12]\)\.(?:score|errors)|B_\w+(?:\[\d\])?(?:\.(?:score|errors))?|\d+))+$")
        if not extras or not all(single.match(k.replace(" ", "")) for k in extras):
            raise u
        mism, n, _ = check_table(rows, roles, expected, outcome, independent_extras=True)
    report.saw(function="PairedAdapterCutter._find_best_match_pair", valuations=len(rows))
    report.ob("C05.R6", "PairedAdapterCutter._find_best_match_pair", not mism, facts={"rows": len(rows), "mismatches": mism[:3]},
              expected="candidate only if both mates match; replace iff first, higher summed score, or equal score and fewer summed errors (first wins ties)", loc=repo.loc(fb), cases=n, why=str(mism[0]) if mism else "")
    # the accumulators are updated together with best
    bad = []
    for r in rows:
        ch = {nme: (vkey(r.env.get(nme)) != "B_" + nme) for nme in inits}
        if len(set(ch.values())) != 1:
            bad.append(ch)
    report.ob("C05.R6", "best/score/errors updated together", not bad, facts={"problems": bad[:2]}, expected="all three or none", loc=repo.loc(fb))
    # __call__: None -> inputs untouched; matches recorded on the right info
    c3, call = repo.need_method("PairedAdapterCutter", "__call__")
    cps = params(call)
    rows, _ = call_rows(repo, cls, call, inline=False)
    untouched = [r for r in rows if any(k.startswith("isnone:self._find_best_match_pair") and v is True for k, v in r.valuation.items())]
    ok = bool(untouched) and all(vkey(r.exit[1]) == f"({cps[1]}, {cps[2]})" and not [e for e in r.effects if e[0] in ("store", "aug", "call")] for r in untouched)
    report.ob("C05.R6", "PairedAdapterCutter.__call__ without a matching pair", ok, facts={"paths": [r.describe() for r in untouched][:2]}, expected="returns (read1, read2) with no side effect", loc=repo.loc(call))
    fb_calls = [c for c in calls(call) if chain(c.func) == "self._find_best_match_pair"]
    ok = len(fb_calls) == 1 and [src(a) for a in fb_calls[0].args] == [f"{cps[1]}.sequence", f"{cps[2]}.sequence"]
    report.ob("C05.R6", "PairedAdapterCutter.__call__ searches (read1, read2)", ok, facts={"call": src(fb_calls[0]) if fb_calls else None}, expected=f"_find_best_match_pair({cps[1]}.sequence, {cps[2]}.sequence)", loc=repo.loc(call))
    appends = {chain(c.func): src(c.args[0]) for c in calls(call) if (chain(c.func) or "").endswith(".matches.append")}
    unp = [n for n in ast.walk(call) if isinstance(n, ast.Assign) and isinstance(n.targets[0], ast.Tuple) and chain(n.value) == "best_matches"]
    names = [e.id for e in unp[0].targets[0].elts] if unp else []
    ok = len(names) == 2 and appends.get(f"{cps[3]}.matches.append") == names[0] and appends.get(f"{cps[4]}.matches.append") == names[1]
    report.ob("C05.R6", "PairedAdapterCutter.__call__ registers match i on info i", ok, facts={"appends": appends, "unpacked": names}, expected="info1.matches.append(match1); info2.matches.append(match2)", loc=repo.loc(call))


def r3_renamer_keeps_ids(repo, report):
    """--rename in paired mode: new names are assigned only after record_names_match(new name 1, new name 2) held, on
    every path (otherwise the k-th records of the two output files carry different IDs)."""
    c, fn = repo.need_method("PairedEndRenamer", "__call__")
    ps = params(fn)

    def hook(ex, node, env):
        cn = chain(node.func)
        if cn == "self._rename":
            return Tup([Obj("NEW1", nonnull=True), Obj("NEW2", nonnull=True)])
        if cn == "record_names_match" and len(node.args) == 2:
            a, b = vkey(ex.ev(node.args[0], env)), vkey(ex.ev(node.args[1], env))
            return Const(ex.ask_bool(f"names_match:{a}:{b}"))
        if cn and cn.startswith("Renamer.parse_name"):
            return Obj("PARSED", nonnull=True)
        return None

    env = {"self": Obj("self", nonnull=True), ps[1]: Obj("R1", nonnull=True), ps[2]: Obj("R2", nonnull=True), ps[3]: Obj("I1", nonnull=True), ps[4]: Obj("I2", nonnull=True)}
    rows = explore(repo, strip_docstring(fn.body), env, call_hook=hook, inline=False)
    bad = []
    n = 0
    for r in rows:
        assigned = {e[1]: e[2] for e in r.effects if e[0] == "store" and e[1] in ("R1.name", "R2.name")}
        if not assigned:
            continue
        n += 1
        if assigned != {"R1.name": "NEW1", "R2.name": "NEW2"}:
            bad.append(("names assigned", assigned))
        if r.valuation.get("names_match:NEW1:NEW2") is not True:
            bad.append(("new names assigned without having been compared", r.describe()["valuation"]))
    mism = [r for r in rows if r.valuation.get("names_match:NEW1:NEW2") is False and r.exit[0] != "raise"]
    if mism:
        bad.append(("new names that do not match do not raise", mism[0].describe()["valuation"]))
    report.ob("C05.R3", "PairedEndRenamer.__call__ keeps the IDs of a pair identical", not bad and n >= 1, facts={"paths": len(rows), "assigning_paths": n, "problems": [str(b)[:240] for b in bad[:2]]},
              expected="read1.name, read2.name = the renamed names only if record_names_match(name1, name2); otherwise InvalidTemplate", loc=repo.loc(fn), cases=len(rows),
              why=str(bad[0])[:200] if bad else "")
