"""C01 - Every reported adapter match is a genuine, in-tolerance occurrence (necessary conditions in the aligner's shape)."""
from __future__ import annotations

import ast
import re

from .. import constfold
from ..absint import Const, Executor, NeedAtom, Obj, Tup, explore, vkey
from ..core import Unrecognised
from ..lin import Lin
from ..repo import chain, params, src, strip_docstring, calls, walk_no_nested, nsrc, assigning_stmts
from ..tables import Bool, Sign, check_table, SKIP

RS, QS, RE_, QE = 1, 2, 4, 8

# placement rule of the eight documented adapter types (guide.rst "Adapter types" / the property statement):
# which ends of adapter (reference) and read (query) may be skipped at no cost
PLACEMENT = {
    "FrontAdapter": RS | QS | QE,          # regular 5': partial at the read start, anywhere in the read, read continues after it
    "BackAdapter": QS | QE | RE_,          # regular 3': may start anywhere in the read and run off its end
    "AnywhereAdapter": RS | QS | RE_ | QE,
    "NonInternalFrontAdapter": RS | QE,    # must touch the read start
    "NonInternalBackAdapter": QS | RE_,    # must touch the read end
    "PrefixAdapter": QE,                   # anchored 5': starts at the read start, complete
    "SuffixAdapter": QS,                   # anchored 3': ends at the read end, complete
    "RightmostFrontAdapter": QS | QE | RE_,  # searched as a 3' adapter on the reversed read
}


def run(repo, report, tier):
    report.rule("C01.R1", "flag tables agree: EndSkip bits <-> the decode in Aligner.__cinit__ <-> _compute_flags form one bijection; Where members equal the documented placement table; every adapter class passes the Where member of its own type and ;anywhere only widens to ANYWHERE",
                "an adapter type is searched with the placement rule of another type (e.g. an anchored adapter found in the middle of the read)")
    report.rule("C01.R2", "acceptance dominates recording: every assignment to the best match inside the search is reached only if length >= min_overlap and cost <= effective length * max_error_rate were tested and hold",
                "a match shorter than the minimum overlap or with too many errors is reported")
    report.rule("C01.R3", "the N-discount window equals the aligned adapter interval: effective length = length - (n_counts[hi] - n_counts[lo]) with hi - lo = length at both candidate sites",
                "N wildcards outside the aligned part are discounted (or inside ones are not): one error too many/few is accepted (upstream issues 603/654)")
    report.rule("C01.R4", "n_counts are prefix sums: n_counts[i] is stored before the count is incremented for position i, and n_counts[m] after the loop", "the discount is shifted by one adapter position")
    report.rule("C01.R5", "the DP cell takes the minimum of (diagonal + 1, deletion, insertion) with the diagonal preferred on ties, and origin/score come from the same predecessor as the cost; on a character match the diagonal cost is taken unchanged",
                "the reported error count is not the edit distance of the reported interval")
    report.rule("C01.R6", "Hamming comparers: None iff errors > max_k or length < min_overlap; max_k = int(rate * effective length); result (0, length, 0, length, ...) resp. the suffix mirror (m - length, m, n - length, n, ...)", "anchored adapters without indels accept one error too many or report shifted coordinates")
    report.rule("C01.R7", "the six components returned by locate arrive in the match as (astart, astop, rstart, rstop, score, errors); start positions come from the sign of the origin; the rightmost 5' adapter mirrors both intervals with the right length each",
                "read and adapter coordinates, or score and errors, are swapped in the reported match")
    report.rule("C01.R8", "character classes: the IUPAC table is the standard one (N also matches non-ACGT read characters), the ACGT table maps A/C/G/T/U case-insensitively to one bit each; (wildcard_ref, wildcard_query) select the same (reference, query) tables in the aligner, the comparers and the k-mer finder",
                "a wildcard matches a base it should not, so a reported 'match' has more real errors than reported")
    report.guard("C01.R1", "flags", r1_flags, repo, report)
    report.guard("C01.R1", "anchored adapters", r1_anchored_full_length, repo, report)
    report.guard("C01.R1", "minimum overlap of an adapter", r1_min_overlap_clamp, repo, report)
    report.guard("C01.R1", "aligner and comparer construction", r1_search_object_arguments, repo, report)
    report.guard("C01.R2", "Aligner.locate", r2_r3_acceptance, repo, report)
    report.guard("C01.R4", "Aligner._set_reference", r4_prefix_sums, repo, report)
    report.guard("C01.R5", "DP cell", r5_cell, repo, report)
    report.guard("C01.R5", "first DP column", r5_first_column, repo, report)
    report.guard("C01.R5", "first DP row", r5_first_row, repo, report)
    report.guard("C01.R6", "comparers", r6_comparers, repo, report)
    report.guard("C01.R6", "precision of the error rate", r6_rate_precision, repo, report)
    report.guard("C01.R7", "result tuple", r7_tuple, repo, report)
    report.guard("C01.R7", "best-match record", r7_record_complete, repo, report)
    report.guard("C01.R8", "match tables", r8_tables, repo, report)
    report.notes.append("Not decided: that the DP, with these ingredients, yields the true edit distance and an optimal score for every read (quantifies over runtime values); containment of origin-derived coordinates in the read (a DP invariant). Cross-reference (cython -Wextra): the last-column candidate test compares the stale 'origin' of the column loop instead of column[i].origin; it affects which acceptable candidate is kept, not acceptability - shown in the evidence of C01.R2, not armed.")


# ---------------------------------------------------------------------------
def r1_flags(repo, report):
    from .c07 import where_table, _class_config

    env, where = where_table(repo)
    ok = env == {"EndSkip.REFERENCE_START": RS, "EndSkip.QUERY_START": QS, "EndSkip.REFERENCE_END": RE_, "EndSkip.QUERY_STOP": QE, "EndSkip.SEMIGLOBAL": 15}
    report.ob("C01.R1", "EndSkip values", ok, facts=env, expected="1, 2, 4, 8, 15", loc="src/cutadapt/align.py")
    c, ci = repo.need_method("Aligner", "__cinit__")
    dec = {}
    for n in ast.walk(ci):
        if isinstance(n, ast.Assign) and isinstance(n.value, ast.BinOp) and isinstance(n.value.op, ast.BitAnd) and chain(n.value.left) == "flags" and isinstance(n.value.right, ast.Constant):
            dec[chain(n.targets[0])] = n.value.right.value
    want = {"self.start_in_reference": RS, "self.start_in_query": QS, "self.stop_in_reference": RE_, "self.stop_in_query": QE}
    report.ob("C01.R1", "Aligner.__cinit__ flag decode", dec == want, facts=dec, expected=want, loc=repo.loc(ci), why="" if dec == want else "a flag bit is decoded into the wrong end-skip switch")
    c, cf = repo.need_method("Aligner", "_compute_flags")
    enc = {}
    for n in ast.walk(cf):
        if isinstance(n, ast.If) and len(n.body) == 1 and isinstance(n.body[0], ast.AugAssign) and isinstance(n.body[0].op, ast.BitOr) and isinstance(n.body[0].value, ast.Constant):
            enc[src(n.test)] = n.body[0].value.value
    report.ob("C01.R1", "Aligner._compute_flags is the inverse", enc == want, facts=enc, expected=want, loc=repo.loc(cf))
    want_where = {"BACK": QS | QE | RE_, "FRONT": QS | QE | RS, "PREFIX": QE, "SUFFIX": QS, "FRONT_NOT_INTERNAL": RS | QE, "BACK_NOT_INTERNAL": QS | RE_, "ANYWHERE": 15}
    report.ob("C01.R1", "Where members", {k: int(v) for k, v in where.items()} == want_where, facts={k: int(v) for k, v in where.items()}, expected=want_where, loc="src/cutadapt/adapters.py",
              why="" if {k: int(v) for k, v in where.items()} == want_where else "a placement flag set differs from the documented placement rule")
    classes = [c.name for c in repo.subclasses("SingleAdapter")]
    report.floor("C01.R1", "single-adapter classes", len(classes), 8)
    for cname in classes:
        if cname not in PLACEMENT:
            report.unrecognised("C01.R1", f"{cname}", "adapter class without a documented placement rule", repo.loc(repo.cls(cname).node))
            continue
        has_force = "_force_anywhere" in src(repo.need_method(cname, "_aligner")[1])
        for force in ((False, True) if has_force else (False,)):
            cfg = _class_config(repo, cname, force)
            flags = set()
            seqs = set()
            comparers = set()
            for val, out in cfg["aligner"]:
                if out.startswith("ALIGNER("):
                    s_, f_ = out[len("ALIGNER("):-1].rsplit(", ", 1)
                    flags.add(f_)
                    seqs.add(s_)
                elif out.startswith("COMPARER:"):
                    comparers.add((out, val.get("truthy:self.indels")))
            want_f = 15 if force else PLACEMENT[cname]
            want_seq = "SEQ[::-1]" if cname == "RightmostFrontAdapter" else "SEQ"
            ok = flags == {str(want_f)} and seqs == {want_seq}
            if cname in ("PrefixAdapter", "SuffixAdapter"):
                wantc = {("COMPARER:PrefixComparer" if cname == "PrefixAdapter" else "COMPARER:SuffixComparer", False)}
                ok = ok and comparers == wantc
            report.ob("C01.R1", f"{cname}{' with ;anywhere' if force else ''}: aligner flags", ok, facts={"flags": sorted(flags), "sequence": sorted(seqs), "comparers": sorted(map(str, comparers))},
                      expected={"flags": want_f, "sequence": want_seq}, loc=repo.loc(repo.cls(cname).node), why="" if ok else f"{cname} is searched with end-skip flags {sorted(flags)} instead of {want_f}")


def _locate_fragments(repo):
    c, fn = repo.need_method("Aligner", "locate")
    col_loop = None
    for n in ast.walk(fn):
        if isinstance(n, ast.For) and isinstance(n.target, ast.Name) and n.target.id == "j":
            col_loop = n
    if col_loop is None:
        raise Unrecognised("Aligner.locate: column loop (for j ...) not found", repo.loc(fn))
    cell_loop = [n for n in col_loop.body if isinstance(n, ast.For)]
    if not cell_loop:
        raise Unrecognised("Aligner.locate: cell loop not found", repo.loc(col_loop))
    cell_loop = cell_loop[0]
    # last-row candidate site: if last < m: ... elif stop_in_query: <site1>
    site1 = None
    for n in col_loop.body:
        if isinstance(n, ast.If) and "last" in src(n.test) and n.orelse and isinstance(n.orelse[0], ast.If):
            site1 = n.orelse[0]
    if site1 is None:
        raise Unrecognised("Aligner.locate: last-row candidate site not found", repo.loc(col_loop))
    # last-column scan
    site2 = None
    scan_if = None
    for n in strip_docstring(fn.body):
        if isinstance(n, ast.If) and src(n.test).replace(" ", "") in ("max_n==n", "n==max_n"):
            scan_if = n
            for x in n.body:
                if isinstance(x, ast.For):
                    site2 = x
    if site2 is None:
        raise Unrecognised("Aligner.locate: last-column scan not found", repo.loc(fn))
    return fn, col_loop, cell_loop, site1, scan_if, site2


def _site_env():
    return {
        "self": Obj("self", nonnull=True), "m": Lin.atom("M"), "n": Lin.atom("N"), "j": Lin.atom("J"), "i": Lin.atom("I"), "column": Obj("COL", nonnull=True), "best": Obj("BEST", nonnull=True),
        "max_error_rate": Lin.atom("RATE"), "k": Lin.atom("K"), "origin": Lin.atom("ORIGIN_STALE"), "stop_in_query": Obj("STOP_IN_QUERY"),
    }


class _AbstractPreference(ast.NodeTransformer):
    """<acceptance> and (<which of several acceptable candidates to keep>)  ->  <acceptance> and PREFER"""

    def __init__(self, acc_name):
        self.found = []
        self.acc_name = acc_name

    def visit_If(self, node):
        self.generic_visit(node)
        t = node.test
        if isinstance(t, ast.BoolOp) and isinstance(t.op, ast.And) and len(t.values) == 2 and isinstance(t.values[0], ast.Name) and t.values[0].id == self.acc_name:
            self.found.append(t.values[1])
            node.test = ast.BoolOp(op=ast.And(), values=[t.values[0], ast.Name(id="__prefer__", ctx=ast.Load())])
            ast.fix_missing_locations(node)
        return node


def _site_roles(stmts):
    """Roles of the local names at a candidate site, found by dataflow (never by spelling):
    rec_if   - the 'if' whose body assigns the fields of the best match
    acc      - the acceptance flag tested first by rec_if
    length, cost, eff - from  acc = length >= self._min_overlap and cost <= eff * max_error_rate
    score    - the value stored into best.score"""
    rec = [n for st in stmts for n in ast.walk(st) if isinstance(n, ast.If) and sum(1 for x in n.body if isinstance(x, ast.Assign) and (chain(x.targets[0]) or "").startswith("best.")) >= 3]
    if len(rec) != 1:
        raise Unrecognised(f"candidate site: expected one 'if' that records the best match, found {len(rec)}")
    rec = rec[0]
    t = rec.test
    if not (isinstance(t, ast.BoolOp) and isinstance(t.op, ast.And) and isinstance(t.values[0], ast.Name)):
        raise Unrecognised(f"candidate site: the recording test is not '<acceptance flag> and <preference>': {src(t)[:80]}")
    acc = t.values[0].id
    defs = [n for st in stmts for n in ast.walk(st) if isinstance(n, ast.Assign) and chain(n.targets[0]) == acc]
    if len(defs) != 1 or not (isinstance(defs[0].value, ast.BoolOp) and isinstance(defs[0].value.op, ast.And) and len(defs[0].value.values) == 2):
        raise Unrecognised("candidate site: the acceptance flag is not a conjunction of two comparisons")
    roles = {"acc": acc}
    for cmp_ in defs[0].value.values:
        if not (isinstance(cmp_, ast.Compare) and len(cmp_.ops) == 1):
            raise Unrecognised("candidate site: acceptance conjunct is not a simple comparison")
        sides = [cmp_.left, cmp_.comparators[0]]
        txt = [src(x) for x in sides]
        if any("_min_overlap" in x for x in txt):
            other = [x for x in sides if "_min_overlap" not in src(x)]
            if len(other) == 1 and isinstance(other[0], ast.Name):
                roles["length"] = other[0].id
        elif any("max_error_rate" in x for x in txt):
            prod = [x for x in sides if "max_error_rate" in src(x)][0]
            other = [x for x in sides if x is not prod]
            if isinstance(other[0], ast.Name):
                roles["cost"] = other[0].id
            if isinstance(prod, ast.BinOp) and isinstance(prod.op, ast.Mult):
                nm = [x for x in (prod.left, prod.right) if isinstance(x, ast.Name) and x.id != "max_error_rate"]
                if len(nm) == 1:
                    roles["eff"] = nm[0].id
    for x in rec.body:
        if isinstance(x, ast.Assign) and chain(x.targets[0]) == "best.score" and isinstance(x.value, ast.Name):
            roles["score"] = x.value.id
    missing = [k for k in ("length", "cost", "eff", "score") if k not in roles]
    if missing:
        raise Unrecognised(f"candidate site: could not identify the variables playing the roles {missing}")
    return roles


def _slice_dead(stmts, keep=frozenset()):
    """Program slice for the recording decision: assertions (they only add failing paths) and pure assignments
    to local names that nothing reads any more (after the preference was abstracted) are removed."""
    class Drop(ast.NodeTransformer):
        def __init__(self, dead):
            self.dead = dead

        def visit_Assert(self, node):
            return None

        def visit_Assign(self, node):
            if len(node.targets) == 1 and isinstance(node.targets[0], ast.Name) and node.targets[0].id in self.dead and not any(isinstance(x, ast.Call) and chain(x.func) not in ("min", "max") for x in ast.walk(node.value)):
                return None
            return node

    def fix(body):
        for n in body:
            for f in ("body", "orelse"):
                if hasattr(n, f) and isinstance(getattr(n, f), list):
                    setattr(n, f, fix(getattr(n, f)))
                    if f == "body" and not getattr(n, f):
                        n.body = [ast.Pass()]
        return body

    for _ in range(5):
        loaded = {x.id for s_ in stmts for x in ast.walk(s_) if isinstance(x, ast.Name) and isinstance(x.ctx, ast.Load)}
        assigned = {s_.targets[0].id for st in stmts for s_ in ast.walk(st) if isinstance(s_, ast.Assign) and len(s_.targets) == 1 and isinstance(s_.targets[0], ast.Name)}
        # names that the rule itself reads from the final environment stay alive
        dead = assigned - loaded - set(keep)
        new = []
        for st in stmts:
            r = Drop(dead).visit(st)
            if r is not None:
                new.append(r)
        new = fix(new)
        for st in new:
            ast.fix_missing_locations(st)
        if ast.dump(ast.Module(body=new, type_ignores=[])) == ast.dump(ast.Module(body=stmts, type_ignores=[])):
            break
        stmts = new
    return stmts


def _check_site(repo, report, label, stmts, loc, length_idx_hint):
    import copy

    roles = _site_roles(stmts)
    tr = _AbstractPreference(roles["acc"])
    stmts2 = [tr.visit(copy.deepcopy(s)) for s in stmts]
    stmts2 = _slice_dead(stmts2, keep={roles["length"], roles["cost"], roles["eff"], roles["score"]})
    env = _site_env()
    env["__prefer__"] = Obj("PREFER")
    rows = explore(repo, stmts2, env, inline=False, integer=False, loop_mode="forbid", max_rows=20000)
    pref_names = {x.id for p in tr.found for x in ast.walk(p) if isinstance(x, ast.Name)}
    site_assigned = {chain(x.targets[0]) for st in stmts for x in ast.walk(st) if isinstance(x, ast.Assign)}
    site_env_names = set(_site_env())
    stale_origin = bool((pref_names - site_assigned - site_env_names - {"__prefer__"}) | ({"origin"} & pref_names - site_assigned))
    report.saw(function="Aligner.locate", file="src/cutadapt/_align.pyx", valuations=len(rows))
    bad2, bad3 = [], []
    n_rec = 0
    stale = False
    for r in rows:
        stores = [e for e in r.effects if e[0] == "store" and e[1].startswith("BEST.")]
        if not stores:
            continue
        n_rec += 1
        length = r.env.get(roles["length"])
        cost = r.env.get(roles["cost"])
        ceff = r.env.get(roles["eff"])
        judge = Executor(None, r.valuation, integer=False)
        try:
            ok_len = judge.compare(ast.GtE(), judge.num(length), Lin.atom("self._min_overlap"))
            ok_cost = judge.compare(ast.LtE(), judge.num(cost), judge.num(ceff) * Lin.atom("RATE"))
        except (NeedAtom, Unrecognised, TypeError):
            bad2.append(("a candidate is recorded without the tests length >= min_overlap and cost <= effective_length * max_error_rate", r.describe()["valuation"]))
            continue
        if not (ok_len and ok_cost):
            bad2.append(("a candidate is recorded although", {"length>=min_overlap": ok_len, "cost<=budget": ok_cost}))
        # what is recorded: score, cost, origin of this candidate, its reference stop and the query stop
        rec = {e[1]: e[2] for e in stores}
        if rec.get("BEST.cost") != vkey(cost) or rec.get("BEST.score") != vkey(r.env.get(roles["score"])):
            bad2.append(("recorded cost/score are not those of the candidate", rec))
        if stale_origin:
            stale = True
        # R3: the N window
        if r.valuation.get("truthy:self.wildcard_ref") is True:
            L = judge.num(length)
            shorter = None
            try:
                shorter = judge.compare(ast.Lt(), L, Lin.atom("M"))
            except NeedAtom:
                pass
            if shorter:
                ce = judge.num(ceff)
                disc = L - ce  # = n_counts[hi] - n_counts[lo]
                pos = [a for a, c_ in disc.terms.items() if c_ == 1]
                neg = [a for a, c_ in disc.terms.items() if c_ == -1]
                if len(pos) != 1 or len(neg) != 1 or disc.const != 0 or not pos[0].startswith("self.n_counts[") or not neg[0].startswith("self.n_counts["):
                    bad3.append(("effective length is not length - (n_counts[hi] - n_counts[lo])", ce.key()))
                    continue
                hi_k, lo_k = pos[0][len("self.n_counts["):-1], neg[0][len("self.n_counts["):-1]
                hi, lo = _parse_lin(hi_k), _parse_lin(lo_k)
                if hi is None or lo is None or (hi - lo) != L:
                    bad3.append(("N window", {"hi": hi_k, "lo": lo_k, "hi-lo": (hi - lo).key() if hi is not None and lo is not None else None, "length": L.key()}))
            elif shorter is False:
                if vkey(ceff) != "self.effective_length":
                    bad3.append(("full-length match must use the adapter's effective length", vkey(ceff)))
        elif r.valuation.get("truthy:self.wildcard_ref") is False:
            if vkey(ceff) != vkey(length):
                bad3.append(("without adapter wildcards the effective length is the length", vkey(ceff), vkey(length)))
    report.ob("C01.R2", f"Aligner.locate: {label}", not bad2 and n_rec > 0, facts={"paths": len(rows), "recording_paths": n_rec, "problems": [str(b)[:260] for b in bad2[:3]], "uses_stale_origin_of_column_loop": stale},
              expected="best.* assigned only under length >= min_overlap and cost <= cur_effective_length * max_error_rate; it records the candidate's own cost and score", loc=loc, cases=len(rows),
              why=str(bad2[0])[:240] if bad2 else "")
    report.ob("C01.R3", f"Aligner.locate: {label}: N-discount window", not bad3, facts={"problems": [str(b)[:260] for b in bad3[:3]]},
              expected="wildcard_ref and partial match: length - (n_counts[hi] - n_counts[lo]) with hi - lo = length; full length: effective_length; no adapter wildcards: length", loc=loc,
              why=str(bad3[0])[:240] if bad3 else "")


def _parse_lin(key: str):
    """parse the canonical key of a linear form over simple atoms back into a Lin (atoms without +/- inside)"""
    import re

    out = Lin.k(0)
    s = key.replace(" ", "")
    if not s:
        return None
    toks = re.findall(r"[+-]?[^+-]+", s)
    for t in toks:
        sign = -1 if t.startswith("-") else 1
        t = t.lstrip("+-")
        m = re.fullmatch(r"(\d+)\*(.+)", t)
        if m:
            out = out + Lin.atom(m.group(2)).scale(sign * int(m.group(1)))
        elif re.fullmatch(r"\d+", t):
            out = out + sign * int(t)
        else:
            if "(" in t or "[" in t:
                # atoms with brackets: keep whole
                out = out + Lin.atom(t).scale(sign)
            else:
                out = out + Lin.atom(t).scale(sign)
    return out


def r2_r3_acceptance(repo, report):
    fn, col_loop, cell_loop, site1, scan_if, site2 = _locate_fragments(repo)
    ok = src(site1.test) in ("stop_in_query", "self.stop_in_query")
    report.ob("C01.R2", "last-row candidates only if the read may continue after the adapter", ok, facts={"test": src(site1.test)}, expected="elif stop_in_query", loc=repo.loc(site1))
    _check_site(repo, report, "last-row candidate", site1.body, repo.loc(site1), "m")
    _check_site(repo, report, "last-column scan", site2.body, repo.loc(site2), "i")
    # every other assignment to best.* is the initialisation before the loops
    others = []
    for n in ast.walk(fn):
        if isinstance(n, ast.Assign) and (chain(n.targets[0]) or "").startswith("best."):
            inside = any(n in list(ast.walk(x)) for x in (site1, site2))
            if not inside:
                others.append((n.lineno, src(n)))
    first_loop_line = col_loop.lineno
    ok = all(ln < first_loop_line for ln, _ in others) and len(others) >= 3
    report.ob("C01.R2", "no other assignment to the best match inside the search", ok, facts={"initialisation": [s for _, s in others]}, expected="best.* is assigned only at the initialisation and at the two candidate sites", loc=repo.loc(fn))
    # no match <=> best.cost still has its initial value
    init_cost = [s for _, s in others if s.startswith("best.cost")]
    nomatch = [n for n in strip_docstring(fn.body) if isinstance(n, ast.If) and src(n.test).startswith("best.cost ==") and isinstance(n.body[0], ast.Return)]
    ok = len(init_cost) == 1 and len(nomatch) == 1 and src(nomatch[0].test).split("==")[1].strip() == init_cost[0].split("=", 1)[1].strip()
    report.ob("C01.R2", "None iff no candidate was recorded", ok, facts={"initial": init_cost, "test": src(nomatch[0].test) if nomatch else None}, expected="best.cost keeps its initial sentinel value iff nothing was accepted", loc=repo.loc(fn))


def r4_prefix_sums(repo, report):
    c, fn = repo.need_method("Aligner", "_set_reference")
    loops = [n for n in ast.walk(fn) if isinstance(n, ast.For) and any(isinstance(x, ast.Subscript) and chain(x.value) == "self.n_counts" for x in ast.walk(n))]
    if len(loops) != 1:
        raise Unrecognised("_set_reference: prefix-sum loop not found", repo.loc(fn))
    lp = loops[0]
    iv = lp.target.id
    cnt = [n.targets[0].id for n in strip_docstring(fn.body) if isinstance(n, ast.Assign) and isinstance(n.targets[0], ast.Name) and isinstance(n.value, ast.Constant) and n.value.value == 0]
    if len(cnt) != 1:
        raise Unrecognised("_set_reference: counter variable not found", repo.loc(fn))
    C = cnt[0]
    rows = explore(repo, lp.body, {"self": Obj("self", nonnull=True), "reference": Obj("REF", nonnull=True), iv: Lin.atom("I"), C: Lin.atom("COUNT")}, inline=False, loop_mode="forbid")
    bad = []
    for r in rows:
        st = [e for e in r.effects if e[0] == "store" and e[1].startswith("self.n_counts[")]
        isn = any(v is True for k, v in r.valuation.items() if k.startswith("eq:REF[I]:'"))
        if len(st) != 1 or st[0][1] != "self.n_counts[I]" or st[0][2] != "COUNT":
            bad.append(("n_counts[i] must be stored with the count BEFORE position i is looked at", [e[1:3] for e in st]))
        fin = r.env[C]
        if isn and fin != Lin.atom("COUNT") + 1:
            bad.append(("N position does not increment", vkey(fin)))
        if not isn and fin != Lin.atom("COUNT"):
            bad.append(("non-N position increments", vkey(fin)))
    atoms = sorted({k for r in rows for k in r.valuation})
    ok_chars = atoms == ["eq:REF[I]:'N'", "eq:REF[I]:'n'"]
    report.ob("C01.R4", "_set_reference: prefix sums", not bad and ok_chars and src(lp.iter) == "range(self.m)", facts={"paths": len(rows), "atoms": atoms, "problems": [str(b)[:200] for b in bad[:2]]},
              expected="for i in range(m): n_counts[i] = count; count += (reference[i] in 'nN')", loc=repo.loc(lp), cases=len(rows), why=str(bad[0])[:200] if bad else "")
    body = strip_docstring(fn.body)
    after = body[body.index(lp) + 1:] if lp in body else []
    fin = [s for s in after if isinstance(s, ast.Assign) and src(s.targets[0]) == "self.n_counts[self.m]" and src(s.value) == C]
    report.ob("C01.R4", "_set_reference: total at n_counts[m]", len(fin) == 1, facts={"statement": src(fin[0]) if fin else None}, expected=f"self.n_counts[self.m] = {C} after the loop", loc=repo.loc(fn))
    eff = [s for s in ast.walk(fn) if isinstance(s, ast.Assign) and chain(s.targets[0]) == "self.effective_length"]
    ok = any(src(s.value) == "self.m - self.n_counts[self.m]" and isinstance(getattr(s, "_parent", None), ast.If) and src(s._parent.test) == "self.wildcard_ref" for s in eff) and any(src(s.value) == "self.m" for s in eff)
    report.ob("C01.R4", "effective length = m - number of N (only with adapter wildcards)", ok, facts={"assignments": [src(s) for s in eff]}, expected="m; under wildcard_ref: m - n_counts[m]", loc=repo.loc(fn))


def _cell_table(repo, report, label, stmts, env, names, loc):
    """names: (diag, deletion, insertion) cost variables; checks the three-way minimum cascade"""
    rows = explore(repo, stmts, env, inline=False, loop_mode="forbid")
    bad = []
    d, dl, ins = [Lin.atom(x) for x in names]
    for r in rows:
        judge = Executor(None, r.valuation)
        sel = r.env.get("cost")
        if sel is None:
            sel = r.env.get("c")
        try:
            le_d = judge.compare(ast.LtE(), judge.num(sel), d)
            le_dl = judge.compare(ast.LtE(), judge.num(sel), dl)
            le_in = judge.compare(ast.LtE(), judge.num(sel), ins)
        except NeedAtom:
            bad.append(("the selected cost is not compared with all three candidates", r.describe()["valuation"]))
            continue
        if not (le_d and le_dl and le_in):
            bad.append(("the selected cost is not the minimum", vkey(sel), r.describe()["valuation"]))
            continue
        try:
            diag_min = judge.compare(ast.LtE(), d, dl) and judge.compare(ast.LtE(), d, ins)
        except NeedAtom:
            diag_min = None
        if diag_min and judge.num(sel) != d:
            bad.append(("the diagonal is minimal but another predecessor is chosen", vkey(sel)))
    return rows, bad


def _edit_environment_cell(repo, report, ee):
    """The DP cell of edit_environment (sibling of the aligner's cell), explored as a whole.  The cost and match tables
    are row-major arrays; the predecessors are identified by their index distance from the cell that is written
    (polynomial normal form of the index expressions): -1 = same row, -stride = previous row, -stride-1 = diagonal."""
    from ..absint import entails

    cells = []
    for lp in ast.walk(ee):
        if isinstance(lp, ast.For):
            st = [x for x in lp.body if isinstance(x, ast.Assign) and isinstance(x.targets[0], ast.Subscript) and isinstance(x.targets[0].value, ast.Name) and isinstance(x.value, ast.Name)]
            if len(st) == 2 and any(isinstance(x, ast.If) for x in lp.body):
                cells.append((lp, st))
    if len(cells) != 1:
        raise Unrecognised("edit_environment: DP cell loop (two table stores after a cascade) not found", repo.loc(ee))
    lp, st = cells[0]
    tables = [x.targets[0].value.id for x in st]
    body = lp.body[: max(lp.body.index(x) for x in st) + 1]
    subscripted = {n_.value.id for x in body for n_ in ast.walk(x) if isinstance(n_, ast.Subscript) and isinstance(n_.value, ast.Name)}
    assigned = {n_.id for x in body for n_ in ast.walk(x) if isinstance(n_, ast.Name) and isinstance(n_.ctx, ast.Store)} | {n_.id for n_ in ast.walk(lp.target) if isinstance(n_, ast.Name)}
    free = {n_.id for x in body for n_ in ast.walk(x) if isinstance(n_, ast.Name) and isinstance(n_.ctx, ast.Load)} - assigned
    env = {}
    for nm in sorted(free | {n_.id for n_ in ast.walk(lp.target) if isinstance(n_, ast.Name)}):
        if nm in tables:
            env[nm] = Obj(f"T{tables.index(nm)}", nonnull=True)
        elif nm in subscripted:
            env[nm] = Obj(f"A_{nm}", nonnull=True)
        elif nm not in ("min", "max", "range", "len"):
            env[nm] = Lin.atom(f"v_{nm}")
    rows = explore(repo, body, env, inline=False, loop_mode="forbid")
    report.saw(function="_align.edit_environment DP cell", valuations=len(rows))
    ex0 = Executor(repo, {})
    cell = [ex0.num(ex0.ev(x.targets[0].slice, env)) for x in st]
    problems = []
    if cell[0] != cell[1]:
        problems.append(("cost and match count are written to different cells", cell[0].key(), cell[1].key()))
    C = cell[0]
    compared = {k for r in rows for k in r.valuation if k.startswith("sign:")}
    tc = "T0" if any("T0[" in k for k in compared) else "T1"
    tm = "T1" if tc == "T0" else "T0"
    reads = []
    for x in body:
        for n_ in ast.walk(x):
            if isinstance(n_, ast.Subscript) and isinstance(n_.ctx, ast.Load) and isinstance(n_.value, ast.Name) and n_.value.id == tables[int(tc[1])]:
                reads.append(ex0.num(ex0.ev(n_.slice, env)) - C)
    dist = sorted({d.key() for d in reads})
    stride = [d for d in reads if not d.is_const()]
    ok_shape = len(dist) == 3 and any(d == Lin.k(-1) for d in reads) and stride and all(any(d == x for x in (Lin.k(-1), s_, s_ - 1)) for d in reads for s_ in [max(stride, key=lambda z: z.const)])
    if not ok_shape:
        problems.append(("the three predecessors are not (same row - 1, previous row, previous row - 1)", dist))
    else:
        S = max(stride, key=lambda z: z.const)  # -stride
        at = lambda t, d: Lin.atom(f"{t}[{(C + d).key()}]")
        chars = sorted({k for k in compared if "T0[" not in k and "T1[" not in k})
        if len(chars) != 1:
            problems.append(("exactly one character comparison expected in the cell", chars))
        for r in rows:
            if problems:
                break
            delta = 0 if r.valuation.get(chars[0]) == 0 else 1
            D, L, U = at(tc, S - 1) + delta, at(tc, Lin.k(-1)) + 1, at(tc, S) + 1
            stores = {e_[1][:2]: e_[2] for e_ in r.effects if e_[0] == "store" and e_[1][:3] in ("T0[", "T1[")}
            cands = {"diagonal": (D, at(tm, S - 1) + (1 - delta)), "same row": (L, at(tm, Lin.k(-1))), "previous row": (U, at(tm, S))}
            chosen = [k for k, (cv, mv) in cands.items() if stores.get(tc) == cv.key()]
            if not chosen:
                problems.append(("the cost written is none of the three candidates", stores.get(tc)))
                continue
            sel = cands[chosen[0]][0]
            mins = [entails(r.valuation, ast.LtE(), sel, x) for x in (D, L, U)]
            if not all(m_ is True for m_ in mins):
                problems.append(("the cost written is not the minimum of the three candidates", stores.get(tc), r.describe()["valuation"]))
                continue
            d_min = entails(r.valuation, ast.LtE(), D, L) is True and entails(r.valuation, ast.LtE(), D, U) is True
            want = "diagonal" if d_min else ("same row" if entails(r.valuation, ast.LtE(), L, U) is True else "previous row")
            if cands[want][0].key() != stores.get(tc) or cands[want][1].key() != stores.get(tm):
                problems.append((f"expected the {want} predecessor (ties: diagonal, then same row)", stores, r.describe()["valuation"]))
    report.ob("C01.R5", "edit_environment cascade (sibling)", not problems and len(rows) >= 6, facts={"rows": len(rows), "cell": C.key(), "predecessor_distances": dist, "problems": [str(p_)[:240] for p_ in problems[:2]]},
              expected="cost = min(diagonal + mismatch, same row + 1, previous row + 1), ties diagonal > same row > previous row; the match count comes from the same predecessor (+1 on a diagonal match)", loc=repo.loc(lp), cases=len(rows),
              why=str(problems[0])[:220] if problems else "")


def r5_cell(repo, report):
    fn, col_loop, cell_loop, site1, scan_if, site2 = _locate_fragments(repo)
    # the if characters_equal: ... else: ... statement
    branch = [s for s in cell_loop.body if isinstance(s, ast.If) and src(s.test) == "characters_equal"]
    if len(branch) != 1:
        raise Unrecognised("Aligner.locate: match/mismatch branch of the DP cell not found", repo.loc(cell_loop))
    env = {"diag_entry": Obj("DIAG", nonnull=True), "column": Obj("COL", nonnull=True), "i": Lin.atom("I"), "insertion_cost": Lin.atom("INS_COST"), "deletion_cost": Lin.atom("DEL_COST"),
           "match_score": Lin.atom("MATCH"), "mismatch_score": Lin.atom("MISMATCH"), "insertion_score": Lin.atom("INS_SCORE"), "deletion_score": Lin.atom("DEL_SCORE")}
    rows = explore(repo, branch[0].body, env, inline=False, loop_mode="forbid")
    ok = len(rows) == 1 and vkey(rows[0].env["cost"]) == "DIAG.cost" and vkey(rows[0].env["origin"]) == "DIAG.origin" and vkey(rows[0].env["score"]) == (Lin.atom("DIAG.score") + Lin.atom("MATCH")).key()
    report.ob("C01.R5", "DP cell: character match", ok, facts={k: vkey(rows[0].env[k]) for k in ("cost", "origin", "score")} if rows else {}, expected="cost = diagonal cost (unchanged), origin = diagonal origin, score = diagonal score + match", loc=repo.loc(branch[0]))
    rows = explore(repo, branch[0].orelse, env, inline=False, loop_mode="forbid")
    report.saw(function="Aligner.locate DP cell", valuations=len(rows))
    bad = []
    CD = Lin.atom("DIAG.cost") + 1
    CI = Lin.atom("COL[I].cost") + Lin.atom("INS_COST")
    CL = Lin.atom("COL[I-1].cost") + Lin.atom("DEL_COST")
    for r in rows:
        judge = Executor(None, r.valuation)
        sel = judge.num(r.env["cost"])
        from ..absint import entails

        mins = [entails(r.valuation, ast.LtE(), sel, x) for x in (CD, CI, CL)]
        if any(m_ is None for m_ in mins):
            bad.append(("cannot judge minimality", r.describe()["valuation"]))
            continue
        if not all(mins):
            bad.append(("the selected cost is not forced to be the minimum of (diagonal + 1, insertion, deletion)", vkey(r.env["cost"]), r.describe()["valuation"]))
            continue
        diag_min = entails(r.valuation, ast.LtE(), CD, CI) is True and entails(r.valuation, ast.LtE(), CD, CL) is True
        if diag_min and sel != CD:
            bad.append(("diagonal minimal but not chosen", vkey(r.env["cost"])))
        # consistent predecessor
        src_of = "DIAG" if sel == CD else "COL[I]" if sel == CI else "COL[I-1]" if sel == CL else None
        if sel == CD and sel == CI:
            src_of = "DIAG"
        want_or = {"DIAG": "DIAG.origin", "COL[I]": "COL[I].origin", "COL[I-1]": "COL[I-1].origin"}.get(src_of)
        want_sc = {"DIAG": (Lin.atom("DIAG.score") + Lin.atom("MISMATCH")).key(), "COL[I]": (Lin.atom("COL[I].score") + Lin.atom("INS_SCORE")).key(), "COL[I-1]": (Lin.atom("COL[I-1].score") + Lin.atom("DEL_SCORE")).key()}.get(src_of)
        if vkey(r.env["origin"]) != want_or or vkey(r.env["score"]) != want_sc:
            bad.append(("origin/score do not come from the predecessor that gave the cost", src_of, vkey(r.env["origin"]), vkey(r.env["score"])))
    report.ob("C01.R5", "DP cell: mismatch cascade", not bad and len(rows) >= 3, facts={"rows": len(rows), "problems": [str(b)[:220] for b in bad[:3]]},
              expected="cost = min(diag + 1, insertion, deletion), diagonal preferred on ties; origin and score from the same predecessor (mismatch / insertion / deletion score)", loc=repo.loc(branch[0]), cases=len(rows),
              why=str(bad[0])[:220] if bad else "")
    # the cell is written back and the diagonal saved before overwriting
    tail = [src(s) for s in cell_loop.body[cell_loop.body.index(branch[0]) + 1:]]
    ok = tail == ["diag_entry = column[i]", "column[i].cost = cost", "column[i].origin = origin", "column[i].score = score"]
    report.ob("C01.R5", "DP cell: write-back", ok, facts={"statements": tail}, expected="diag_entry = column[i] (old value) before column[i] is overwritten with (cost, origin, score)", loc=repo.loc(cell_loop))
    # character comparison uses reference[i-1] and query[j-1]
    ce = assigning_stmts(cell_loop, "characters_equal")
    ok = False
    tblc = {}
    if len(ce) == 1:
        rws = explore(repo, [ce[0]], {"compare_ascii": Obj("ASCII"), "s1": Obj("S1", nonnull=True), "s2": Obj("S2", nonnull=True), "i": Lin.atom("I"), "j": Lin.atom("J")}, inline=False)
        for r_ in rws:
            a_ = r_.valuation.get("truthy:ASCII")
            other = sorted(k for k in r_.valuation if k != "truthy:ASCII")
            tblc.setdefault(str(a_), set()).update(other)
        ok = tblc.get("True") == {"sign:S1[I-1]-S2[J-1]"} and tblc.get("False") == {"sign:(S1[I-1]&S2[J-1])"}
    report.ob("C01.R5", "DP cell: character comparison", ok, facts={"decides_on": {k: sorted(v) for k, v in tblc.items()}}, expected="ASCII: s1[i-1] == s2[j-1]; encoded: (s1[i-1] & s2[j-1]) != 0", loc=repo.loc(cell_loop))
    # siblings: edit_environment and the Python reference implementations use the same cascade
    ee = repo.func("_align", "edit_environment")
    _edit_environment_cell(repo, report, ee)


def r6_rate_precision(repo, report):
    """The error rate arrives as a Python float (a C double). Every typed slot it passes through in the Cython modules -
    attribute, parameter, local - is a double: a C float rounds 0.08 down to 0.0799999982, and int(rate * 25) is then 1
    where the documented bound floor(0.08 * 25) is 2."""
    slots = []
    for mname, m in sorted(repo.modules.items()):
        if m.kind != "pyx":
            continue
        for n in ast.walk(m.tree):
            if isinstance(n, ast.AnnAssign) and isinstance(n.target, ast.Name) and "rate" in n.target.id:
                slots.append((f"{m.relpath}:{n.target.id}", src(n.annotation).strip("'\""), n.lineno))
            elif isinstance(n, ast.arg) and "rate" in n.arg and n.annotation is not None:
                slots.append((f"{m.relpath}:{n.arg}", src(n.annotation).strip("'\""), n.lineno))
            # a typed local that receives the rate or a product with it
            elif isinstance(n, ast.AnnAssign) and n.value is not None and isinstance(n.target, ast.Name) and src(n.annotation).strip("'\"") in ("float", "double") \
                    and any(isinstance(x, (ast.Name, ast.Attribute)) and "rate" in (chain(x) or "") for x in ast.walk(n.value)):
                slots.append((f"{m.relpath}:{n.target.id}", src(n.annotation).strip("'\""), n.lineno))
    narrow = [f"{w} is declared '{t}' (line {ln})" for w, t, ln in slots if t != "double"]
    report.ob("C01.R6", "the error rate is held in double precision throughout", not narrow, facts={"slots": len(slots), "narrow": narrow[:3]}, loc="src/cutadapt/_align.pyx", cases=len(slots),
              expected="every C declaration that holds the maximum error rate is 'double'",
              why=(f"{narrow[0]}: the rate is rounded to single precision before it is multiplied with the length, so for rates such as 0.02, 0.04, 0.08, 0.12 an occurrence with exactly rate x length errors is no longer admitted" if narrow else ""))
    report.floor("C01.R6", "typed slots that hold the error rate", len(slots), 5)


def r6_comparers(repo, report):
    c, loc_ = repo.need_method("PrefixComparer", "locate")
    body = strip_docstring(loc_.body)
    # the tail after the counting loops
    tail = []
    seen_loop = False
    for s in body:
        if isinstance(s, ast.If) and any(isinstance(x, ast.For) for x in ast.walk(s)):
            seen_loop = True
            continue
        if seen_loop:
            tail.append(s)
    rows = explore(repo, tail, {"self": Obj("self", nonnull=True), "errors": Lin.atom("ERRORS"), "length": Lin.atom("LENGTH")}, inline=False)
    roles = {"e": Sign(Lin.atom("ERRORS") - Lin.atom("self.max_k")), "l": Sign(Lin.atom("LENGTH") - Lin.atom("self.min_overlap"))}

    def outcome(r):
        v = r.exit[1]
        if isinstance(v, Const) and v.value is None:
            return "None"
        return vkey(v)

    score = (Lin.atom("LENGTH") - Lin.atom("ERRORS")).scale(1) + Lin.atom("ERRORS").scale(-1)
    want_t = f"(0, LENGTH, 0, LENGTH, {score.key()}, ERRORS)"
    mism, n, _ = check_table(rows, roles, lambda rv: "None" if (rv["e"] > 0 or rv["l"] < 0) else want_t, outcome)
    report.ob("C01.R6", "PrefixComparer.locate: acceptance and result", not mism, facts={"mismatches": mism[:3]}, expected=f"None iff errors > max_k or length < min_overlap; else {want_t} (score = matches - mismatches)", loc=repo.loc(loc_), cases=n,
              why=str(mism[0]) if mism else "")
    ln = [s for s in body if isinstance(s, ast.AnnAssign) and chain(s.target) == "length"]
    ok = len(ln) == 1 and src(ln[0].value) == "min(self.m, n)"
    loops = [x for x in ast.walk(loc_) if isinstance(x, ast.For)]
    ok = ok and len(loops) == 2 and all(src(l.iter) == "range(length)" for l in loops)
    tests = [src(x.test) for l in loops for x in l.body if isinstance(x, ast.If)]
    ok = ok and tests == [nsrc("r_ptr[i] != q_ptr[i]"), nsrc("r_ptr[i] & q_ptr[i] == 0")]
    report.ob("C01.R6", "PrefixComparer.locate: error count", ok, facts={"length": src(ln[0].value) if ln else None, "tests": tests}, expected="length = min(m, n); errors = number of positions i < length with differing (resp. non-intersecting) characters", loc=repo.loc(loc_))
    c, pi = repo.need_method("PrefixComparer", "__init__")
    mk = [src(n.value) for n in ast.walk(pi) if isinstance(n, ast.Assign) and chain(n.targets[0]) == "self.max_k"]
    report.ob("C01.R6", "PrefixComparer: max_k", mk == ["int(max_error_rate * self.effective_length)"], facts={"max_k": mk}, expected="int(max_error_rate * effective_length)", loc=repo.loc(pi))
    c, sl = repo.need_method("SuffixComparer", "locate")
    rets = [src(n.value) for n in ast.walk(sl) if isinstance(n, ast.Return) and n.value is not None and not (isinstance(n.value, ast.Constant) and n.value.value is None)]
    unp = [src(n) for n in ast.walk(sl) if isinstance(n, ast.Assign) and isinstance(n.targets[0], ast.Tuple)]
    ok = rets == ["(self.m - length, self.m, n - length, n, score, errors)"] and unp == ["_, length, _, _, score, errors = result"] and "super().locate(query[::-1])" in src(sl)
    c, si = repo.need_method("SuffixComparer", "__init__")
    ok = ok and "super().__init__(reference[::-1], max_error_rate, wildcard_ref, wildcard_query, min_overlap)" in src(si)
    report.ob("C01.R6", "SuffixComparer: mirror", ok, facts={"returns": rets, "unpack": unp}, expected="prefix comparison of the reversed strings; (m - length, m, n - length, n, score, errors)", loc=repo.loc(sl))


def r7_tuple(repo, report):
    c, fn = repo.need_method("Aligner", "locate")
    rets = [n.value for n in ast.walk(fn) if isinstance(n, ast.Return) and isinstance(n.value, ast.Tuple)]
    ok = len(rets) == 1 and [src(e) for e in rets[0].elts] == ["ref_start", "best.ref_stop", "query_start", "best.query_stop", "best.score", "best.cost"]
    report.ob("C01.R7", "Aligner.locate result tuple", ok, facts={"returns": [src(e) for e in rets[0].elts] if rets else None}, expected="(ref_start, ref_stop, query_start, query_stop, score, cost)", loc=repo.loc(fn))
    # origin sign table
    body = strip_docstring(fn.body)
    sel = [s for s in body if isinstance(s, ast.If) and src(s.test).startswith("best.origin")]
    ok = False
    tbl = {}
    if len(sel) == 1:
        rows = explore(repo, [sel[0]], {"best": Obj("BEST", nonnull=True)}, inline=False)
        for r in rows:
            s_ = r.valuation.get("sign:BEST.origin")
            tbl[str(s_)] = (vkey(r.env.get("ref_start")), vkey(r.env.get("query_start")))
        ok = tbl == {"-1": ("-BEST.origin", "0"), "0": ("0", "BEST.origin"), "1": ("0", "BEST.origin")}
    report.ob("C01.R7", "start positions from the sign of the origin", ok, facts=tbl, expected="origin >= 0: (ref 0, query origin); origin < 0: (ref -origin, query 0)", loc=repo.loc(sel[0]) if sel else repo.loc(fn))
    c, mi = repo.need_method("SingleMatch", "__init__")
    ps = params(mi)[1:]
    report.ob("C01.R7", "SingleMatch.__init__ parameter order", ps[:6] == ["astart", "astop", "rstart", "rstop", "score", "errors"], facts={"parameters": ps}, expected=["astart", "astop", "rstart", "rstop", "score", "errors", "adapter", "sequence"], loc=repo.loc(mi))
    st = {chain(t if not isinstance(n, ast.AnnAssign) else n.target): src(n.value) for n in ast.walk(mi) if isinstance(n, (ast.Assign, ast.AnnAssign)) and n.value is not None for t in ([n.target] if isinstance(n, ast.AnnAssign) else n.targets) if chain(t)}
    ok = all(st.get(f"self.{p}") == p for p in ("astart", "astop", "rstart", "rstop", "score", "errors", "adapter", "sequence")) and st.get("self.length") == "astop - astart"
    report.ob("C01.R7", "SingleMatch.__init__ stores each component under its name", ok, facts={k: v for k, v in st.items() if k.startswith("self.")}, expected="self.x = x for the six components; length = astop - astart", loc=repo.loc(mi))
    # every SingleAdapter.match_to, explored whole: what is searched, and what the match is built from
    from ..absint import Tup, Const

    def match_to_outcomes(mt):
        seen = {"locate": set(), "kmers_present": set()}

        def hk(ex, node, env):
            f = chain(node.func)
            if f == "self.kmer_finder.kmers_present" and len(node.args) == 1:
                seen["kmers_present"].add(vkey(ex.ev(node.args[0], env)))
                return Obj("KP")
            if f == "self.aligner.locate" and len(node.args) == 1:
                seen["locate"].add(vkey(ex.ev(node.args[0], env)))
                if ex.ask_bool("isnone:AL"):
                    return Const(None)
                return Tup([Lin.atom(f"A{i}") for i in range(6)])
            if f == "print_matrices":
                return Const(None)
            if f in ("RemoveBeforeMatch", "RemoveAfterMatch"):
                pos = []
                for a_ in node.args:
                    if isinstance(a_, ast.Starred):
                        v = ex.ev(a_.value, env)
                        if not isinstance(v, Tup):
                            raise Unrecognised(f"starred argument of {f} is not a tuple: {src(a_)}")
                        pos += list(v.items)
                    else:
                        pos.append(ex.ev(a_, env))
                kw = {k.arg: vkey(ex.ev(k.value, env)) for k in node.keywords}
                return Obj(f"{f}({', '.join(vkey(x) for x in pos)} | adapter={kw.get('adapter')} sequence={kw.get('sequence')})", nonnull=True)
            return None

        rws = explore(repo, strip_docstring(mt.body), {"self": Obj("self", nonnull=True), "sequence": Obj("SEQ", nonnull=True)}, call_hook=hk, inline=False)
        outs = {}
        for r_ in rws:
            if r_.exit[0] != "return":
                outs.setdefault(f"<{r_.exit[0]}>", []).append(dict(r_.valuation))
                continue
            outs.setdefault(vkey(r_.exit[1]), []).append(dict(r_.valuation))
        return seen, outs

    plain = "A0, A1, A2, A3, A4, A5"
    la, lr = Lin.atom("len(self.sequence)"), Lin.atom("len(SEQ)")
    mirrored = ", ".join(x.key() for x in (la - Lin.atom("A1"), la - Lin.atom("A0"), lr - Lin.atom("A3"), lr - Lin.atom("A2"), Lin.atom("A4"), Lin.atom("A5")))
    n = 0
    for cname in [c.name for c in repo.subclasses("SingleAdapter")]:
        cls = repo.cls(cname)
        if "match_to" not in cls.methods:
            continue
        mt = cls.methods["match_to"]
        seen, outs = match_to_outcomes(mt)
        rightmost = cname == "RightmostFrontAdapter"
        want_args = mirrored if rightmost else plain
        want_search = {"SEQ[::-1]"} if rightmost else {"SEQ", "SEQ.upper()"}
        ctors = sorted(k.split("(")[0] for k in outs if k.startswith("Remove"))
        bad = [k for k in outs if k != "None" and not (k.startswith("Remove") and k.endswith(f"({want_args} | adapter=self sequence=SEQ)"))]
        n += len(ctors)
        ok = not bad and ctors and seen["locate"] and seen["locate"] <= want_search and seen["kmers_present"] <= want_search and (not rightmost or seen["kmers_present"] == want_search)
        # a match is returned exactly when the aligner returned an alignment (and the prefilter did not reject)
        for k, vals in outs.items():
            for v in vals:
                if k == "None" and v.get("isnone:AL") is False and v.get("truthy:KP") is not False:
                    ok = False
                    bad.append("returns None although an alignment was found")
                if k == "None" and "isnone:AL" not in v and v.get("truthy:KP") is not False:
                    ok = False
                    extra = sorted(a for a in v if a not in ("isnone:AL", "truthy:KP", "truthy:self._debug"))
                    bad.append(f"returns None without asking the aligner (path condition {extra[:2]}): the aligner alone decides whether an occurrence within the tolerance exists, e.g. an anchored adapter minus one deleted base in a read shorter than the adapter")
                if k.startswith("Remove") and v.get("isnone:AL") is not False:
                    ok = False
        report.ob("C01.R7", f"{cname}.match_to: match built from the alignment", bool(ok), facts={"searched": {k: sorted(v) for k, v in seen.items()}, "returns": sorted(outs)},
                  expected=f"Match({want_args}, adapter=self, sequence=sequence) from locate({'reversed read' if rightmost else 'read'}); None iff prefilter rejects or no alignment", loc=repo.loc(mt),
                  why=(f"unexpected outcome {bad[0]}" if bad else ""))
        if cname == "AnywhereAdapter":
            tbl7 = {}
            for k, vals in outs.items():
                if k.startswith("Remove"):
                    for v in vals:
                        tbl7.setdefault(str(v.get("sign:A2")), set()).add(k.split("(")[0])
            tbl7 = {k: sorted(v) for k, v in tbl7.items()}
            report.ob("C01.R7", "AnywhereAdapter: 5' match iff rstart == 0", tbl7 == {"0": ["RemoveBeforeMatch"], "-1": ["RemoveAfterMatch"], "1": ["RemoveAfterMatch"]},
                      facts={"table": tbl7}, expected="alignment[2] (rstart) == 0 -> RemoveBeforeMatch, else RemoveAfterMatch", loc=repo.loc(mt))
        else:
            want_ctor = "RemoveBeforeMatch" if any(b.name == "FrontAdapter" or b.name == "NonInternalFrontAdapter" for b in repo.mro(cname)) or cname in ("FrontAdapter", "NonInternalFrontAdapter") else "RemoveAfterMatch"
            report.ob("C01.R7", f"{cname}.match_to: kind of match", ctors == [want_ctor], facts={"constructs": ctors}, expected=want_ctor, loc=repo.loc(mt))
    report.floor("C01.R7", "match constructions", n, 7)


IUPAC = {"X": 0, "A": 1, "C": 2, "G": 4, "T": 8, "U": 8, "R": 1 | 4, "Y": 2 | 8, "S": 4 | 2, "W": 1 | 8, "K": 4 | 8, "M": 1 | 2, "B": 2 | 4 | 8, "D": 1 | 4 | 8, "H": 1 | 2 | 8, "V": 1 | 2 | 4, "N": (1 | 2 | 4 | 8) + 0x80}


def r8_tables(repo, report):
    def want_table(codes, default):
        t = bytearray([default]) * 256
        for c, v in codes.items():
            t[ord(c)] = v
            t[ord(c.lower())] = v
        return bytes(t)

    def table_of(name):
        f_ = repo.func("_match_tables", name)
        try:
            return f_, constfold.fold_function(f_)
        except constfold.NotConstant as e:
            return f_, f"not a closed table construction: {e}"
        except Exception as e:  # a construction that cannot be evaluated (e.g. a value out of byte range)
            return f_, f"table construction fails: {type(e).__name__}: {e}"

    def table_diff(got, want):
        if not isinstance(got, bytes) or len(got) != 256:
            return {"table": got if isinstance(got, str) else f"{type(got).__name__} of length {len(got) if hasattr(got, '__len__') else '?'}"}
        return {repr(chr(i)): (got[i], want[i]) for i in range(256) if got[i] != want[i]}

    fn, got = table_of("_iupac_table")
    diff = table_diff(got, want_table(IUPAC, 0))
    report.ob("C01.R8", "_iupac_table codes", not diff, facts={"differences (got, expected)": dict(list(diff.items())[:8])},
              expected="the IUPAC nucleotide codes as 4-bit sets in both cases, X = 0, U = T, N with bit 0x80, every other byte 0", loc=repo.loc(fn), cases=256,
              why=f"entry {next(iter(diff))} is {diff[next(iter(diff))]}" if diff else "")
    fa, got = table_of("_acgt_table")
    diff = table_diff(got, want_table(dict(A=1, C=2, G=4, T=8, U=8), 0x80))
    report.ob("C01.R8", "_acgt_table", not diff, facts={"differences (got, expected)": dict(list(diff.items())[:8])}, expected="A/C/G/T/U (both cases) -> 1/2/4/8/8, everything else 0x80", loc=repo.loc(fa), cases=256)
    fu, got = table_of("_upper_table")
    diff = table_diff(got, bytes(range(256)).upper())
    report.ob("C01.R8", "_upper_table", not diff, facts={"differences (got, expected)": dict(list(diff.items())[:8])}, expected="bytes(range(256)).upper()", loc=repo.loc(fu), cases=256)
    # table choice in Aligner._set_reference / locate and PrefixComparer
    c, sr = repo.need_method("Aligner", "_set_reference")
    c, lo = repo.need_method("Aligner", "locate")
    c, pi = repo.need_method("PrefixComparer", "__init__")
    c, pl = repo.need_method("PrefixComparer", "locate")

    def tables_in(fn_):
        """{(wildcard_ref, wildcard_query) truth -> table used to translate}, decided by exploring the statement
        that chooses the table (shape-insensitive: if/elif chain, conditional expression, negated tests...)"""
        cands = [x for x in ast.walk(fn_) if isinstance(x, (ast.If, ast.Assign, ast.AnnAssign)) and "wildcard" in src(x)
                 and sum(1 for c_ in ast.walk(x) if isinstance(c_, ast.Call) and chain(c_.func) == "translate") >= 2]
        tops = [x for x in cands if not any(y is not x and x in list(ast.walk(y)) for y in cands)]
        if len(tops) != 1:
            return None

        def hk(ex, node, env):
            f = chain(node.func)
            if f == "translate" and len(node.args) == 2:
                return Obj("T:" + src(node.args[1]), nonnull=True)
            if f and f.endswith(".encode"):
                return Obj("T:raw", nonnull=True)
            return None

        rws = explore(repo, [tops[0]], {"self": Obj("self", nonnull=True), "reference": Obj("STR", nonnull=True), "query": Obj("STR", nonnull=True)},
                      call_hook=hk, inline=False, feasibility=False)
        out = {}
        for r_ in rws:
            if r_.exit[0] == "raise":
                continue
            wr, wq = r_.valuation.get("truthy:self.wildcard_ref"), r_.valuation.get("truthy:self.wildcard_query")
            vals = {vkey(v) for k, v in r_.env.items() if isinstance(v, Obj) and str(v.k).startswith("T:")}
            vals |= {e[2] for e in r_.effects if e[0] == "store" and str(e[2]).startswith("T:")}
            for wr_ in ([wr] if wr is not None else [True, False]):
                for wq_ in ([wq] if wq is not None else [True, False]):
                    out.setdefault(f"ref={int(wr_)},query={int(wq_)}", set()).update(vals)
        return {k: sorted(v) for k, v in sorted(out.items())}

    ref_want = {"ref=1,query=0": ["T:IUPAC_TABLE"], "ref=1,query=1": ["T:IUPAC_TABLE"], "ref=0,query=1": ["T:ACGT_TABLE"]}
    qry_want = {"ref=0,query=1": ["T:IUPAC_TABLE"], "ref=1,query=1": ["T:IUPAC_TABLE"], "ref=1,query=0": ["T:ACGT_TABLE"], "ref=0,query=0": ["T:UPPER_TABLE"]}
    t1, t2, t3, t4 = tables_in(sr), tables_in(lo), tables_in(pi), tables_in(pl)

    def agrees(t, want, rest=None):
        if t is None:
            return False
        w = dict(want)
        if rest is not None:
            w["ref=0,query=0"] = rest
        return all(t.get(k) == v for k, v in w.items()) and set(t) == {"ref=0,query=0", "ref=0,query=1", "ref=1,query=0", "ref=1,query=1"}

    ok = agrees(t1, ref_want, ["T:raw"]) and agrees(t2, qry_want) and agrees(t3, ref_want, ["T:UPPER_TABLE"]) and agrees(t4, qry_want)
    report.ob("C01.R8", "reference/query table choice agrees in Aligner and comparers", ok, facts={"Aligner._set_reference": t1, "Aligner.locate": t2, "PrefixComparer.__init__": t3, "PrefixComparer.locate": t4},
              expected={"reference": "wildcard_ref -> IUPAC; elif wildcard_query -> ACGT; else raw/upper", "query": "wildcard_query -> IUPAC; elif wildcard_ref -> ACGT; else UPPER"}, loc=repo.loc(lo))
    consts = {n.target.id if isinstance(n, ast.AnnAssign) else None: src(n.value) for n in repo.module("_align").tree.body if isinstance(n, ast.AnnAssign) and n.value is not None}
    ok = consts.get("ACGT_TABLE") == "_acgt_table()" and consts.get("IUPAC_TABLE") == "_iupac_table()" and consts.get("UPPER_TABLE") == "_upper_table()"
    report.ob("C01.R8", "table constants", ok, facts=consts, expected="ACGT_TABLE = _acgt_table(), IUPAC_TABLE = _iupac_table(), UPPER_TABLE = _upper_table()", loc="src/cutadapt/_align.pyx")


def r1_anchored_full_length(repo, report):
    """Anchored adapters (allows_partial_matches = False) must be found in full: their constructor forces
    min_overlap = len(sequence) whatever the caller passes (the command line always passes -O)."""
    n = 0
    for cls in repo.subclasses("SingleAdapter"):
        v = cls.class_attrs.get("allows_partial_matches")
        if not (isinstance(v, ast.Constant) and v.value is False):
            continue
        n += 1
        init = cls.methods.get("__init__")
        if init is None:
            report.ob("C01.R1", f"{cls.name}: full-length matches only", False, facts={}, expected="an __init__ that sets min_overlap = len(sequence)", loc=repo.loc(cls.node), why="no constructor forces the minimum overlap")
            continue
        ps = params(init)
        kw = init.args.kwarg.arg if init.args.kwarg else None
        va = init.args.vararg.arg if init.args.vararg else None
        if kw is None or len(ps) < 2:
            report.unrecognised("C01.R1", f"{cls.name}: full-length matches only", "constructor does not take (sequence, *args, **kwargs)", repo.loc(init))
            continue

        def hook(ex, node, env):
            if src(node.func) == "super().__init__":
                parts = [vkey(ex.ev(a.value if isinstance(a, ast.Starred) else a, env)) for a in node.args] + [f"**{vkey(ex.ev(k.value, env))}" if k.arg is None else f"{k.arg}={vkey(ex.ev(k.value, env))}" for k in node.keywords]
                ex.effect("call", "super().__init__", "|".join(parts), node)
                return Const(None)
            return None

        env = {"self": Obj("self", nonnull=True), ps[1]: Obj("SEQ", nonnull=True), kw: Obj("KW", nonnull=True)}
        if va:
            env[va] = Obj("ARGS", nonnull=True)
        rows = explore(repo, strip_docstring(init.body), env, call_hook=hook, inline=False)
        bad = []
        for r in rows:
            eff = [(e[0], e[1], e[2]) for e in r.effects]
            forced = [i for i, e in enumerate(eff) if e[0] == "store" and e[1] == "KW['min_overlap']" and e[2] == "len(SEQ)"]
            sup = [i for i, e in enumerate(eff) if e[0] == "call" and e[1] == "super().__init__"]
            if len(sup) != 1 or "**KW" not in eff[sup[0]][2] or not eff[sup[0]][2].startswith("SEQ"):
                bad.append(("the base constructor is not called with (sequence, ..., **kwargs)", eff))
            elif not forced or forced[-1] > sup[0]:
                bad.append(("min_overlap is not set to len(sequence) unconditionally before the base constructor runs", eff))
            elif any(e[0] in ("store", "call") and e[1].startswith("KW") and "min_overlap" in (e[1] + e[2]) and i > forced[-1] for i, e in enumerate(eff)):
                bad.append(("min_overlap is changed again after being forced", eff))
        report.ob("C01.R1", f"{cls.name}: full-length matches only", not bad and bool(rows), facts={"paths": len(rows), "problems": [str(b)[:240] for b in bad[:2]]},
                  expected="kwargs['min_overlap'] = len(sequence) on every path, then super().__init__(sequence, *args, **kwargs)", loc=repo.loc(init), cases=len(rows),
                  why=str(bad[0][0]) if bad else "")
    report.floor("C01.R1", "anchored adapter classes (allows_partial_matches = False)", n, 2)


def r1_min_overlap_clamp(repo, report):
    """The minimum overlap in force for an adapter is min(requested, len(adapter)): not larger (an adapter shorter than
    -O could never be found, not even as an exact copy) and not smaller (matches shorter than the documented minimum
    would be reported).  SingleAdapter.__init__ stores it; the aligners and the k-mer finder are built from that store."""
    from ..repo import expand, nsrc
    c, init = repo.need_method("SingleAdapter", "__init__")
    ps = params(init)
    mo = [p_ for p_ in ps if "overlap" in p_]
    st = [n for n in ast.walk(init) if isinstance(n, (ast.Assign, ast.AnnAssign)) and any(chain(t) == "self.min_overlap" for t in (n.targets if isinstance(n, ast.Assign) else [n.target]))]
    if len(mo) != 1 or len(st) != 1:
        raise Unrecognised("SingleAdapter.__init__: the min_overlap parameter / its one store in self.min_overlap not found", repo.loc(init))
    v = expand(init, st[0].value)
    ok = isinstance(v, ast.Call) and chain(v.func) == "min" and len(v.args) == 2 and not v.keywords and sorted(nsrc(src(a)) for a in v.args) == sorted([mo[0], nsrc("len(self.sequence)")])
    report.ob("C01.R1", "SingleAdapter: min_overlap in force is min(requested, adapter length)", ok, facts={"stored": src(v)}, expected=f"self.min_overlap = min({mo[0]}, len(self.sequence))", loc=repo.loc(st[0]),
              why="" if ok else f"self.min_overlap = {src(v)}: an adapter shorter than the requested overlap can no longer be found, or matches shorter than the documented minimum are accepted")
    # ... and at least 1. The command line refuses -O 0, but the same number also arrives through ';o=0' in a
    # specification and through the API. With 0 the aligner reports a zero-length "occurrence" at the end of every read
    # (nothing of the adapter was seen), while the k-mer prefilter - whose shortest k-mer is then the empty string of a
    # zero-length window - answers on its own terms: the two disagree.
    body = strip_docstring(init.body)
    idx = next(i for i, st_ in enumerate(body) if any(n is st[0] for n in ast.walk(st_)))
    p_ = mo[0]
    forms = {f"{p_} < 1", f"{p_} <= 0", f"1 > {p_}", f"0 >= {p_}", f"not {p_} >= 1", f"not {p_} > 0"}
    guard = [g for g in body[:idx] if isinstance(g, ast.If) and src(g.test) in forms and any(isinstance(x, ast.Raise) for x in g.body)]
    report.ob("C01.R1", "SingleAdapter: a minimum overlap below 1 is refused", len(guard) == 1, facts={"guards": [src(g.test) for g in guard]}, loc=repo.loc(init), fact_key="min-overlap-zero" if not guard else None,
              expected=f"if {p_} < 1: raise ValueError(...) before self.min_overlap is stored (every route - -O, ';o=', the API - passes here)",
              why="" if guard else "-a 'ADAPTER;o=0' (or min_overlap=0 through the API) is accepted: the alignment alone then reports an empty match (astop = 0, rstart = rstop = len(read), 0 errors) for a read that contains nothing of the adapter, e.g. GATCACAGTCT;o=0 on CACTGCTCACTCCAACCC, while the k-mer prefilter rejects the same read - the reported match depends on whether the prefilter is used, and the match that the aligner reports is no occurrence of the adapter")


def r5_first_column(repo, report):
    """The column the DP starts from: score, cost and origin of cell i for the four combinations of "the adapter's start
    may be skipped" (start_in_reference) and "the read's start may be skipped" (start_in_query).  A free start of the
    ADAPTER makes the skipped adapter bases free (score 0, cost of the read part only); a free start of the READ alone
    does not: the i skipped adapter bases are deletions (score i * deletion score, cost i)."""
    c, fn = repo.need_method("Aligner", "locate")

    def stores_column(st):
        return any(isinstance(n, ast.Assign) and isinstance(n.targets[0], ast.Attribute) and n.targets[0].attr in ("score", "cost", "origin") and isinstance(n.targets[0].value, ast.Subscript) for n in ast.walk(st))

    frag = []
    for st in fn.body:
        if isinstance(st, ast.With):
            break  # the nogil block holds the column loop proper
        if isinstance(st, (ast.If, ast.For)) and stores_column(st):
            frag.append(st)
    if not frag:
        raise Unrecognised("Aligner.locate: initialisation of the first column not found", repo.loc(fn))
    colname = None
    for n in ast.walk(frag[0]):
        if isinstance(n, ast.Assign) and isinstance(n.targets[0], ast.Attribute) and isinstance(n.targets[0].value, ast.Subscript):
            colname = chain(n.targets[0].value.value)
            break
    names = {x.id for st in frag for x in ast.walk(st) if isinstance(x, ast.Name)}
    bounds = sorted({src(l.iter) for st in frag for l in ast.walk(st) if isinstance(l, ast.For)})
    # every cell of the column is written: the column array is reused between calls, a cell that is not initialised keeps
    # what the previous read left there and is read as a neighbour as soon as the band grows
    mdefs = [n.targets[0].id for n in ast.walk(fn) if isinstance(n, ast.Assign) and isinstance(n.targets[0], ast.Name) and src(n.value) == "self.m"]
    mdefs += [n.target.id for n in ast.walk(fn) if isinstance(n, ast.AnnAssign) and isinstance(n.target, ast.Name) and n.value is not None and src(n.value) == "self.m"]
    if len(mdefs) == 1 and len(bounds) > 1:
        partial = [b for b in bounds if b.replace(" ", "") != f"range({mdefs[0]}+1)"]
        report.ob("C01.R5", "Aligner.locate: the first DP column is initialised over its whole length", not partial, facts={"loops": bounds}, loc=repo.loc(frag[0]),
                  expected=f"every initialisation loop runs over range({mdefs[0]} + 1)",
                  why=f"a loop over {partial[0]} leaves the cells behind it as the previous alignment left them: they are read when the band widens, so the result for a read depends on the reads before it")
        return
    if len(bounds) != 1 or not re.fullmatch(r"range\((\w+) \+ 1\)", bounds[0]):
        raise Unrecognised(f"first column: loops {bounds} are not all 'range(m + 1)'", repo.loc(frag[0]))
    mname = re.fullmatch(r"range\((\w+) \+ 1\)", bounds[0]).group(1)
    minn = [n_ for n_ in names if n_ not in (colname, mname, "self", "range", "min", "max") and not any(isinstance(l, ast.For) and isinstance(l.target, ast.Name) and l.target.id == n_ for st in frag for l in ast.walk(st))]
    if len(minn) != 1:
        raise Unrecognised(f"first column: the name of the first column index not identified {sorted(minn)}", repo.loc(frag[0]))
    env = {"self": Obj("self", nonnull=True), mname: Obj("M"), minn[0]: Obj("J0"), colname: Obj("COLUMN", nonnull=True)}
    rows = explore(repo, frag, env, inline=False)
    report.saw(function="Aligner.locate (first column)", valuations=len(rows))
    I = "item(range(M+1))"

    def canon(t):
        return "*".join(sorted(t.replace(" ", "").split("*")))

    bad = []
    n = 0
    for r in rows:
        if any(k.startswith("loop-nonempty") and v is False for k, v in r.valuation.items()):
            continue
        sr, sq = r.valuation.get("truthy:self.start_in_reference"), r.valuation.get("truthy:self.start_in_query")
        d = next((v for k, v in r.valuation.items() if k.replace(" ", "") in (f"sign:J0-{I}", f"sign:{I}-J0")), None)
        if d is not None and any(k.replace(" ", "") == f"sign:{I}-J0" for k in r.valuation):
            d = -d
        got = {}
        for e in r.effects:
            if e[0] == "store" and e[1].startswith(f"COLUMN[{I}]."):
                got[e[1].rsplit(".", 1)[1]] = canon(str(e[2]))
        if sr is None or sq is None:
            bad.append({"path": r.describe()["valuation"], "problem": "initialisation does not depend on both start flags"})
            continue
        # acceptable values given the sign of J0 - i (None = not compared on this path, so the stored text must be independent of it)
        bigger = {1: ["J0"], -1: [I], 0: ["J0", I], None: []}[d]      # max(i, J0)
        smaller = {1: [I], -1: ["J0"], 0: ["J0", I], None: []}[d]     # min(i, J0)
        diff = f"J0-{I}"
        want = {
            "score": ["0"] if sr else [canon(f"{I}*self._deletion_score")],
            "cost": ([canon("J0*self._deletion_cost")] if not sq else [canon(f"{x}*self._deletion_cost") for x in smaller]) if sr else ([canon(f"{I}*self._deletion_cost")] if sq else [canon(f"{x}*self._deletion_cost") for x in bigger]),
            "origin": (([diff] if sq else ({1: ["0"], 0: ["0", diff], -1: [diff], None: []}[d])) if sr else (({1: [diff], 0: ["0", diff], -1: ["0"], None: []}[d]) if sq else ["0"])),
        }
        n += 1
        for f_ in ("score", "cost", "origin"):
            if got.get(f_) not in want[f_]:
                bad.append({"start_in_reference": sr, "start_in_query": sq, "sign(J0 - i)": d, "field": f_, "stored": got.get(f_), "expected one of": want[f_]})
    report.ob("C01.R5", "Aligner.locate: the first DP column is initialised over its whole length", mdefs == [mname], facts={"loops": bounds, "length": mdefs}, loc=repo.loc(frag[0]), expected=f"every initialisation loop runs over range(m + 1), m = self.m",
              why="" if mdefs == [mname] else f"the loops run to {mname}, which is not the adapter length self.m")
    report.ob("C01.R5", "Aligner.locate: first DP column", not bad and n >= 8, facts={"paths": n, "problems": bad[:3]}, cases=n, loc=repo.loc(frag[0]),
              expected="score 0 iff the adapter's start may be skipped, else i * deletion score; cost/origin per the four documented cases",
              why=(f"with start_in_reference={bad[0].get('start_in_reference')}, start_in_query={bad[0].get('start_in_query')} cell i gets {bad[0].get('field')} = {bad[0].get('stored')}, expected {bad[0].get('expected one of')}: skipped adapter bases are not charged (or charged although free), so scores of partial matches at the read start are wrong" if bad else ""))


def r1_search_object_arguments(repo, report):
    """Every Aligner / PrefixComparer / SuffixComparer an adapter builds gets the adapter's own configuration in the right
    parameters: wildcard_ref <- adapter_wildcards (the adapter is the reference), wildcard_query <- read_wildcards,
    max_error_rate, min_overlap.  Arguments are resolved against the constructors' parameter lists, so it does not matter
    whether they are written positionally or by keyword."""
    want = {"wildcard_ref": "self.adapter_wildcards", "wildcard_query": "self.read_wildcards", "max_error_rate": "self.max_error_rate", "min_overlap": "self.min_overlap"}
    sigs = {}
    for cname in ("Aligner", "PrefixComparer", "SuffixComparer"):
        for k in repo.mro(cname):
            ctor = k.methods.get("__cinit__") or k.methods.get("__init__")
            if ctor is not None:
                sigs[cname] = params(ctor)[1:]
                break
    if len(sigs) != 3:
        raise Unrecognised(f"constructors of Aligner/PrefixComparer/SuffixComparer not found ({sorted(sigs)})")
    mod = repo.module("adapters")
    n = 0
    for cls in repo.subclasses("SingleAdapter") + [repo.cls("SingleAdapter")]:
        for mname, fn in cls.methods.items():
            for c_ in [x for x in ast.walk(fn) if isinstance(x, ast.Call) and chain(x.func) in sigs]:
                ps_ = sigs[chain(c_.func)]
                got = {}
                for i, a in enumerate(c_.args):
                    if i < len(ps_):
                        got[ps_[i]] = src(a)
                for k in c_.keywords:
                    if k.arg is not None:
                        got[k.arg] = src(k.value)
                n += 1
                wrong = {p_: got.get(p_) for p_, v in want.items() if p_ in ps_ and got.get(p_) != v}
                report.ob("C01.R1", f"{cls.name}.{mname}: {chain(c_.func)}(...) receives the adapter's own settings", not wrong, facts={"arguments": got, "wrong": wrong}, loc=repo.loc(c_),
                          expected=", ".join(f"{k}={v}" for k, v in want.items()),
                          why=(f"{next(iter(wrong))} = {wrong[next(iter(wrong))]}: the search object treats wildcards / tolerance / overlap differently from what the adapter was configured with, so reported error counts are not distances under the configured rules" if wrong else ""))
    report.floor("C01.R1", "aligner/comparer constructions", n, 3)


def r7_record_complete(repo, report):
    """The best match is a record of several fields (score, cost, origin, ref_stop, query_stop).  Wherever a candidate
    replaces it, ALL fields are assigned in the same block - a field left out keeps the value of the candidate that was
    replaced (e.g. the read stop of an earlier full match under the coordinates of a later partial one)."""
    c, fn = repo.need_method("Aligner", "locate")
    sites = {}
    for n in ast.walk(fn):
        if isinstance(n, ast.Assign) and isinstance(n.targets[0], ast.Attribute) and isinstance(n.targets[0].value, ast.Name):
            par = getattr(n, "_parent", None)
            key = (n.targets[0].value.id, id(par))
            sites.setdefault(key, {"fields": set(), "line": n.lineno, "parent": par})
            sites[key]["fields"].add(n.targets[0].attr)
    by_record = {}
    for (rec, _), info in sites.items():
        by_record.setdefault(rec, []).append(info)
    # the record in question: the one whose fields are read by the return statement(s)
    ret_names = {x.value.id for r_ in ast.walk(fn) if isinstance(r_, ast.Return) and r_.value is not None for x in ast.walk(r_.value) if isinstance(x, ast.Attribute) and isinstance(x.value, ast.Name)}
    cands = [rec for rec, lst in by_record.items() if rec in ret_names and len(lst) >= 2]
    if len(cands) != 1:
        raise Unrecognised(f"Aligner.locate: the best-match record was not identified ({sorted(cands)})", repo.loc(fn))
    rec = cands[0]
    allf = set().union(*[i["fields"] for i in by_record[rec]])
    bad = [{"line": i["line"], "missing": sorted(allf - i["fields"])} for i in by_record[rec] if i["fields"] != allf]
    report.ob("C01.R7", f"Aligner.locate: every update of '{rec}' assigns all of its fields", not bad and len(allf) >= 5 and len(by_record[rec]) >= 3, facts={"fields": sorted(allf), "sites": len(by_record[rec]), "incomplete": bad}, loc=repo.loc(fn),
              expected="initialisation, the last-row update and the last-column update each assign score, cost, origin, ref_stop and query_stop",
              why=(f"the update at line {bad[0]['line']} leaves {bad[0]['missing']} as it was: the reported match mixes the coordinates of two different candidates" if bad else ""))


def r5_first_row(repo, report):
    """Cell 0 of every later column (the adapter not yet begun): skipping a read base there is free iff the read's start may
    be skipped (start_in_query); otherwise it is an insertion and costs the CONFIGURED insertion cost (with --no-indels that
    cost is prohibitive, which is what keeps matches Hamming matches) and the insertion score.  The origin moves with the
    column iff the read's start may be skipped."""
    c, fn = repo.need_method("Aligner", "locate")
    defs = {}
    for n in ast.walk(fn):
        if isinstance(n, ast.AnnAssign) and isinstance(n.target, ast.Name) and n.value is not None:
            defs.setdefault(n.target.id, []).append(n.value)
        elif isinstance(n, ast.Assign) and len(n.targets) == 1 and isinstance(n.targets[0], ast.Name):
            defs.setdefault(n.targets[0].id, []).append(n.value)

    def resolve(e, depth=3):
        while depth and isinstance(e, ast.Name) and len(defs.get(e.id, [])) == 1:
            e = defs[e.id][0]
            depth -= 1
        return e

    want = {"cost": ("0", "self._insertion_cost"), "origin": ("1", "0"), "score": ("0", "self._insertion_score")}
    got, locs = {}, {}
    for n in ast.walk(fn):
        if isinstance(n, ast.AugAssign) and isinstance(n.op, ast.Add) and isinstance(n.target, ast.Attribute) and isinstance(n.target.value, ast.Subscript) \
                and isinstance(n.target.value.slice, ast.Constant) and n.target.value.slice.value == 0 and n.target.attr in want:
            v = resolve(n.value)
            locs[n.target.attr] = n
            if isinstance(v, ast.IfExp) and src(v.test) == "self.start_in_query":
                got[n.target.attr] = (src(resolve(v.body)), src(resolve(v.orelse)))
            else:
                got[n.target.attr] = ("?", src(v))
    bad = {k: got.get(k) for k in want if got.get(k) != want[k]}
    report.ob("C01.R5", "Aligner.locate: first cell of each column", not bad and len(got) == 3, facts={"increments (if start_in_query, else)": {k: list(v) for k, v in got.items()}, "wrong": {k: list(v) if v else None for k, v in bad.items()}},
              expected="cost += 0 if start_in_query else self._insertion_cost; origin += 1 if start_in_query else 0; score += 0 if start_in_query else self._insertion_score", loc=repo.loc(locs.get("cost", fn)),
              why=(f"{next(iter(bad))} of cell 0 is advanced by {bad[next(iter(bad))]}: read bases in front of the adapter are not charged the configured insertion cost, so with --no-indels a match may contain leading insertions (it is not a Hamming match any more)" if bad else ""))
