"""Rules that need the builder interpreter (A2)."""
from ..core import Unrecognised


def c04_r4_last_step_is_sink(repo, report, tier):
    raise Unrecognised("builder interpreter not implemented yet")
