"""Rules that need the builder interpreter (A2): C10, C11.R1/R4, C04.R4, C05.R4/R5, C15.R5, C17.R1."""
from __future__ import annotations

import ast
import re

from ..absint import Const, Obj, Tup, vkey
from ..argtable import by_dest, option_table
from ..builder import analyse_builder, compatible, dests_in
from ..core import Unrecognised
from ..repo import chain, src
from ..roles import call_rows, concrete_call

# options that only parameterise an element (never switch it on) and the mode flag
PARAM_DESTS = {"quality_base", "times", "action", "index", "reverse_complement", "pair_adapters", "paired", "pair_filter", "fasta", "interleaved"}

# oracle: the order in the property statement (reference.rst lists the same order)
MOD_STAGE = {
    "cut": 1, "cut2": 1,
    "nextseq_trim": 2,
    "quality_cutoff": 3, "quality_cutoff2": 3,
    "adapters": 4, "adapters2": 4,
    "poly_a": 5,
    "length": 6, "length2": 6,
    "trim_n": 7,
    "length_tag": 8,
    "strip_suffix": 9,
    "prefix": 10, "suffix": 10,
    "rename": 11, "zero_cap": 11,
}
MOD_STAGE_NAME = {1: "cut (-u/-U)", 2: "NextSeq trimming", 3: "quality trimming", 4: "adapter trimming", 5: "poly-A trimming", 6: "--length", 7: "--trim-n", 8: "--length-tag", 9: "--strip-suffix", 10: "prefix/suffix", 11: "rename / zero-cap"}
R1_ONLY = {"cut", "adapters"}
R2_ONLY = {"cut2", "adapters2", "quality_cutoff2", "length2"}

STEP_STAGE = {
    "rest_file": 0, "info_file": 0, "wildcard_file": 0,
    "minimum_length": 1, "too_short_output": 1, "too_short_paired_output": 1,
    "maximum_length": 2, "too_long_output": 2, "too_long_paired_output": 2,
    "max_n": 3,
    "max_expected_errors": 4,
    "max_average_error_rate": 5,
    "discard_casava": 6,
    "discard_trimmed": 7, "discard_untrimmed": 7, "untrimmed_output": 7, "untrimmed_paired_output": 7,
}
STEP_STAGE_NAME = {0: "rest/info/wildcard writers", 1: "too short", 2: "too long", 3: "too many N", 4: "too many expected errors", 5: "too high average error rate", 6: "CASAVA", 7: "discard-trimmed/untrimmed/untrimmed-output", 9: "sink"}
# documented criterion -> (predicate class, the option that carries its threshold / switches it on)
PREDICATE_OPTION = {
    "TooShort": {"minimum_length"},
    "TooLong": {"maximum_length"},
    "TooManyN": {"max_n"},
    "TooManyExpectedErrors": {"max_expected_errors"},
    "TooHighAverageErrorRate": {"max_average_error_rate"},
    "CasavaFiltered": {"discard_casava"},
    "IsTrimmed": {"discard_trimmed"},
    "IsUntrimmed": {"discard_untrimmed", "untrimmed_output", "untrimmed_paired_output"},
}

_models: dict = {}
SKIPPED_NOPRED: list = []
MIXED_STAGE: dict = {}  # (paired) -> [step slots whose predicate and destination belong to different filter options]


def model(repo, paired):
    key = ("builder-model", paired)
    if key not in repo.cache:
        before = set(getattr(repo, "touched", set()))
        repo.touched = set()
        try:
            mdl = analyse_builder(repo, paired)
        finally:
            consulted = set(repo.touched)
            repo.touched = before | consulted
        repo.cache[key] = (mdl, consulted)
    mdl, consulted = repo.cache[key]
    repo.touched = set(getattr(repo, "touched", set())) | consulted
    return mdl


def _step_kind(repo, cls_name):
    """'sink' (consumes on every path), 'filter' (consumes on some), 'writer' (never consumes)"""
    _cache = repo.cache
    k = ("step-kind", cls_name)
    if k in _cache:
        return _cache[k]
    cls = repo.cls(cls_name)
    dc, fn = concrete_call(repo, cls_name)
    if fn is None:
        raise Unrecognised(f"{cls_name} has no concrete __call__")
    rows, ps = call_rows(repo, cls, fn)
    cons = passes = 0
    for r in rows:
        if r.exit[0] == "raise":
            continue
        v = r.exit[1]
        if r.exit[0] == "fall" or (isinstance(v, Const) and v.value is None):
            cons += 1
        else:
            passes += 1
    kind = "sink" if cons and not passes else "writer" if passes and not cons else "filter"
    _cache[k] = kind
    return kind


def _term_class(value):
    return getattr(value, "cls", None)


def _inner_term_classes(key: str):
    return re.findall(r"\b([A-Z][A-Za-z0-9]+)\(", key)


# ---------------------------------------------------------------------------
# C10
# ---------------------------------------------------------------------------
def c10(repo, report, tier):
    report.rule("C10.R1", "every two slots of the modifiers list that can occur together are in the documented stage order; the stage of a slot comes from the option that switches it on",
                "two modifications are applied in the wrong order for reads on which they interact")
    report.rule("C10.R2", "routing: lower-case options build (X, None), their upper-case counterparts (None, X), shared options act on both mates with two distinct objects; single-end builds plain elements",
                "an option acts on the wrong mate, on both, or the two mates share one stateful modifier")
    report.rule("C10.R4", "the builder and its helpers read options only through the parsed namespace (never the raw argument vector); the append-type options are exactly adapters, adapters2, cut, cut2, strip_suffix",
                "the order of options on the command line would change the order of modifications")
    opts = option_table(repo)
    dests = by_dest(opts)
    report.saw(call_sites=len(opts))
    for paired in (False, True):
        m = model(repo, paired)
        report.saw(function="cli.make_pipeline_from_args", file="src/cutadapt/cli.py", paths=sum(len(b.rows) for b in m.blocks))
        _c10_r1(repo, report, m, dests)
        _c10_r2(repo, report, m)
        _c10_numeric_presence(repo, report, m, dests)
    _c10_r4(repo, report, opts)


def _mod_stage(slot):
    sd = slot.switch_dests(PARAM_DESTS)
    if not sd:
        raise Unrecognised(f"no switching option found for modifier slot {slot.key}", f"src/cutadapt/cli.py:{getattr(slot.node, 'lineno', 0)}")
    unknown = sorted(d for d in sd if d not in MOD_STAGE)
    if unknown:
        raise Unrecognised(f"modifier slot {slot.key} is switched by option(s) {unknown} that the documented order does not mention", f"src/cutadapt/cli.py:{getattr(slot.node, 'lineno', 0)}")
    stages = {MOD_STAGE[d] for d in sd}
    if len(stages) != 1:
        raise Unrecognised(f"modifier slot {slot.key} is switched by options of different stages {sorted(sd)}")
    return stages.pop(), sd


def _c10_r1(repo, report, m, dests):
    mode = "paired" if m.paired else "single"
    entries = []
    for bi, ri, pos, val, s in m.slots("modifiers"):
        try:
            st, sd = _mod_stage(s)
        except Unrecognised as u:
            report.unrecognised("C10.R1", f"{mode}:{s.key[:80]}", u.what, u.loc)
            return
        entries.append((bi, ri, pos, val, s, st, sd))
    report.floor("C10.R1", f"modifier slots ({mode})", len({(e[0], e[4].key) for e in entries}), 14)
    # group identical slots for reporting
    conflicts = {}
    checked = {}
    n_pairs = 0
    by_block = {}
    for e in entries:
        by_block.setdefault(e[0], []).append(e)
    blocks = sorted(by_block)
    for i, bi in enumerate(blocks):
        # same block: same row, by position
        rows = {}
        for e in by_block[bi]:
            rows.setdefault(e[1], []).append(e)
        for ri, es in rows.items():
            es.sort(key=lambda e: e[2])
            for x in range(len(es)):
                for y in range(x + 1, len(es)):
                    n_pairs += 1
                    a, b = es[x], es[y]
                    if a[5] > b[5]:
                        conflicts.setdefault(_slot_id(a), []).append(_conflict(a, b))
        for bj in blocks[i + 1:]:
            amax = max(e[5] for e in by_block[bi])
            bmin = min(e[5] for e in by_block[bj])
            if amax <= bmin:
                n_pairs += len(by_block[bi]) * len(by_block[bj])
                continue
            for a in by_block[bi]:
                for b in by_block[bj]:
                    if a[5] > b[5] and compatible(a[3], b[3]):
                        conflicts.setdefault(_slot_id(a), []).append(_conflict(a, b))
                    n_pairs += 1
    seen = set()
    for e in entries:
        sid = _slot_id(e)
        if sid in seen:
            continue
        seen.add(sid)
        c = conflicts.get(sid, [])
        report.ob("C10.R1", f"{mode}:{sid}", not c, facts={"term": e[4].key[:160], "switch": sorted(e[6]), "stage": MOD_STAGE_NAME[e[5]], "built_at": f"cli.py:{getattr(e[4].node, 'lineno', 0)} in {e[4].fn}", "conflicts": c[:3]},
                  expected="no slot of a later stage precedes it", loc=f"src/cutadapt/cli.py:{getattr(e[4].node, 'lineno', 0)}", cases=max(1, n_pairs // max(1, len(entries))),
                  why=(f"{c[0]['this']} (stage {c[0]['this_stage']}) is put on the list before {c[0]['other']} (stage {c[0]['other_stage']})" if c else ""))
    c10_cut_values(repo, report, m, mode)
    # --strip-suffix may be given several times: one remover per value, in the order given, each seeing the name the
    # previous one left (that is what "applied in order" means for a repeated option)
    ss = [(bi, ri, pos, sl) for bi, ri, pos, val, sl in m.slots("modifiers") if "SuffixRemover(" in sl.key]
    ok_ss = bool(ss) and all("item(args.strip_suffix)" in sl.key and sl.loop for _, _, _, sl in ss)
    report.ob("C10.R1", f"{mode}: one SuffixRemover per --strip-suffix value, in the given order", ok_ss, facts={"terms": sorted({sl.key for _, _, _, sl in ss})[:3]},
              expected="for suffix in args.strip_suffix: SuffixRemover(suffix)", loc="src/cutadapt/cli.py",
              why="" if ok_ss else "the values of a repeated --strip-suffix are not turned into one modifier each: a later suffix no longer sees the name the earlier one produced")
    # -u / -U values keep list order
    for e in entries:
        s = e[4]
        if e[6] & {"cut", "cut2"}:
            d = "cut" if "cut" in e[6] else "cut2"
            ok = f"item(args.{d})" in s.key and s.loop
            report.ob("C10.R1", f"{mode}:{d} values in given order", ok, facts={"term": s.key}, expected=f"one cutter per element of args.{d}, iterated in list order", loc=f"src/cutadapt/cli.py:{getattr(s.node, 'lineno', 0)}")


def c10_cut_values(repo, report, m, mode):
    """Each -u/-U value decides about its own cutter only, and exactly the non-zero values get one (the class has no
    branch for 0: its __call__ would fall off the end and the read would be taken for consumed)."""
    import ast as _ast
    import re as _re

    from ..absint import Obj, explore
    from ..repo import params as _params, strip_docstring as _sd

    # what does UnconditionalCutter do with a length of 0?
    c, call = repo.need_method("UnconditionalCutter", "__call__")
    ps = _params(call)
    rows = explore(repo, _sd(call.body), {"self": Obj("self", nonnull=True), ps[1]: Obj("READ", nonnull=True), ps[2]: Obj("INFO", nonnull=True)}, inline=False)
    zero_falls = any(r.exit[0] == "fall" and r.valuation.get("sign:self.length") == 0 for r in rows)
    other_falls = [r.describe()["valuation"] for r in rows if r.exit[0] == "fall" and r.valuation.get("sign:self.length") != 0]
    report.ob("C10.R1", "UnconditionalCutter.__call__ returns a record for every non-zero length", not other_falls, facts={"length 0 falls off the end": zero_falls, "other paths without return": other_falls[:2]},
              expected="read[length:] for a positive, read[:length] for a negative length", loc=repo.loc(call))
    allowed = _re.compile(r"^(truthy:args\.cut2?|sign:len\(args\.cut2?\)-2|sign:args\.cut2?\[0\]\*args\.cut2?\[1\]|sign:item\(args\.cut2?\)|truthy:paired|truthy:PAIRED)$")
    foreign = {}
    zero_built = []
    nonzero_seen = {"cut": set(), "cut2": set()}
    n = 0
    for bi, ri, pos, val, sl in m.slots("modifiers"):
        if "UnconditionalCutter(" not in sl.key:
            continue
        n += 1
        d = "cut2" if "item(args.cut2)" in sl.key else "cut"
        own = val.get(f"sign:item(args.{d})")
        if own in (-1, 1):
            nonzero_seen[d].add(own)
        if own not in (-1, 1) and zero_falls:
            zero_built.append({"slot": sl.key, "guard": {k: str(v) for k, v in val.items() if d in k}})
        for k in val:
            if ("args.cut" in k) and not allowed.match(k):
                foreign.setdefault(k, sl.key)
    report.ob("C10.R1", f"{mode}: a cut value decides only about its own cutter", not foreign, facts={"foreign_conditions": dict(list(foreign.items())[:3])},
              expected="cutter for value c built iff c != 0 (lists: at most two values of opposite sign)", loc="src/cutadapt/cli.py",
              why=(f"a cutter is built or skipped depending on {next(iter(foreign))}: one value switches the other value's cutter" if foreign else ""))
    report.ob("C10.R1", f"{mode}: no cutter is built for a length of 0", not zero_built, facts={"built_without_excluding_zero": zero_built[:2], "class_handles_zero": not zero_falls},
              expected="value 0 is skipped by the builder (or UnconditionalCutter returns the read for 0)", loc="src/cutadapt/cli.py",
              why=("-u 0 builds UnconditionalCutter(0), whose __call__ returns None: every read is taken for consumed, neither written nor counted" if zero_built else ""))
    both = all(nonzero_seen[d] == {-1, 1} for d in (("cut", "cut2") if mode == "paired" else ("cut",)))
    report.ob("C10.R1", f"{mode}: positive and negative values both get a cutter", both and n >= 2, facts={k: sorted(v) for k, v in nonzero_seen.items()}, expected="slots under sign(value) = -1 and = +1", loc="src/cutadapt/cli.py")


def _slot_id(e):
    s = e[4]
    cls = _inner_term_classes(s.key)
    return f"{'+'.join(sorted(e[6]))}[{cls[0] if cls else s.key[:30]}@{s.fn}]"


def _conflict(a, b):
    return {"this": a[4].key[:90], "this_stage": MOD_STAGE_NAME[a[5]], "other": b[4].key[:90], "other_stage": MOD_STAGE_NAME[b[5]], "other_built_at": f"cli.py:{getattr(b[4].node, 'lineno', 0)}"}


def _c10_r2(repo, report, m):
    mode = "paired" if m.paired else "single"
    seen = set()
    for bi, ri, pos, val, s in m.slots("modifiers"):
        sd = s.switch_dests(PARAM_DESTS)
        sid = (tuple(sorted(sd)), s.key)
        if sid in seen:
            continue
        seen.add(sid)
        v = s.value
        problems = []
        if not m.paired:
            if isinstance(v, Tup):
                problems.append("single-end pipeline receives a pair of modifiers")
            elif _term_class(v) is None or not repo.is_subclass(_term_class(v), "SingleEndModifier"):
                problems.append(f"not a SingleEndModifier: {s.key[:60]}")
            if dests_in(s.key) & R2_ONLY:
                problems.append("built from an R2-only option in single-end mode")
        else:
            if isinstance(v, Tup):
                if len(v.items) != 2:
                    problems.append("not a pair")
                else:
                    a, b = v.items
                    an = isinstance(a, Const) and a.value is None
                    bn = isinstance(b, Const) and b.value is None
                    ad, bd = dests_in(vkey(a)) - PARAM_DESTS, dests_in(vkey(b)) - PARAM_DESTS
                    if a is b and not an:
                        problems.append("both mates share one modifier object (its counters would be added twice)")
                    if ad & R2_ONLY:
                        problems.append(f"R1 position built from R2-only option(s) {sorted(ad & R2_ONLY)}")
                    if bd & R1_ONLY:
                        problems.append(f"R2 position built from R1-only option(s) {sorted(bd & R1_ONLY)}")
                    # which sides must be present
                    r1_only = bool(sd) and sd <= R1_ONLY
                    r2_only = bool(sd) and sd <= R2_ONLY
                    if r1_only and (an or not bn):
                        problems.append("a lower-case (R1-only) option must give (X, None)")
                    if r2_only and (bn or not an):
                        problems.append("an upper-case (R2-only) option must give (None, X)")
                    if not r1_only and not r2_only:
                        # shared option (possibly with its R2 override)
                        if bn:
                            # allowed only when the R2 override option was given (e.g. -Q 0 switches R2 off)
                            overrides = {d for d in R2_ONLY if any(d in k for k in val)}
                            given = [k for k, x in val.items() if any(f"args.{d}" in k for d in R2_ONLY) and k.startswith("isnone:") and x is False]
                            if not given:
                                problems.append("a shared option leaves R2 unmodified although no R2 override was given")
                        if an and not (sd & R2_ONLY):
                            problems.append("a shared option leaves R1 unmodified")
                        if not an and not bn:
                            # the R2 element is built from the R2 override if one switches the slot, else from the same option
                            r2over = sd & R2_ONLY
                            if r2over and not (bd & r2over):
                                problems.append(f"R2 element ignores its override option {sorted(r2over)}")
                            if not r2over and (bd - ad):
                                problems.append(f"R2 element built from other options {sorted(bd - ad)} than the R1 element")
            else:
                cls = _term_class(v)
                if cls is None or not repo.is_subclass(cls, "PairedEndModifier"):
                    problems.append(f"paired pipeline receives a non-pair element that is not a PairedEndModifier: {s.key[:60]}")
                else:
                    # constructor positions: first argument R1, second R2
                    args = _split_args(s.key)
                    if len(args) >= 2:
                        if dests_in(args[0]) & R2_ONLY:
                            problems.append("first constructor argument built from R2-only option")
                        if dests_in(args[1]) & R1_ONLY:
                            problems.append("second constructor argument built from R1-only option")
        report.ob("C10.R2", f"{mode}:{'+'.join(sorted(sd))}:{s.key[:70]}", not problems, facts={"term": s.key[:200], "switch": sorted(sd), "problems": problems},
                  expected="R1-only -> (X, None); R2-only -> (None, X); shared -> two distinct objects, R2 from its override if given", loc=f"src/cutadapt/cli.py:{getattr(s.node, 'lineno', 0)}",
                  why="; ".join(problems))


def _split_args(key: str):
    i = key.find("(")
    if i < 0 or not key.endswith(")"):
        return []
    inner = key[i + 1:-1]
    out, depth, cur = [], 0, ""
    for ch in inner:
        if ch in "([{":
            depth += 1
        elif ch in ")]}":
            depth -= 1
        if ch == "," and depth == 0:
            out.append(cur.strip())
            cur = ""
        else:
            cur += ch
    if cur.strip():
        out.append(cur.strip())
    return out


def term_args(repo, key: str) -> dict:
    """parameter name -> argument text of a constructor term 'Name(a, b, kw=c)' of the builder model, whether the source
    wrote the argument positionally or by keyword (resolved through the package's signature table)"""
    i = key.find("(")
    name = key[:i] if i > 0 else ""
    ps = repo.signatures.get(name, ())
    out = {}
    pos = 0
    for a in _split_args(key):
        m_ = re.match(r"^([A-Za-z_][A-Za-z_0-9]*)=(?!=)(.*)$", a, re.S)
        if m_:
            out[m_.group(1)] = m_.group(2).strip()
        else:
            out[ps[pos] if pos < len(ps) else pos] = a
            pos += 1
    return out


def _c10_numeric_presence(repo, report, m, dests):
    """An option whose value 0 is legal (type int/float, default None) must be tested with 'is None', never by truthiness."""
    mode = "paired" if m.paired else "single"
    numeric = {d for d, os_ in dests.items() if any(o.type in ("int", "float") and o.default is None and o.action == "store" for o in os_)}
    used = {}
    mod_blocks = {bi for bi, ri, pos, val, s in m.slots("modifiers")}
    step_blocks = {bi for bi, ri, pos, val, s in m.slots("steps")}
    for bi, b in enumerate(m.blocks):
        if bi not in mod_blocks and bi not in step_blocks:
            continue
        for val, slots, ex, row in b.rows:
            for k in val:
                if k.startswith("truthy:args."):
                    d = k[len("truthy:args."):]
                    if d in numeric:
                        used.setdefault(d, set()).add(getattr(b.stmt, "lineno", 0))
    for d in sorted(numeric & (set(MOD_STAGE) | set(STEP_STAGE))):
        bad = sorted(used.get(d, []))
        report.ob("C10.R2", f"{mode}: presence of --{d.replace('_', '-')} tested with 'is None'", not bad, facts={"truthiness_tests_in_builder_statements_at": bad},
                  expected="'x is None' / 'x is not None' (the value 0 is a legal setting)", loc="src/cutadapt/cli.py", fact_key=d,
                  why="" if not bad else f"the builder tests args.{d} for truthiness: an explicit 0 is treated as if the option were absent")


def _c10_r4(repo, report, opts):
    appends = sorted({o.dest for o in opts if o.action == "append"})
    report.ob("C10.R4", "append-type options", appends == ["adapters", "adapters2", "cut", "cut2", "strip_suffix"], facts={"append_dests": appends},
              expected=["adapters", "adapters2", "cut", "cut2", "strip_suffix"], loc="src/cutadapt/cli.py")
    fns = ["make_pipeline_from_args"] + [n for n, f in repo.funcs("cli").items() if any(isinstance(x, (ast.Yield, ast.YieldFrom)) for x in ast.walk(f))]
    bad = []
    for name in fns:
        f = repo.func("cli", name)
        for n in ast.walk(f):
            ch = chain(n) if isinstance(n, (ast.Attribute, ast.Name)) else None
            if ch in ("sys.argv", "cmdlineargs", "leftover_args"):
                bad.append(f"{name}: {ch} at line {n.lineno}")
    report.ob("C10.R4", "builder reads only the namespace", not bad, facts={"functions": fns, "raw_argument_uses": bad}, expected="no use of sys.argv / cmdlineargs in the builder", loc="src/cutadapt/cli.py")
    report.floor("C10.R4", "builder helper generators", len(fns) - 1, 5)


# ---------------------------------------------------------------------------
# steps: C11.R1 / R4, C04.R4, C15.R5, C17.R1
# ---------------------------------------------------------------------------
def _step_entries(repo, m):
    out = []
    for bi, ri, pos, val, s in m.slots("steps"):
        classes = _inner_term_classes(s.key)
        outer = _term_class(s.value)
        if outer is None:
            raise Unrecognised(f"steps receives a non-constructor value {s.key[:80]}", f"src/cutadapt/cli.py:{getattr(s.node, 'lineno', 0)}")
        inner = outer
        if outer == "PairedSingleEndStep" and len(classes) > 1:
            inner = classes[1]
        kind = _step_kind(repo, inner)
        preds = [c for c in classes if c in repo.classes and repo.is_subclass(c, "Predicate")]
        if kind == "filter" and not preds and repo.is_subclass(outer, "HasFilterStatistics") and not repo.is_subclass(outer, "HasStatistics"):
            # a filter without any predicate: only reachable if parse_lengths returned no bound at all,
            # which it rejects (verified by C05.R5 'parse_lengths rejects empty bounds')
            SKIPPED_NOPRED.append(s.key)
            continue
        if kind == "sink":
            stage = 9
            sd = s.dests()
        elif kind == "writer":
            sd = s.switch_dests(PARAM_DESTS | {"output", "paired_output"})
            stage = None
        else:
            sd = s.switch_dests(PARAM_DESTS | {"output", "paired_output"})
            stage = None
        if stage is None:
            unknown = sorted(d for d in sd if d not in STEP_STAGE)
            if unknown or not sd:
                raise Unrecognised(f"step slot {s.key[:80]} is switched by option(s) {unknown or 'none'} that the documented filter order does not mention", f"src/cutadapt/cli.py:{getattr(s.node, 'lineno', 0)}")
            stages = {STEP_STAGE[d] for d in sd}
            if len(stages) != 1:
                # a recognised slot, wired wrongly: reported as a violation of C11.R4 / C05.R5 by mixed_stage_obligation()
                lst = MIXED_STAGE.setdefault(id(m), [])
                item = {"slot": s.key[:110], "options": sorted(sd), "line": getattr(s.node, "lineno", 0)}
                if item not in lst:
                    lst.append(item)
                continue
            stage = stages.pop()
        out.append({"bi": bi, "ri": ri, "pos": pos, "val": val, "slot": s, "stage": stage, "kind": kind, "sd": sd, "preds": preds, "inner": inner, "outer": outer})
    return out


def mixed_stage_obligation(repo, report, rule, m, mode):
    """each filter step takes its predicate(s) and its destination from the options of ONE filter"""
    _step_entries(repo, m)
    mixed = MIXED_STAGE.get(id(m), [])
    report.ob(rule, f"{mode}:every filter step is built from the options of one filter", not mixed, facts={"mixed": mixed[:3]},
              expected="e.g. PairedEndFilter(TooLong(...), TooLong(...), writer for --too-long-output): predicate class, threshold option and destination belong together", loc="src/cutadapt/cli.py",
              why=(f"the step {mixed[0]['slot']} combines {mixed[0]['options']}: a predicate left over from another filter is applied" if mixed else ""))


def c11_builder(repo, report, tier):
    report.rule("C11.R1", "steps are appended in the order: writers, too short, too long, too many N, expected errors, average error rate, CASAVA, at most one trimmed/untrimmed filter, sink",
                "a read that fails two criteria is attributed/redirected to the wrong one, or a filter runs after the output step")
    report.rule("C11.R4", "each filter is built from its own option: predicate class <-> option carrying its threshold, redirect path <-> its own filter; redirect without bound is rejected; the three trimmed/untrimmed options exclude each other",
                "a threshold or a redirect file is wired to the wrong criterion")
    for paired in (False, True):
        mode = "paired" if paired else "single"
        m = model(repo, paired)
        try:
            entries = _step_entries(repo, m)
        except Unrecognised as u:
            report.unrecognised("C11.R1", f"{mode}:steps", u.what, u.loc)
            continue
        report.saw(function="cli.make_pipeline_from_args", file="src/cutadapt/cli.py", paths=sum(len(b.rows) for b in m.blocks))
        mixed_stage_obligation(repo, report, "C11.R4", m, mode)
        # only the quality-based filters may depend on the input format (FASTA input = FASTQ input without qualities)
        QUALITY_FILTERS = {"TooManyExpectedErrors", "TooHighAverageErrorRate"}
        fmt_dep = []
        for e in entries:
            atoms = [k for k in e["val"] if "input_file_format" in k]
            if atoms and not (set(e["preds"]) and set(e["preds"]) <= QUALITY_FILTERS):
                item = {"step": e["slot"].key[:80], "depends_on": atoms[:2]}
                if item not in fmt_dep:
                    fmt_dep.append(item)
        report.ob("C11.R4", f"{mode}:only quality-based filters depend on the input format", not fmt_dep, facts={"problems": fmt_dep[:3]},
                  expected="--max-ee / --max-aer may be skipped for FASTA input; every other filter is built for FASTA and FASTQ alike", loc="src/cutadapt/cli.py",
                  why=(f"{fmt_dep[0]['step']} is built only for some input formats: the same reads are filtered differently as FASTA and as FASTQ" if fmt_dep else ""))
        # a threshold that is given builds its filter - whatever other thresholds are given with it
        for opt, pred in (("max_n", "TooManyN"), ("max_expected_errors", "TooManyExpectedErrors"), ("max_average_error_rate", "TooHighAverageErrorRate")):
            cand = [b for b in m.blocks if any(f"{pred}(" in sl.key for val, slots, ex, row in b.rows for sl in slots)]
            lacking = []
            for b in cand:
                for val, slots, ex, row in b.rows:
                    given = val.get(f"isnone:args.{opt}")
                    noq = any("has_qualities" in k and v is False for k, v in val.items())
                    if given is not True and not noq and (ex is None or ex == "fall" or (isinstance(ex, tuple) and ex[0] == "fall")) and not any(f"{pred}(" in sl.key for sl in slots):
                        lacking.append({k: v for k, v in val.items() if k.startswith("isnone:args.") or "has_qualities" in k})
            okp = bool(cand) and not lacking
            report.ob("C11.R4", f"{mode}: --{opt.replace('_', '-')} builds its filter whenever it is given", okp, facts={"blocks": len(cand), "paths_without_the_filter": lacking[:2]}, loc="src/cutadapt/cli.py",
                      expected=f"a {pred} step on every builder path on which args.{opt} is not None (and, for the quality-based filters, the input has qualities)",
                      why=("" if okp else (f"on the path {lacking[0]} no {pred} filter is built although --{opt.replace('_', '-')} may be given: the threshold is silently ignored when it is combined with the other option" if lacking else f"no {pred} filter is built on any path")))
        report.floor("C11.R1", f"step slot kinds ({mode})", len({(e["stage"], e["inner"]) for e in entries}), 12)
        # order
        conflicts = {}
        by_block = {}
        for e in entries:
            by_block.setdefault(e["bi"], []).append(e)
        blocks = sorted(by_block)
        npairs = 0
        for i, bi in enumerate(blocks):
            rows = {}
            for e in by_block[bi]:
                rows.setdefault(e["ri"], []).append(e)
            for ri, es in rows.items():
                es.sort(key=lambda e: e["pos"])
                for x in range(len(es)):
                    for y in range(x + 1, len(es)):
                        npairs += 1
                        if es[x]["stage"] > es[y]["stage"] or (es[x]["stage"] == 9) or (es[x]["stage"] == 7 and es[y]["stage"] == 7):
                            conflicts.setdefault(_sid(es[x]), []).append(_sconf(es[x], es[y]))
            for bj in blocks[i + 1:]:
                for a in by_block[bi]:
                    for b in by_block[bj]:
                        npairs += 1
                        if (a["stage"] > b["stage"] or a["stage"] == 9 or (a["stage"] == 7 and b["stage"] == 7)) and compatible(a["val"], b["val"]):
                            conflicts.setdefault(_sid(a), []).append(_sconf(a, b))
        seen = set()
        for e in entries:
            sid = _sid(e)
            if sid in seen:
                continue
            seen.add(sid)
            c = conflicts.get(sid, [])
            report.ob("C11.R1", f"{mode}:{sid}", not c, facts={"term": e["slot"].key[:160], "stage": STEP_STAGE_NAME[e["stage"]], "kind": e["kind"], "conflicts": c[:3]},
                      expected="no step of a later stage (and no second trimmed/untrimmed filter, nothing after a sink) precedes/follows it", loc=f"src/cutadapt/cli.py:{getattr(e['slot'].node, 'lineno', 0)}",
                      cases=max(1, npairs // max(1, len(entries))), why=(f"{c[0]['this']} [{c[0]['this_stage']}] precedes {c[0]['other']} [{c[0]['other_stage']}]" if c else ""))
        # R4: predicate <-> option, redirect <-> filter
        seen = set()
        for e in entries:
            if e["kind"] != "filter":
                continue
            s = e["slot"]
            key = (s.key,)
            if key in seen:
                continue
            seen.add(key)
            problems = []
            term_d = s.term_dests - PARAM_DESTS
            guard_d = s.guard_dests
            for p in set(e["preds"]):
                want = PREDICATE_OPTION.get(p)
                if want is None:
                    report.unrecognised("C11.R4", f"{mode}:{p}", f"predicate class {p} has no documented criterion")
                    continue
                # the predicate's own argument
                for pm in re.finditer(re.escape(p) + r"\(([^()]*(?:\([^()]*\)[^()]*)*)\)", s.key):
                    argd = dests_in(pm.group(1)) - PARAM_DESTS  # general parameters (--quality-base ...) may accompany the threshold
                    if argd and not argd <= want:
                        problems.append(f"{p} is built from option(s) {sorted(argd)}, expected {sorted(want)}")
                    if not argd and not ((term_d | guard_d) & want):
                        problems.append(f"{p} is not switched by {sorted(want)}")
            # redirect paths
            for d in term_d:
                if d in ("too_short_output", "too_short_paired_output") and "TooShort" not in e["preds"]:
                    problems.append(f"{d} redirects reads of a {e['preds']} filter")
                if d in ("too_long_output", "too_long_paired_output") and "TooLong" not in e["preds"]:
                    problems.append(f"{d} redirects reads of a {e['preds']} filter")
                if d in ("untrimmed_output", "untrimmed_paired_output") and "IsUntrimmed" not in e["preds"]:
                    problems.append(f"{d} redirects reads of a {e['preds']} filter")
            # every redirect path that was given must reach the writer
            for d in ("too_short_output", "too_short_paired_output", "too_long_output", "too_long_paired_output", "untrimmed_output", "untrimmed_paired_output"):
                given = e["val"].get(f"truthy:args.{d}") is True or e["val"].get(f"isnone:args.{d}") is False
                same_filter = (d.startswith("too_short") and "TooShort" in e["preds"]) or (d.startswith("too_long") and "TooLong" in e["preds"]) or (d.startswith("untrimmed") and "IsUntrimmed" in e["preds"])
                if given and same_filter and paired and f"args.{d}" not in s.key and "open_record_writer" in s.key:
                    problems.append(f"--{d.replace('_', '-')} was given but the writer of this filter does not receive it")
            # writer argument order (path1, path2)
            w = re.search(r"open_record_writer\(([^)]*)\)", s.key)
            if w:
                wargs = [a.strip() for a in w.group(1).split(",")]
                paths = [a for a in wargs if a.startswith("args.")]
                if len(paths) == 2 and not (paths[1].endswith("paired_output") and not paths[0].endswith("paired_output")):
                    problems.append(f"redirect writer receives the paths in the order {paths}")
                if len(paths) == 2 and paths[0].replace("_output", "") != paths[1].replace("_paired_output", ""):
                    problems.append(f"redirect writer mixes files of different filters {paths}")
                if len(paths) == 1 and paired and "interleaved=True" not in s.key:
                    problems.append("paired redirect to a single file is not interleaved")
            report.ob("C11.R4", f"{mode}:{s.key[:100]}", not problems, facts={"term": s.key[:240], "problems": problems}, expected="predicate built from its own option; redirect file attached to its own filter, (R1 path, R2 path) in order",
                      loc=f"src/cutadapt/cli.py:{getattr(s.node, 'lineno', 0)}", why="; ".join(problems))
        # redirect without bound / mutual exclusion are errors
        errs = [src(r.exit[1]) if False else (r.exit[1].value if isinstance(r.exit[1], Const) else None) for st, r in m.errors]
        n_cle = sum(1 for e in errs if e == "CommandLineError")
        report.ob("C11.R4", f"{mode}:rejected configurations", n_cle >= 6, facts={"raising_paths": len(m.errors), "CommandLineError": n_cle}, expected="the builder rejects invalid combinations with CommandLineError", loc="src/cutadapt/cli.py")
        _redirect_without_bound(repo, report, m, mode)


def _sid(e):
    return f"{e['outer']}<{'+'.join(sorted(set(e['preds']))) or e['inner']}>[{'+'.join(sorted(d for d in e['sd'] if d in STEP_STAGE)) or 'sink'}]"


def _sconf(a, b):
    return {"this": a["slot"].key[:80], "this_stage": STEP_STAGE_NAME[a["stage"]], "other": b["slot"].key[:80], "other_stage": STEP_STAGE_NAME[b["stage"]], "other_built_at": f"cli.py:{getattr(b['slot'].node, 'lineno', 0)}"}


def _redirect_without_bound(repo, report, m, mode):
    # in the block that builds the length filters: every row where the bound is None but a path is given must raise
    found = 0
    for st, r in m.errors:
        val = r.valuation
        for bound, paths in (("minimum_length", ("too_short_output", "too_short_paired_output")), ("maximum_length", ("too_long_output", "too_long_paired_output"))):
            if val.get(f"isnone:args.{bound}") is True and any(val.get(f"truthy:args.{p}") is True for p in paths):
                found += 1
    bad = []
    for b in m.blocks:
        for val, slots, ex, row in b.rows:
            for bound, paths in (("minimum_length", ("too_short_output", "too_short_paired_output")), ("maximum_length", ("too_long_output", "too_long_paired_output"))):
                if val.get(f"isnone:args.{bound}") is True and any(val.get(f"truthy:args.{p}") is True for p in paths):
                    bad.append({k: v for k, v in val.items() if bound in k or any(p in k for p in paths)})
    report.ob("C11.R4", f"{mode}:redirect without bound is rejected", found >= 2 and not bad, facts={"raising_paths": found, "accepted": bad[:3]},
              expected="--too-short-output without -m (and --too-long-output without -M) raises on every path", loc="src/cutadapt/cli.py")
    # mutual exclusion of the three trimmed/untrimmed options: no accepted row has two stage-7 slots (checked in R1) and the guard raises
    fn = repo.func("cli", "make_pipeline_from_args")
    excl = [n for n in ast.walk(fn) if isinstance(n, ast.If) and isinstance(n.test, ast.Compare) and "discard_trimmed" in src(n.test) and "discard_untrimmed" in src(n.test) and "untrimmed_output" in src(n.test)]
    ok = bool(excl) and any(isinstance(x, ast.Raise) for x in excl[0].body) and isinstance(excl[0].test.ops[0], ast.Gt) and src(excl[0].test.comparators[0]) == "1"
    report.ob("C11.R4", f"{mode}:trimmed/untrimmed options exclude each other", ok, facts={"test": src(excl[0].test)[:200] if excl else None}, expected="int(a) + int(b) + int(c) > 1 raises", loc=repo.loc(excl[0]) if excl else "src/cutadapt/cli.py")


def c04_r4_last_step_is_sink(repo, report, tier):
    for paired in (False, True):
        mode = "paired" if paired else "single"
        m = model(repo, paired)
        entries = _step_entries(repo, m)
        sink_blocks = sorted({e["bi"] for e in entries if e["kind"] == "sink"})
        if len(sink_blocks) != 1:
            report.ob("C04.R4", f"{mode}:sink block", False, facts={"blocks_with_sinks": sink_blocks}, expected="sinks are appended in exactly one builder statement")
            continue
        sb = sink_blocks[0]
        blk = m.blocks[sb]
        bad = []
        for ri, (val, slots, ex, row) in enumerate(blk.rows):
            ss = [s for s in slots if s.list == "steps"]
            es = [e for e in entries if e["bi"] == sb and e["ri"] == ri]
            es.sort(key=lambda e: e["pos"])
            nsinks = sum(1 for e in es if e["kind"] == "sink")
            if nsinks != 1 or not es or es[-1]["kind"] != "sink":
                bad.append({"guard": {k: str(v) for k, v in list(val.items())[:8]}, "steps": [e["slot"].key[:60] for e in es]})
        later = [e for e in entries if e["bi"] > sb]
        report.ob("C04.R4", f"{mode}:every path ends with exactly one sink", not bad and not later, facts={"paths": len(blk.rows), "bad": bad[:3], "steps_after_sink_block": [e["slot"].key[:60] for e in later[:3]]},
                  expected="each accepted configuration appends exactly one consuming sink, as the last step", loc=repo.loc(blk.stmt), cases=len(blk.rows),
                  why="a configuration exists whose pipeline does not end in a consuming sink" if bad else "")
        report.saw(paths=len(blk.rows))


def c15_r5(repo, report, tier):
    """demultiplexer is the last step and excludes the plain sink and --discard-trimmed"""
    for paired in (False, True):
        mode = "paired" if paired else "single"
        m = model(repo, paired)
        entries = _step_entries(repo, m)
        demux = [e for e in entries if "Demultiplexer" in e["inner"]]
        report.floor("C15.R5", f"demultiplexer slots ({mode})", len({e["inner"] for e in demux}), 2 if True else 1)
        bad = []
        for e in demux:
            same_row = [x for x in entries if x["bi"] == e["bi"] and x["ri"] == e["ri"] and x is not e]
            if any(x["kind"] == "sink" or x["stage"] == 7 for x in same_row):
                bad.append({"demux": e["slot"].key[:60], "with": [x["slot"].key[:50] for x in same_row]})
            if e["val"].get("truthy:args.discard_trimmed") is True:
                bad.append({"demux": e["slot"].key[:60], "problem": "accepted together with --discard-trimmed"})
            # (the combinatorial mode needs -p, which implies paired mode; the single-end model cannot know that)
            if (e["inner"] == "Demultiplexer" and paired) or (e["inner"] == "PairedDemultiplexer" and not paired):
                bad.append({"demux": e["slot"].key[:60], "problem": f"{e['inner']} used in {mode} mode"})
        report.ob("C15.R5", f"{mode}:demultiplexer is the only consuming step on its paths", not bad, facts={"demultiplexers": sorted({e['inner'] for e in demux}), "problems": bad[:3]},
                  expected="a demultiplexer replaces the plain sink and the trimmed/untrimmed filters; --discard-trimmed is rejected", loc="src/cutadapt/cli.py")
        # constructor wiring
        for e in demux:
            k = e["slot"].key
            probs = []
            ta = term_args(repo, k)
            if e["inner"] == "CombinatorialDemultiplexer":
                a = _split_args(k)
                if len(a) < 2 or "adapters2" in a[0] or "adapters2" not in a[1]:
                    probs.append("adapter name lists of R1 and R2 in the wrong positions")
                if ta.get("template1") != "args.output" or ta.get("template2") != "args.paired_output":
                    probs.append("templates swapped")
            elif e["inner"] == "PairedDemultiplexer":
                if ta.get("template1") != "args.output" or ta.get("template2") != "args.paired_output":
                    probs.append("templates swapped")
                if ta.get("untrimmed_output") != "args.untrimmed_output" or ta.get("untrimmed_paired_output") != "args.untrimmed_paired_output":
                    probs.append("untrimmed paths swapped")
                if "adapters2" in _split_args(k)[0]:
                    probs.append("routes by R2 adapter names")
            else:
                if ta.get("template") != "args.output" or ta.get("untrimmed_output") != "args.untrimmed_output":
                    probs.append("template/untrimmed path wiring")
            if ta.get("discard_untrimmed") != "args.discard_untrimmed":
                probs.append("discard_untrimmed not taken from --discard-untrimmed")
            report.ob("C15.R5", f"{mode}:{e['inner']} wiring", not probs, facts={"term": k[:300], "problems": probs}, expected="names of R1 (and R2) adapters, -o/-p templates, untrimmed paths and --discard-untrimmed in their own parameters", loc=f"src/cutadapt/cli.py:{getattr(e['slot'].node, 'lineno', 0)}")


def c17_r1_writer_first(repo, report, tier):
    for paired in (False, True):
        mode = "paired" if paired else "single"
        m = model(repo, paired)
        entries = _step_entries(repo, m)
        info = [e for e in entries if e["inner"] == "InfoFileWriter"]
        if not info:
            report.unrecognised("C17.R1", f"{mode}:InfoFileWriter slot", "no InfoFileWriter slot found in the builder")
            continue
        bad = []
        for e in info:
            for x in entries:
                if x["kind"] in ("filter", "sink") and (x["bi"] < e["bi"] or (x["bi"] == e["bi"] and x["ri"] == e["ri"] and x["pos"] < e["pos"])) and compatible(x["val"], e["val"]):
                    bad.append(x["slot"].key[:70])
            if "args.info_file" not in e["slot"].key:
                bad.append("info writer not opened on --info-file")
            if paired and e["outer"] != "PairedSingleEndStep":
                bad.append("paired mode: info writer not wrapped for R1")
        report.ob("C17.R1", f"{mode}:info writer precedes every consuming step", not bad, facts={"preceding_consumers": bad[:3]}, expected="the info-file writer is appended before any filter or sink", loc="src/cutadapt/cli.py")


# ---------------------------------------------------------------------------
# C05.R4 / R5 (paired builder facts)
# ---------------------------------------------------------------------------
def c05_r4_override(repo, report, tier):
    m = model(repo, True)
    entries = _step_entries(repo, m)
    filt = [e for e in entries if e["outer"] == "PairedEndFilter"]
    report.floor("C05.R4", "PairedEndFilter slots", len({e["slot"].key for e in filt}), 10)
    plain_bad, over_bad = [], []
    n_over = n_plain = 0
    for e in filt:
        k = e["slot"].key
        mode = term_args(repo, k).get("pair_filter_mode")
        val = e["val"]
        if "IsUntrimmed" in e["preds"]:
            # override condition from the guard
            one_empty = (val.get("truthy:adapters2") is False) or (val.get("truthy:adapters") is False)
            used = any(val.get(f"truthy:args.{d}") is True for d in ("discard_untrimmed", "untrimmed_output", "untrimmed_paired_output"))
            decided = ("truthy:adapters2" in val) and (val.get("truthy:adapters2") is False or "truthy:adapters" in val)
            expect_both = one_empty and used
            if not decided:
                over_bad.append({"term": k[:80], "problem": "mode does not depend on which adapter lists are empty", "guard": _g(val)})
            elif expect_both != (mode == "'both'"):
                over_bad.append({"term": k[:80], "mode": mode, "expected": "'both'" if expect_both else "the configured mode", "guard": _g(val)})
            elif not expect_both and mode != "phi:pair_filter_mode":
                over_bad.append({"term": k[:80], "mode": mode, "expected": "the configured mode", "guard": _g(val)})
            n_over += 1
        else:
            n_plain += 1
            if mode != "phi:pair_filter_mode":
                plain_bad.append({"term": k[:100], "mode": mode})
    # every criterion that is not a length bound is evaluated on BOTH mates (the mode then combines the two answers): the
    # two predicates of such a filter are the same criterion, and neither is missing
    asym = []
    n_sym = 0
    for e in filt:
        k = e["slot"].key
        ta = term_args(repo, k)
        p1, p2 = str(ta.get("predicate1", "")), str(ta.get("predicate2", ""))
        if p1.startswith(("TooShort(", "TooLong(")) or p2.startswith(("TooShort(", "TooLong(")) or (p1 == "None" and p2 == "None"):
            continue  # one-sided LEN:LEN2 bounds are C05.R5
        n_sym += 1
        if p1 != p2 or p1 in ("None", ""):
            asym.append({"term": k[:110], "predicate1": p1[:50], "predicate2": p2[:50], "guard": _g(e["val"])})
    report.ob("C05.R4", "non-length pair filters test the same criterion on both mates", not asym and n_sym >= 6, facts={"slots": n_sym, "problems": asym[:3]}, loc="src/cutadapt/cli.py", cases=n_sym,
              expected="PairedEndFilter(P(...), P(...), ...) with identical predicates for --max-n, --max-ee, --max-aer, --discard-casava, --discard-trimmed and the untrimmed filters",
              why=(f"{asym[0]['term']}: the second mate is judged by {asym[0]['predicate2']} (first: {asym[0]['predicate1']}): with a missing predicate the filter looks at one mate only whatever --pair-filter says" if asym else ""))
    report.ob("C05.R4", "untrimmed filters: 'both' iff adapters on one side only", not over_bad and n_over >= 4, facts={"slots": n_over, "problems": over_bad[:3]},
              expected="pair_filter_mode='both' iff (adapters or adapters2 empty) and an untrimmed option is used; otherwise the configured mode", loc="src/cutadapt/cli.py", cases=n_over,
              why=str(over_bad[0]) if over_bad else "")
    report.ob("C05.R4", "all other pair filters receive the configured mode", not plain_bad and n_plain >= 6, facts={"slots": n_plain, "problems": plain_bad[:3]},
              expected="pair_filter_mode=<the --pair-filter value, default any>", loc="src/cutadapt/cli.py", cases=n_plain, why=str(plain_bad[0]) if plain_bad else "")
    # definition of the configured mode
    fn = repo.func("cli", "make_pipeline_from_args")
    defs = [n for n in ast.walk(fn) if isinstance(n, ast.Assign) and chain(n.targets[0]) == "pair_filter_mode" and not isinstance(n.value, ast.Constant)]
    ok = len(defs) == 1 and isinstance(defs[0].value, ast.IfExp)
    if ok:
        from ..absint import explore
        rows = explore(repo, [defs[0]], {"args": Obj("args", nonnull=True)})
        got = {r.valuation.get("isnone:args.pair_filter"): vkey(r.env["pair_filter_mode"]) for r in rows}
        ok = got == {True: "'any'", False: "args.pair_filter"}
    else:
        got = None
    report.ob("C05.R4", "configured mode = --pair-filter, default any", ok, facts={"table": {str(k): v for k, v in (got or {}).items()}}, expected={"None": "'any'", "given": "args.pair_filter"}, loc=repo.loc(defs[0]) if defs else "src/cutadapt/cli.py")


def _g(val):
    return {k: str(v) for k, v in val.items() if any(x in k for x in ("adapters", "untrimmed", "discard"))}


def c05_r5_lengths(repo, report, tier):
    """LEN:LEN2 -> predicates: missing side gives None; a single value in paired mode is duplicated."""
    m = model(repo, True)
    mixed_stage_obligation(repo, report, "C05.R5", m, "paired")
    entries = [e for e in _step_entries(repo, m) if e["outer"] == "PairedEndFilter" and set(e["preds"]) & {"TooShort", "TooLong"}]
    bad = []
    n = 0
    for e in entries:
        val = e["val"]
        p = "TooShort" if "TooShort" in e["preds"] else "TooLong"
        opt = "minimum_length" if p == "TooShort" else "maximum_length"
        L = f"parse_lengths(args.{opt})"
        a = _split_args(e["slot"].key)
        if len(a) < 2:
            bad.append({"term": e["slot"].key[:80], "problem": "constructor arity"})
            continue
        if val.get(f"sign:len({L})-1") == -1 or val.get(f"sign:len({L})-2") == 1:
            continue  # parse_lengths returns one or two values (verified below)
        one = val.get(f"sign:len({L})-1") == 0 or val.get(f"sign:len({L})-2") == -1
        two = val.get(f"sign:len({L})-2") == 0
        n += 1
        # the predicate of a mate exists iff that mate's bound was given: the decision must have looked at it
        if f"isnone:{L}[0]" not in val or (not one and f"isnone:{L}[1]" not in val):
            bad.append({"term": e["slot"].key[:120], "problem": "the predicates are built without testing whether each bound was given (a missing bound must give no predicate for that mate)", "guard": {k: str(v) for k, v in val.items() if L in k}})
            continue
        if one:
            exp = (f"{p}({L}[0])", f"{p}({L}[0])") if val.get(f"isnone:{L}[0]") is False else None
        elif two:
            exp = (f"{p}({L}[0])" if val.get(f"isnone:{L}[0]") is False else "None", f"{p}({L}[1])" if val.get(f"isnone:{L}[1]") is False else "None")
        else:
            exp = None
        if exp is not None and (a[0], a[1]) != exp:
            bad.append({"term": e["slot"].key[:120], "expected": exp, "guard": {k: str(v) for k, v in val.items() if L in k}})
    report.ob("C05.R5", "LEN:LEN2 bounds reach the right mate", not bad and n >= 6, facts={"slots": n, "problems": bad[:3]},
              expected="one value -> both mates; LEN: -> R1 only; :LEN2 -> R2 only; LEN:LEN2 -> (R1, R2)", loc="src/cutadapt/cli.py", cases=n, why=str(bad[0]) if bad else "")
    # parse_lengths itself: field i -> position i
    fn = repo.func("cli", "parse_lengths")
    comp = [n for n in ast.walk(fn) if isinstance(n, ast.GeneratorExp)]
    ok = bool(comp) and src(comp[0].generators[0].iter) == "fields" and any(isinstance(x, ast.Call) and src(x.func) == "s.split" and src(x.args[0]) == "':'" for x in ast.walk(fn))
    raises = [n for n in ast.walk(fn) if isinstance(n, ast.If) and any(isinstance(x, ast.Raise) for x in n.body)]
    tests = [src(n.test) for n in raises]
    ok_len = any(t.replace(" ", "") in ("len(fields)notin(1,2)", "notlen(fields)in(1,2)") for t in tests)
    ok_none = any("values[0] is None" in t and "values[1] is None" in t for t in tests)
    report.ob("C05.R5", "parse_lengths rejects empty bounds", ok_len and ok_none, facts={"guards": tests}, expected="more than one colon raises; ':' without any number raises (so a pair filter always has at least one predicate)", loc=repo.loc(fn))
    report.ob("C05.R5", "parse_lengths keeps field order", ok, facts={"generator": src(comp[0])[:120] if comp else None}, expected="values = tuple(int(f) if f != '' else None for f in s.split(':'))", loc=repo.loc(fn))
