"""C11 - Filters use the documented criteria, in order, one destination per read."""
from __future__ import annotations

from . import builder_rules


def run(repo, report, tier):
    report.guard("C11.R1", "make_pipeline_from_args", builder_rules.c11_builder, repo, report, tier)
    from .c11_predicates import r2_criteria, r3_first_wins

    report.guard("C11.R2", "predicates", r2_criteria, repo, report)
    report.guard("C11.R3", "filter steps", r3_first_wins, repo, report)
