"""C11 - Filters use the documented criteria, in order, one destination per read."""
from __future__ import annotations

from . import builder_rules


def run(repo, report, tier):
    report.guard("C11.R1", "make_pipeline_from_args", builder_rules.c11_builder, repo, report, tier)
    from .c11_predicates import r2_criteria, r3_first_wins

    report.guard("C11.R2", "predicates", r2_criteria, repo, report)
    report.guard("C11.R3", "filter steps", r3_first_wins, repo, report)
    report.guard("C11.R2", "quality base of the error filters", r2_quality_base, repo, report)


def r2_quality_base(repo, report, rule="C11.R2"):
    """The expected-error criteria are sums of 10^(-Q/10) with Q = ord(char) - quality base: every predicate that calls
    expected_errors() passes the base it was constructed with, and the builder constructs it with --quality-base."""
    import ast
    import re

    from ..repo import chain, params, src
    from . import builder_rules

    n = 0
    for cls in repo.subclasses("Predicate"):
        test = cls.methods.get("test")
        if test is None:
            continue
        ees = [x for x in ast.walk(test) if isinstance(x, ast.Call) and chain(x.func) == "expected_errors"]
        if not ees:
            continue
        n += 1
        init = cls.methods.get("__init__")
        ip = params(init)[1:] if init is not None else []
        stored = {src(x.value): chain(x.targets[0]) for x in ast.walk(init) if isinstance(x, ast.Assign) and isinstance(x.value, ast.Name) and chain(x.targets[0])} if init is not None else {}
        base_attrs = {stored[p_] for p_ in ip if p_ in stored and "base" in p_}
        passed = []
        for c_ in ees:
            extra = [src(a) for a in c_.args[1:]] + [src(k.value) for k in c_.keywords if k.arg == "base"]
            passed.append(extra)
        ok = bool(base_attrs) and all(len(e) == 1 and e[0] in base_attrs for e in passed)
        report.ob(rule, f"{cls.name}.test interprets qualities with the configured base", ok, facts={"expected_errors_calls": [src(c_) for c_ in ees], "base_attribute": sorted(base_attrs)},
                  expected="expected_errors(read.qualities, self.<quality base given to the constructor>)", loc=repo.loc(test),
                  why="" if ok else "the qualities are always decoded with base 33: with --quality-base 64 a read of Q10 bases is taken for Q41 and passes --max-ee / --max-aer")
        # the builder passes --quality-base
        for paired in (False, True):
            mdl = builder_rules.model(repo, paired)
            terms = sorted({mm.group(0) for _, _, _, _, sl in mdl.slots("steps") for mm in re.finditer(re.escape(cls.name) + r"\([^()]*\)", sl.key)})
            okb = bool(terms) and all("args.quality_base" in t for t in terms)
            report.ob(rule, f"{'paired' if paired else 'single'}: {cls.name} is built with --quality-base", okb, facts={"terms": terms[:3]}, expected=f"{cls.name}(<threshold>, args.quality_base)", loc="src/cutadapt/cli.py")
    report.floor(rule, "predicates that compute expected errors", n, 2)
