"""
Constructs shared between properties.

A construct such as Aligner.__reduce__, the k-mer prefilter or Statistics.__iadd__ is a necessary condition of several
properties at once (a pickled aligner with swapped wildcard flags breaks "every reported match is genuine" just as it
breaks "multi-core equals single-core").  The rule that decides the construct lives in one rule module; the table below
re-reports its obligations under every other property whose statement depends on it, as rule  Cnn.X , so that each
property's own check fails when one of its necessary conditions fails.  Each entry says why the property depends on the
construct; `pick` selects the obligations of the source function that matter.
"""
from __future__ import annotations

import importlib

from ..core import Report


def _has(*words):
    return lambda o: any(w in o.construct for w in words)


ALL = lambda o: True  # noqa: E731

# property -> [(source module, function, extra args, pick, why)]
MIRRORS = {
    "C01": [
        ("c18", "r4_precedence", (), ALL, "the error rate and minimum overlap an adapter is searched with are its own, not leaked from another specification"),
        ("c08", "r1_coordinates", (), ALL, "matches reported through the adapter index carry coordinates inside the read"),
        ("c08", "r4_eligibility", (), ALL, "an indexed adapter is matched with its own error allowance"),
        ("c08", "r5_nfallback", (), ALL, "N bases in the read are not counted as matches by the index"),
        ("c06", "r5_pickle", (), _has("Aligner", "Comparer"), "a pickled aligner (spawned worker) must search with the same parameters"),
    ],
    "C02": [
        ("c18", "r4_precedence", (), ALL, "search parameters of one specification do not leak into the adapters built after it"),
        ("c01", "r8_tables", (), ALL, "the IUPAC / ACGT encodings decide which characters match"),
        ("c07", "r1_coverage", (), ALL, "the prefilter must not reject a read that contains an admissible occurrence"),
        ("c07", "r2_inputs", (), ALL, "prefilter and aligner see the same string and flags"),
        ("c07", "r3_windows", (), ALL, "the prefilter's windows cover every admissible occurrence"),
        ("c07", "r4_bounds", (), ALL, "no search window that overlaps the read is skipped"),
        ("c07", "r5_word", (), ALL, "no k-mer is dropped on the way to the finder; over-long k-mers fall back to the always-true finder"),
        ("c08", "r1_coordinates", (), ALL, "indexed lookups consider every length that fits into the read"),
        ("c08", "r3_bestof", (), ALL, "the index keeps looking after a miss and prefers the better candidate"),
        ("c06", "r5_pickle", (), _has("Aligner", "Comparer", "KmerFinder"), "pickled aligners / prefilters (spawned workers) keep their parameters"),
        ("c01", "r4_prefix_sums", (), ALL, "the N-discount of the error budget uses the right prefix sums"),
    ],
    "C03": [
        ("c13", "r2_roles", (), ALL, "--quality-base reaches every modifier that interprets quality characters"),
    ],
    "C04": [
        ("c06", "r4_merges", (), ALL, "per-worker statistics are merged additively, field by field"),
        ("c09", "r6_trimmed", (), ALL, "a read counts as 'with adapter' once, iff a match was applied"),
        ("builder_rules", "c10", ("quick",), lambda o: o.rule == "C10.R2" or "length of 0" in o.construct or "returns a record" in o.construct, "every option that is given builds its modifier (numeric presence); no modifier is built that swallows reads"),
    ],
    "C05": [
        ("c15", "r1_writers", (), ALL, "paired demultiplexing opens a writer pair per adapter name"),
    ],
    "C06": [
        ("c04", "r6_collect", (), ALL, "workers collect per-chunk totals additively"),
    ],
    "C07": [
        ("c06", "r5_pickle", (), _has("KmerFinder", "Aligner"), "a pickled prefilter / aligner (spawned worker) must search the same windows with the same minimum overlap: the prefilter is built for the configured overlap, an aligner that lost it reports shorter matches the prefilter rejects"),
    ],
    "C09": [
        ("c03", "r4_intervals", (), _has("LinkedMatch"), "a linked match keeps / masks exactly the interval between its parts"),
    ],
    "C11": [
        ("c05", "r1_pair_filter", (), ALL, "the pair-filter mode combines the two per-read verdicts as documented"),
        ("c05", "r2_index_consistency", (), _has("PairedEndFilter"), "predicate i judges read i with info i"),
        ("builder_rules", "c05_r4_override", ("quick",), ALL, "each pair filter receives the configured mode (forced 'both' for one-sided untrimmed filters)"),
    ],
    "C12": [
        ("c19", "_r3_input", ("C12.X",), ALL, "every reader is told the format detected from the file's content: a corrupted record cannot be re-interpreted as another format by a worker"),
        ("c14", "r1_r2_header", (), _has("unrolled loop", "tail loop", "validity", "every character"), "an invalid quality character is rejected at every position, and the rejection reaches the user as an error"),
    ],
    "C15": [
        ("c08", "r3_bestof", (), ALL, "with indexed barcodes the adapter whose name selects the file is the adapter of the best match"),
        ("c16", "single", (), lambda o: o.rule == "C16.R3", "the matches that select the output file are those of the orientation that was kept"),
        ("c16", "paired", (), lambda o: o.rule == "C16.R3", "paired: the matches that select the output files are those of the orientation that was kept"),
        ("c05", "wrapper_routing", ("C15.X",), ALL, "the R2 modifier records its matches on the R2 info (which selects the file)"),
    ],
    "C16": [
        ("c17", "r1_rows", (), _has("InfoFileWriter"), "the info file is written in the orientation that was kept, applied once per read"),
        ("c06", "r4_merges", (), _has("Statistics.__iadd__"), "the reverse-complemented count of every worker is added"),
    ],
    "C17": [
        ("c08", "r1_coordinates", (), _has("_make_prefix_match", "_make_suffix_match"), "indexed matches carry the coordinates the info file prints"),
    ],
    "C19": [
        ("builder_rules", "c11_builder", ("quick",), lambda o: o.rule == "C11.R4", "every redirect path reaches the writer of its own filter"),
        ("c06", "r5_pickle", (), _has("ProxyRecordWriter", "ProxyTextFile"), "a pickled output proxy (spawned worker) keeps the format keywords"),
    ],
    "C20": [
        ("c06", "r4_merges", (), _has("Statistics", "EndStatistics", "AdapterStatistics"), "per-adapter statistics of the workers are merged additively"),
    ],
}


# mirrors whose source produces obligations only when a construct of that kind exists (e.g. a class with a __copy__ hook):
# zero obligations on today's tree is then not a vanished anchor
OPTIONAL = set()


def _extend(prop, entries):
    MIRRORS.setdefault(prop, []).extend(entries)


_extend("C03", [("c08", "r1_coordinates", (), ALL, "matches built by the adapter index carry in-read coordinates of the looked-up length (mask/crop/trim slice by them)")])
_extend("C04", [("c13", "r3_scans", (), ALL, "the quality-trimming interval is normalised, so the reported number of removed bases cannot exceed the read"),
                ("c13", "r1_reported", (), ALL, "quality-trimmed base counts are what was removed")])
_extend("C05", [("c15", "r3_mode", (), ALL, "{name} templates must agree between -o and -p, otherwise R1 is split and R2 is not")])
_extend("C09", [("c03", "r4_intervals", (), _has("RemoveBeforeMatch", "RemoveAfterMatch"), "the 3' part of a linked adapter is searched in exactly what the 5' match leaves (trim_slice = remainder)")])
_extend("C10", [("c16", "single", (), ALL, "the reverse-complement candidate is built from the read handed in by the previous modifier"),
                ("c16", "paired", (), ALL, "paired: the swapped candidate is built from the reads handed in")])
_extend("C11", [("builder_rules", "c05_r5_lengths", ("quick",), ALL, "a one-sided LEN:LEN2 bound gives a predicate for that mate only")])
_extend("C13", [("c20", "r3_collect", (), _has("accumulated"), "the reported number of quality-trimmed bases adds up all quality trimmers"),
                ("builder_rules", "c10", ("quick",), lambda o: o.rule == "C10.R2", "a cutoff of 0 still builds its trimmer (presence tested with 'is None')")])
_extend("C15", [("c03", "r5_actions", (), _has("PairedAdapterCutter"), "every action registers the pair's matches (they select the output file)"),
                ("c04", "r1_accounting", (), _has("PairedSingleEndStep"), "a wrapped single-end step passes the pair on unless the step consumed it")])
_extend("C17", [("c03", "r1_writers", (), ALL, "no modifier writes into the record that info.original_read refers to"),
                ("c05", "wrapper_routing", ("C17.X",), ALL, "R2's matches are recorded on R2's info"),
                ("c01", "r7_tuple", (), ALL, "the coordinates stored in a match are those of the alignment (incl. the rightmost mirror)")])
_extend("C18", [("c06", "r5_pickle", (), _has("Aligner", "Comparer"), "search parameters given in a specification survive pickling of the adapter (spawned workers)"),
                ("c09", "r1_best", (), _has("_regroup_into_indexed_adapters", "adapter list"), "every adapter given on the command line is searched"),
                ("c07", "r1_coverage", (), ALL, "a documented placement (e.g. ;rightmost;anywhere) is not cut off by the prefilter")])


def apply(repo, report):
    pid = report.prop
    entries = MIRRORS.get(pid, [])
    if not entries:
        return
    rid = f"{pid}.X"
    report.rule(rid, "constructs shared with other properties hold (each is decided by the rule named in brackets; see sa/rules/mirrors.py for why this property depends on it)",
                "a necessary condition of this property that lives in a shared construct is broken")
    for modname, fname, args, pick, why in entries:
        key = f"mirror:{modname}.{fname}:{args}"
        if key not in repo.cache:
            tmp = Report(pid, report.tier)
            mod = importlib.import_module(f"sa.rules.{modname}")
            fn = getattr(mod, fname)

            def runit(fn=fn, tmp=tmp, args=args):
                if modname == "builder_rules":
                    return fn(repo, tmp, *args)
                if fname == "wrapper_routing":
                    return fn(repo, tmp, *args)
                return fn(repo, tmp, *args)

            tmp.guard(rid, f"{modname}.{fname}", runit)
            repo.cache[key] = tmp.obligations
        obs = [o for o in repo.cache[key] if pick(o) or o.state == "UNRECOGNISED"]
        n = 0
        for o in obs:
            n += 1
            report.ob(rid, f"[{o.rule}] {o.construct}", None if o.state == "UNRECOGNISED" else o.state == "DISCHARGED", facts=o.facts, expected=o.expected, loc=o.loc, why=o.why or "", cases=o.cases)
        if (pid, modname, fname) not in OPTIONAL:
            report.floor(rid, f"obligations of {modname}.{fname} ({why})", n, 1)


_extend("C14", [("c11", "r2_quality_base", ("C14.X",), ALL, "the expected-error value is the sum of 10^(-Q/10) with Q decoded by the configured quality base")])

# fourth round of seeded changes: constructs that turned out to be necessary conditions of further properties
_extend("C02", [("c09", "r1_best", (), _has("_regroup_into_indexed_adapters", "adapter list"), "every adapter given is searched (regrouping for the index must not lose one)"),
                ("c01", "r1_min_overlap_clamp", (), ALL, "an adapter shorter than the requested minimum overlap can still be found (the overlap in force is min(requested, length))"),
                ("c01", "r1_flags", (), _has("aligner flags"), "anchored adapters use the indel-free comparer only when indels are off"),
                ("c01", "r5_first_column", (), ALL, "skipped adapter bases at the read start are charged as deletions unless the adapter's start is free")])
_extend("C04", [("c15", "r1_writers", (), ALL, "reads counted as written to an untrimmed/demultiplexed file go to the file the user named for that mate"),
                ("c12", "r4_sweep", (), lambda o: "files.py" in (o.loc or "") or "steps.py" in (o.loc or ""), "a failed write or close of an output file is not swallowed: reads reported as written were stored"),
                ("c06", "r4_statistics_slots", (), ALL, "the totals of both reads are merged from every worker")])
_extend("C05", [("c11_predicates", "r2_criteria", (), _has("CasavaFiltered"), "the criterion is evaluated on each mate's own header (R2 carries '2:Y:')")])
_extend("C08", [("c01", "r1_anchored_full_length", (), ALL, "the one-by-one search of an anchored adapter requires the whole adapter, as the index does")])
_extend("C09", [("c01", "r5_first_column", (), ALL, "alignment scores decide which adapter wins: skipped adapter bases must cost what the documentation says")])
_extend("C11", [("c14", "r1_r2_header", (), ALL, "--max-ee / --max-aer compare the sum of 10^(-Q/10); an invalid character (and only that) yields the error sentinel")])
_extend("C12", [("c19", "r2_fasta", (), _has("open_record_writer"), "the output format is never silently switched to FASTA: a FASTQ-named output for input without qualities is refused by dnaio (the visible failure)")])
_extend("C14", [("builder_rules", "c10", ("quick",), lambda o: o.rule == "C10.R2" and "max-expected-errors" in o.construct, "--max-ee 0 still installs the filter (presence tested with 'is None')")])
_extend("C16", [("c09", "r4_linked_totals", (), ALL, "the orientation is chosen by the sum of match scores; a linked match scores the sum of its parts")])
_extend("C17", [("c08", "r3_bestof", (), ALL, "the error count and coordinates printed are those stored for the match (index look-ups with N included)"),
                ("c13", "r3_scans", (), _has("5' scan", "cutoff per end"), "with a 3'-only cutoff nothing is removed from the 5' end, so printed coordinates refer to the input read")])
_extend("C18", [("c01", "r1_flags", (), _has("aligner flags"), "'^ADAPTER' / 'ADAPTER$' with indels allowed is searched with indels")])
_extend("C20", [("c06", "r4_statistics_slots", (), ALL, "per-adapter statistics of both reads are merged from every worker")])
_extend("C04", [("c15", "r1_reserved_name", (), ALL, "two writers never share a demultiplexing file (reads counted as written are in the files)")])

# fifth round
_hooks = lambda o: any(w in o.construct for w in ("__copy__", "__deepcopy__", "__getstate__", "__setstate__")) and not any(w in o.construct for w in ("ProxyRecordWriter", "ProxyTextFile"))  # noqa: E731
for _p, _why in (("C03", "the R2 copy of a modifier (copy.copy in the builder) keeps its configuration, e.g. the quality base of the zero capper"),
                 ("C10", "a shared option acts on R2 through a copy of the modifier built for R1: the copy must be configured identically"),
                 ("C13", "the R2 copy of the quality trimmer keeps both cutoffs and the quality base")):
    _extend(_p, [("c06", "r5_pickle", (), _hooks, _why)])
    OPTIONAL.add((_p, "c06", "r5_pickle"))
_extend("C02", [("c01", "r7_tuple", (), _has("match_to"), "a match is reported whenever the aligner finds one: no path returns None without asking it")])
_extend("C02", [("c08", "r2_ambiguity", (), ALL, "an error-free anchored occurrence is removed exactly: a worse index entry never replaces a better one"),
                ("c08", "r4_eligibility", (), ALL, "adapters searched with read wildcards are not served from the index (which knows only N)")])
_extend("C03", [("c09", "r1_sibling_cutters", (), ALL, "the --action given applies to R2's adapters as it does to R1's")])
_extend("C04", [("c14", "r6_reported", (), ALL, "the reported poly-A/poly-T lengths are the numbers of bases removed")])
_extend("C05", [("builder_rules", "c11_builder", ("quick",), lambda o: o.rule == "C11.R4", "both files of a redirect pair are opened as a pair (R1 to the first, R2 to the second), whatever the input layout"),
                ("c16", "paired", (), lambda o: o.rule == "C16.R3", "after a swap each mate's matches stay with the info object of the slot it is written to (info-based filters look there)")])
_extend("C08", [("c01", "r6_comparers", (), ALL, "the one-by-one search of an anchored adapter without indels uses the same tolerance and overlap as the index")])
_extend("C11", [("c04", "r1_accounting", (), _has("PairedSingleEndStep"), "a pair reaches the filters unless a step really consumed it (an empty read is still a read)")])
_extend("C12", [("c06", "r3_ordered", (), ALL, "what is in the output when the run fails is a prefix of the correct output: chunks reach the file only in input order")])
_extend("C13", [("c04", "r7_minimal_columns", (), ALL, "the quality-trimmed columns of the minimal report show R1's and R2's removed bases separately")])
_extend("C15", [("c05", "r6_pair_adapters", (), ALL, "with --pair-adapters the match that names the output file stems from the adapter pair that was applied")])
_extend("C16", [("c09", "r6_trimmed", (), ALL, "with and without --revcomp the adapter cutter treats a read the same way (same preparation before matching)"),
                ("c03", "r1_writers", (), ALL, "the two orientation trials work on the same record objects: neither may write into them")])
_extend("C17", [("c03", "r4_intervals", (), ALL, "trimmed() of a match, replayed by the info writer on the original read, removes exactly the interval the coordinates describe"),
                ("c18", "r5_file", (), _has("read_adapters_fasta"), "the adapter name printed is the name of the record the sequence came from")])
_extend("C18", [("c08", "r4_eligibility", (), ALL, "a record's own indels/noindels setting is honoured when the adapters of a file share one index")])
_extend("C09", [("c08", "r4_eligibility", (), ALL, "adapters that need the aligner (IUPAC wildcards, read wildcards) stay in the one-by-one search where the documented best-match rule applies"),
                ("c18", "r4_precedence", (), ALL, "required/optional of a linked adapter's parts are its own: parameters of another specification do not leak into it"),
                ("c03", "r5_actions", (), _has("times"), "actions that use the coordinates of the last match (retain, crop) are not combined with several rounds, whose later coordinates refer to an already trimmed read")])
_extend("C15", [("c04", "r8_claimed_before_open", (), ALL, "no two demultiplexing writers (or a demultiplexing writer and another output) share a file")])
_extend("C04", [("c20", "r3_no_early_exit", (), ALL, "the with-adapter and quality-trimmed counts of BOTH mates reach the report")])
_extend("C15", [("c06", "r5_pickle", (), _has("ProxyRecordWriter"), "demultiplexed files get the format of their name also in spawned workers (the writer's format survives pickling)")])

# sixth round
_extend("C02", [("c18", "r1_options", (), ALL, "-b/-B adapters are searched as 'anywhere' adapters, -a/-A as 3', -g/-G as 5'")])
_extend("C06", [("c12", "r1_total", (), _has("ReaderProcess"), "a reader that fails must not release the workers as if the input had ended: the multi-core run would exit 0 with truncated output where one core fails")])
_extend("C07", [("c01", "r6_comparers", (), ALL, "aligner/comparers and the prefilter derive the number of allowed errors from the same expression int(rate * length)"),
                ("c01", "r1_min_overlap_clamp", (), ALL, "the prefilter is built with the minimum overlap the aligner uses")])
_extend("C08", [("c01", "r8_tables", (), ALL, "the one-by-one comparison treats read characters exactly as the index's ACGT strings do (no extra equivalences)")])
_extend("C09", [("c03", "r4_intervals", (), ALL, "the union of the removed parts over all rounds (remainder) is what non-trim actions are applied to"),
                ("c07", "r3_windows", (), ALL, "a later round or a competing adapter is not lost to the prefilter")])
_extend("C11", [("c16", "paired", (), lambda o: o.rule == "C16.R3", "the trimmed/untrimmed filters see the matches of the orientation that was kept, on the info of the read they belong to"),
                ("c20", "r1_register", (), ALL, "every action (also 'none') records the matches the trimmed/untrimmed filters look at"),
                ("builder_rules", "c10", ("quick",), lambda o: o.rule == "C10.R2" and ("max-expected-errors" in o.construct or "max-average-error-rate" in o.construct or "max-n" in o.construct), "a threshold of 0 still installs its filter")])
_extend("C16", [("c20", "r6_per_adapter_values", (), ALL, "the count of reverse-complemented reads shown for an adapter is that adapter's own")])
_extend("C17", [("c06", "r5_pickle", (), _has("Aligner", "Comparer"), "the error counts printed by spawned workers are computed with the configured wildcard flags")])
_extend("C18", [("c07", "r3_windows", (), ALL, "an error rate given in a specification is honoured for short partial occurrences too"),
                ("c09", "r4_linked", (), ALL, "a required part that is missing leaves the read untouched")])
_extend("C03", [("c09", "r2_rounds", (), ALL, "every match that removed something is in the list the mask/lowercase/retain/crop helpers work on")])

# seventh round
_extend("C10", [("c18", "r1_options", (), _has("option -"), "an upper-case adapter/cut option stores into the R2 destination: it acts on R2 only")])
_extend("C17", [("c01", "r8_tables", (), ALL, "the errors column counts mismatches by the documented alphabet (an IUPAC code matches exactly its bases)"),
                ("c01", "r1_search_object_arguments", (), ALL, "the matches and errors columns are computed with the wildcard settings the user gave for the read and the adapter")])
_extend("C18", [("c08", "r3_bestof", (), ALL, "an anchored adapter given with parameters is still found when it is looked up through the index (shorter affixes are tried after longer ones)")])
_extend("C02", [("c03", "r4_intervals", (), _has("RemoveBeforeMatch", "RemoveAfterMatch"), "the 3' part of a linked adapter is searched in exactly what the 5' match leaves: a base skipped there hides an exact copy that follows directly"),
                ("c01", "r6_rate_precision", (), ALL, "an occurrence with exactly floor(rate x length) errors is admissible: the rate must not be rounded on its way to the comparison")])
_extend("C07", [("c01", "r1_min_overlap_clamp", (), ALL, "the prefilter is built for overlaps of at least one base; a zero overlap makes the aligner report empty matches the prefilter cannot see")])

# eighth round
_extend("C15", [("c19", "r4_writer_layout", (), ALL, "the demultiplexers open two-file writers without saying 'interleaved': the default must not follow --interleaved input"),
                ("c17", "r4_names", (), ALL, "an unnamed (linked) adapter gets a generated name: the {name} file of its reads is named after it")])
_extend("C17", [("builder_rules", "c10", ("quick",), lambda o: "length of 0" in o.construct or "decides only about its own cutter" in o.construct or "returns a record" in o.construct, "a cutter of length 0 returns None: the read never reaches the info-file writer")])
_extend("C18", [("c09", "r5_defaults", (), ALL, "required/optional of a linked adapter's parts follow the documented defaults for -a versus -g, and an explicit ;required / ;optional decides alone"),
                ("c07", "r1_coverage", (), _has("anywhere"), "an adapter given with ;anywhere is found wherever -b would find it, also in reads shorter than the adapter")])
_extend("C09", [("c05", "r6_pair_adapters", (), _has("_find_best_match_pair"), "with --pair-adapters the best pair is chosen by the totals of both matches (first wins ties)")])

# ninth round
_extend("C03", [("c01", "r7_tuple", (), ALL, "retain and crop keep the interval [rstart, rstop) of the match: the coordinates stored in a match are those of the alignment (incl. the rightmost mirror)")])
_extend("C05", [("c04", "r8_claimed_before_open", (), ALL, "a file generated from a {name} template that equals another output of one mate only gets that mate's reads twice: R1 and R2 files fall out of step")])
_extend("C06", [("c04", "r5_loops", (), ALL, "a worker runs process_reads once per chunk: per-call totals must start from zero in every call, or the sums depend on how chunks are distributed")])

# tenth round
_extend("C04", [("c16", "paired", (), _has("PairedReverseComplementer"), "with --revcomp the matches of both mates are registered: 'reads with adapters' of R2 equals the number of R2 reads an adapter was removed from")])
_extend("C09", [("c07", "r4_bounds", (), ALL, "later --times rounds search what is left of the read, which is short: a search window that reaches beyond it is clamped, not skipped")])
_extend("C11", [("c05", "wrapper_routing", ("C11.X",), ALL, "R2's matches are recorded on R2's info: --discard-trimmed / --discard-untrimmed with --pair-filter=first judge R1 by R1's matches")])
_extend("C13", [("c06", "r4_statistics_slots", (), ALL, "the quality-trimmed base count of every worker is merged for both reads")])
_extend("C15", [("c09", "r2_rounds", (), _has("one round"), "with --times the read is routed by the adapter of its last round: every round searches what the previous one left, also under --action=none")])
