"""C20 - Per-adapter statistics describe exactly the matches that were applied."""
from __future__ import annotations

import ast
import re

from ..absint import Const, Obj, Tup, explore, vkey
from ..core import Unrecognised, Report
from ..lin import Lin
from ..repo import chain, params, src, strip_docstring, walk_no_nested, calls
from ..tables import Bool, Sign, check_table, SKIP


def run(repo, report, tier):
    report.rule("C20.R1", "matches are registered once, after the orientation / pair decision: with_adapters += 1 iff the chosen list is non-empty, each chosen match goes through add_match of the statistics object of its own adapter, info.matches receives the same list",
                "statistics describe matches that were not applied (or miss applied ones)")
    report.rule("C20.R2", "every add_match tallies errors[removed_sequence_length()][errors] += 1 for the match it was given; the 3' side also tallies the adjacent base sequence[rstart-1:rstart] (unknown -> ''); anywhere splits by match class; linked tallies each part on its own end",
                "histogram rows / adjacent-base counts attributed to the wrong length, end or base")
    report.rule("C20.R3", "Statistics._collect_modifier handles every modifier class that keeps tallies, slot i = mate i+1, and reads the tallies of the object it was given",
                "a modifier's counts never reach the report, or R1's numbers are reported for R2")
    report.rule("C20.R6", "both consumers of the error-range table (text report and JSON report) build it from the end statistics' effective_length and max_error_rate",
                "text and JSON reports disagree about allowed errors; N wildcards are counted as real bases")
    report.guard("C20.R1", "registration sites", r1_register, repo, report)
    report.guard("C20.R1", "ownership of the match list", r1_fresh_match_list, repo, report)
    report.guard("C20.R2", "add_match bodies", r2_tallies, repo, report)
    report.guard("C20.R2", "tally objects", r2_distinct_tallies, repo, report)
    report.guard("C20.R3", "Statistics._collect_modifier", r3_collect, repo, report)
    report.guard("C20.R3", "both mates are collected", r3_no_early_exit, repo, report)
    report.guard("C20.R6", "ErrorRanges call sites", r6_error_ranges, repo, report)
    report.guard("C20.R2", "histogram rows", r2_histogram_rows, repo, report)
    report.guard("C20.R2", "text rendering of the tallies", r2_text_rendering, repo, report)
    report.guard("C20.R6", "per-adapter section of the text report", r6_per_adapter_values, repo, report)
    report.guard("C20.R6", "ErrorRanges boundaries", r6_range_boundaries, repo, report)
    report.notes.append("C20.R4 (merge of statistics is complete and additive) is C06.R4; C20.R5 (removed_sequence_length) is C03.R4. Not decided: the 'allowed errors' arithmetic of ErrorRanges (int(e/rate)-1 is not max{L: floor(L*rate) < e} when 1/rate is not an integer: -e 0.15, length 20 reports [5, 12, 19, 20], true [6, 13, 19, 20]) - a numeric defect seen while reading, outside the reach of a shape rule.")


def r1_register(repo, report):
    # the three single-read sites are checked by C09.R6 and C16.R3 (same constructs); re-run them here under C20.R1
    from . import c09, c16

    tmp = Report("C20", report.tier)
    c09.r6_trimmed(repo, tmp)
    c16.single(repo, tmp)
    c16.paired(repo, tmp)
    n = 0
    for o in tmp.obligations:
        if o.rule in ("C09.R6", "C16.R3"):
            n += 1
            report.ob("C20.R1", o.construct, None if o.state == "UNRECOGNISED" else o.state == "DISCHARGED", facts=o.facts, expected=o.expected, loc=o.loc, why=o.why, cases=o.cases)
    report.floor("C20.R1", "registration sites (single, revcomp, paired revcomp)", n, 3)
    # PairedAdapterCutter
    cls = repo.cls("PairedAdapterCutter")
    c, fn = repo.need_method("PairedAdapterCutter", "__call__")
    pp = params(fn)

    def hook(ex, node, env):
        if chain(node.func) == "self._find_best_match_pair":
            return Tup([Obj("M1", nonnull=True), Obj("M2", nonnull=True)])
        return None

    env = {"self": Obj("self", nonnull=True), pp[1]: Obj("R1", nonnull=True), pp[2]: Obj("R2", nonnull=True), pp[3]: Obj("I1", nonnull=True), pp[4]: Obj("I2", nonnull=True)}
    rows = explore(repo, strip_docstring(fn.body), env, call_hook=hook, inline=False)
    bad = []
    for r in rows:
        if r.exit[0] != "return":
            continue
        wa = [e for e in r.effects if e[0] == "aug" and e[1] == "self.with_adapters"]
        adds = [e[2] for e in r.effects if e[0] == "call" and e[1].endswith(".add_match")]
        if len(wa) != 1 or wa[0][2] != "+1":
            bad.append(("with_adapters", [e[:3] for e in wa]))
        want = ["self.adapter_statistics[0][M1.adapter].add_match(M1)", "self.adapter_statistics[1][M2.adapter].add_match(M2)"]
        if adds != want:
            bad.append(("add_match", adds, want))
        app = sorted(e[2] for e in r.effects if e[0] == "call" and e[1].endswith(".matches.append"))
        if app != ["I1.matches.append(M1)", "I2.matches.append(M2)"]:
            bad.append(("info.matches", app))
    report.saw(function="PairedAdapterCutter.__call__", valuations=len(rows))
    report.ob("C20.R1", "PairedAdapterCutter.__call__", not bad and bool(rows), facts={"paths": len(rows), "problems": [str(b)[:240] for b in bad[:3]]},
              expected="with_adapters += 1 once per trimmed pair; match i registered on adapter_statistics[i-1][its adapter] and on info i", loc=repo.loc(fn), cases=len(rows), why=str(bad[0])[:200] if bad else "")


def _addmatch_rows(repo, cname):
    cls = repo.cls(cname)
    c, fn = repo.need_method(cname, "add_match")
    ps = params(fn)
    rows = explore(repo, strip_docstring(fn.body), {"self": Obj("self", nonnull=True), ps[1]: Obj("MATCH", nonnull=True)}, inline=False)
    return cls, fn, rows


def _tallies(r):
    """(error tallies, adjacent-base tallies) of one path; on the path where the adjacent base is not a
    known key (KeyError) the tally under '' stands for it and is normalised to the same shape"""
    errs = [(e[1], e[2]) for e in r.effects if e[0] == "aug" and ".errors[" in e[1]]
    adj = [(e[1], e[2]) for e in r.effects if e[0] == "aug" and ".adjacent_bases[" in e[1]]
    unknown = [k for k, v in r.valuation.items() if k.startswith("haskey:") and ".adjacent_bases[" in k and v is False]
    if unknown:
        holder = unknown[0][len("haskey:"):]
        base = holder[:holder.index(".adjacent_bases[")]
        norm = []
        for t, v in adj:
            if t == f"{base}.adjacent_bases['']":
                norm.append((holder, v))
            else:
                norm.append((t + " (although the key is unknown)", v))
        adj = norm
    return errs, adj


def _except_handler_ok(fn):
    """try: X.adjacent_bases[b] += 1 / except KeyError: X.adjacent_bases[''] += 1  (same X)"""
    res = []
    for t in [n for n in ast.walk(fn) if isinstance(n, ast.Try)]:
        body = [s for s in t.body if isinstance(s, ast.AugAssign)]
        if len(body) != 1 or len(t.handlers) != 1:
            res.append(False)
            continue
        h = t.handlers[0]
        hb = [s for s in h.body if isinstance(s, ast.AugAssign)]
        ok = chain(h.type) == "KeyError" and len(hb) == 1 and isinstance(hb[0].target, ast.Subscript) and isinstance(body[0].target, ast.Subscript) \
            and src(hb[0].target.value) == src(body[0].target.value) and isinstance(hb[0].target.slice, ast.Constant) and hb[0].target.slice.value == "" \
            and isinstance(hb[0].value, ast.Constant) and hb[0].value.value == 1 and isinstance(hb[0].op, ast.Add)
        res.append(ok)
    return res


def r2_tallies(repo, report):
    stats = [c.name for c in repo.subclasses("AdapterStatistics") if "add_match" in c.methods]
    report.floor("C20.R2", "add_match implementations", len(stats), 4)
    for cname in sorted(stats):
        cls, fn, rows = _addmatch_rows(repo, cname)
        report.saw(cls=cname, function=f"{cname}.add_match", valuations=len(rows))
        bad = []
        if cname == "FrontAdapterStatistics":
            for r in rows:
                errs, adj = _tallies(r)
                if errs != [("self.end.errors[MATCH.removed_sequence_length()][MATCH.errors]", "+1")] or adj:
                    bad.append((errs, adj))
            want = "end.errors[match.removed_sequence_length()][match.errors] += 1, no adjacent base"
        elif cname == "BackAdapterStatistics":
            for r in rows:
                errs, adj = _tallies(r)
                if errs != [("self.end.errors[MATCH.removed_sequence_length()][MATCH.errors]", "+1")] or adj != [("self.end.adjacent_bases[MATCH.adjacent_base()]", "+1")]:
                    bad.append((errs, adj))
            if _except_handler_ok(fn) != [True]:
                bad.append(("unknown adjacent base must be counted under ''", _except_handler_ok(fn)))
            want = "end.errors[...] += 1 and end.adjacent_bases[match.adjacent_base()] += 1 (KeyError -> '')"
        elif cname == "AnywhereAdapterStatistics":
            roles = {"front": Bool("isinstance:MATCH:RemoveBeforeMatch")}
            for r in rows:
                errs, adj = _tallies(r)
                isf = r.valuation.get("isinstance:MATCH:RemoveBeforeMatch")
                if isf is None:
                    bad.append(("does not distinguish 5' from 3' matches", r.describe()))
                elif isf:
                    if errs != [("self.front.errors[MATCH.removed_sequence_length()][MATCH.errors]", "+1")] or adj:
                        bad.append(("front", errs, adj))
                else:
                    if errs != [("self.back.errors[MATCH.removed_sequence_length()][MATCH.errors]", "+1")] or adj != [("self.back.adjacent_bases[MATCH.adjacent_base()]", "+1")]:
                        bad.append(("back", errs, adj))
            if _except_handler_ok(fn) != [True]:
                bad.append(("unknown adjacent base must be counted under ''", _except_handler_ok(fn)))
            want = "RemoveBeforeMatch -> front.errors; else back.errors + back.adjacent_bases"
        elif cname == "LinkedAdapterStatistics":
            for r in rows:
                errs, adj = _tallies(r)
                f = r.valuation.get("truthy:MATCH.front_match")
                b = r.valuation.get("truthy:MATCH.back_match")
                we, wa = [], []
                if f is None or b is None:
                    # a path that never asks whether one of the parts was found cannot have counted it
                    bad.append((f"the {'5-prime' if f is None else '3-prime'} part is not looked at when the other part is {'missing' if (b if f is None else f) is False else 'present'}", r.describe()["valuation"]))
                    continue
                if f:
                    we.append(("self.front.errors[MATCH.front_match.removed_sequence_length()][MATCH.front_match.errors]", "+1"))
                if b:
                    we.append(("self.back.errors[MATCH.back_match.removed_sequence_length()][MATCH.back_match.errors]", "+1"))
                    wa.append(("self.back.adjacent_bases[MATCH.back_match.adjacent_base()]", "+1"))
                if errs != we or adj != wa:
                    bad.append((f, b, errs, adj))
            if _except_handler_ok(fn) != [True]:
                bad.append(("unknown adjacent base must be counted under ''", _except_handler_ok(fn)))
            want = "front part on self.front, back part on self.back (+ adjacent base of the back part)"
        else:
            report.unrecognised("C20.R2", f"{cname}.add_match", "statistics class without a documented tally rule", repo.loc(fn))
            continue
        report.ob("C20.R2", f"{cname}.add_match", not bad, facts={"paths": len(rows), "problems": [str(b)[:260] for b in bad[:3]]}, expected=want, loc=repo.loc(fn), cases=len(rows), why=str(bad[0])[:200] if bad else "")
    # adjacent_base(): the one base before the match as a slice (empty at position 0, never wrapping around)
    c, ab = repo.need_method("RemoveAfterMatch", "adjacent_base")
    body = strip_docstring(ab.body)
    ok = False
    facts = {}
    upper = None
    if len(body) == 1 and isinstance(body[0], ast.Return):
        e = body[0].value
        facts["returns"] = src(e)
        upper = False
        if isinstance(e, ast.Call) and isinstance(e.func, ast.Attribute) and e.func.attr == "upper" and not e.args:
            upper, e = True, e.func.value
        if isinstance(e, ast.Subscript) and isinstance(e.slice, ast.Slice) and chain(e.value) == "self.sequence" and e.slice.lower is not None and e.slice.upper is not None and e.slice.step is None:
            from .c03 import _lin_of

            env = {"self": Obj("self", nonnull=True)}
            lo, hi = _lin_of(e.slice.lower, env), _lin_of(e.slice.upper, env)
            ok = lo == Lin.atom("self.rstart") - 1 and hi == Lin.atom("self.rstart")
            # rstart == 0: [-1:0] is the empty string - fine; an index [-1] would wrap around
        elif isinstance(e, ast.Subscript):
            ok = False
    report.ob("C20.R2", "RemoveAfterMatch.adjacent_base", ok, facts=facts, expected="self.sequence[self.rstart - 1 : self.rstart] (a slice: empty when the match starts at position 0)", loc=repo.loc(ab),
              why="" if ok else "the adjacent base is not the one-base slice before the match (an index would wrap around to the last base for rstart == 0)")
    # the tallies are dictionaries keyed by the upper-case letters (EndStatistics: 'A','C','G','T',''); the aligner compares
    # case-insensitively, so a read may hold a lower-case base there: it has to be looked up under its letter
    c_es, es_init = repo.need_method("EndStatistics", "__init__")
    keys = [constfold_keys for n_ in ast.walk(es_init) if isinstance(n_, ast.Assign) and chain(n_.targets[0]) == "self.adjacent_bases" and isinstance(n_.value, ast.Dict)
            for constfold_keys in [[k.value for k in n_.value.keys if isinstance(k, ast.Constant)]]]
    upper_keys = bool(keys) and all(k == k.upper() for k in keys[0])
    lookups_upper = upper is True or all(any(isinstance(x, ast.Call) and isinstance(x.func, ast.Attribute) and x.func.attr == "upper" for x in ast.walk(m_))
                                         for cn_ in ("BackAdapterStatistics", "LinkedAdapterStatistics", "AnywhereAdapterStatistics") for m_ in [repo.method(cn_, "add_match")[1]] if m_ is not None)
    report.ob("C20.R2", "the base before a 3' match is tallied under its letter whatever its case", (not upper_keys) or lookups_upper, facts={"tally_keys": keys[0] if keys else None, "adjacent_base_upper_cased": bool(upper)}, loc=repo.loc(ab),
              expected="adjacent_base() (or every add_match) upper-cases the base before it is used as a key of the upper-case tally",
              why="" if ((not upper_keys) or lookups_upper) else "a lower-case base (soft-masked input) is not a key of the tally: it is counted as 'none/other', so the adjacent-base statistics are not the tally of the matches applied")
    # create_statistics: each adapter class creates the statistics class of its own side
    want = {"FrontAdapter": "FrontAdapterStatistics", "BackAdapter": "BackAdapterStatistics", "AnywhereAdapter": "AnywhereAdapterStatistics", "LinkedAdapter": "LinkedAdapterStatistics"}
    for cname, sname in want.items():
        c, f = repo.need_method(cname, "create_statistics")
        rets = [n for n in ast.walk(f) if isinstance(n, ast.Return) and isinstance(n.value, ast.Call)]
        ok = len(rets) == 1 and chain(rets[0].value.func) == sname and rets[0].value.args and src(rets[0].value.args[0]) == "self"
        if cname == "LinkedAdapter" and ok:
            from ..repo import call_arguments
            ca = {k: src(v) for k, v in call_arguments(repo, rets[0].value).items()}
            ok = ca.get("front") == "self.front_adapter" and ca.get("back") == "self.back_adapter" and len(ca) == 3
        report.ob("C20.R2", f"{cname}.create_statistics", ok, facts={"returns": src(rets[0].value) if rets else None}, expected=f"{sname}(self, ...)", loc=repo.loc(f))
    # 5' adapter classes (incl. subclasses) inherit the front statistics, 3' the back statistics
    for sub in repo.subclasses("SingleAdapter"):
        c, f = repo.method(sub.name, "create_statistics")
        if f is None:
            report.ob("C20.R2", f"{sub.name}.create_statistics", False, facts={}, expected="defined through the 5'/3' base class", loc=repo.loc(sub.node))
            continue
        mc = [x for x in calls(repo.method(sub.name, "match_to")[1]) if chain(x.func) in ("RemoveBeforeMatch", "RemoveAfterMatch")]
        kinds = sorted({chain(x.func) for x in mc})
        st = [chain(n.value.func) for n in ast.walk(f) if isinstance(n, ast.Return) and isinstance(n.value, ast.Call)]
        wantst = {"RemoveBeforeMatch": "FrontAdapterStatistics", "RemoveAfterMatch": "BackAdapterStatistics"}
        if len(kinds) == 1:
            ok = st == [wantst[kinds[0]]]
        else:
            ok = st == ["AnywhereAdapterStatistics"]
        report.ob("C20.R2", f"{sub.name}: match class <-> statistics class", ok, facts={"match_classes": kinds, "statistics": st}, expected="RemoveBeforeMatch <-> FrontAdapterStatistics, RemoveAfterMatch <-> BackAdapterStatistics, both <-> AnywhereAdapterStatistics", loc=repo.loc(sub.node))


def r3_collect(repo, report):
    c, fn = repo.need_method("Statistics", "_collect_modifier")
    ps = params(fn)
    handled = set()
    for n in ast.walk(fn):
        if isinstance(n, ast.Call) and chain(n.func) == "isinstance" and len(n.args) == 2:
            t = n.args[1]
            for e in (t.elts if isinstance(t, ast.Tuple) else [t]):
                if chain(e):
                    handled.add(chain(e))
    # modifier classes that keep tallies: attributes initialised in __init__ and augmented / subscript-incremented in any method
    keep = {}
    for base in ("SingleEndModifier", "PairedEndModifier"):
        for cls in repo.subclasses(base):
            init = cls.methods.get("__init__")
            if init is None:
                continue
            inits = {chain(t) for n in ast.walk(init) if isinstance(n, ast.Assign) for t in n.targets if chain(t) and chain(t).startswith("self.")}
            tall = set()
            for m in cls.methods.values():
                for n in ast.walk(m):
                    if isinstance(n, ast.AugAssign):
                        tgt = n.target
                        ch = chain(tgt) if not isinstance(tgt, ast.Subscript) else chain(tgt.value)
                        if ch in inits:
                            tall.add(ch)
            if tall:
                keep[cls.name] = sorted(tall)
    report.floor("C20.R3", "modifier classes with tallies", len(keep), 6)
    for cname, attrs in sorted(keep.items()):
        covered = cname in handled or any(repo.is_subclass(cname, h) for h in handled if h in repo.classes)
        # the attributes are read somewhere in the collector
        text = src(fn)
        reads = [a for a in attrs if ("." + a.split(".", 1)[1]) in text]
        report.ob("C20.R3", f"{cname} tallies are collected", covered and len(reads) == len(attrs), facts={"tallies": attrs, "isinstance_handled": covered, "read_in_collector": reads},
                  expected="an isinstance branch of _collect_modifier reads every tally of the class", loc=repo.loc(fn),
                  why="" if covered else f"{cname} keeps {attrs} but _collect_modifier has no branch for it")
    # accumulation: a branch that can be reached by more than one modifier of the same pipeline (and mate) must add to the
    # tally, not overwrite it.  How many modifiers can reach a branch is read off the builder model: slots of the
    # branch's classes in different builder blocks are switched independently and can be present together.
    import re as _re

    from . import builder_rules

    blocks_of = {}
    for paired in (False, True):
        mdl = builder_rules.model(repo, paired)
        for bi, ri, pos, val, sl in mdl.slots("modifiers"):
            for cn_ in set(_re.findall(r"\b([A-Z][A-Za-z]+)\(", sl.key)):
                blocks_of.setdefault(cn_, set()).add((paired, bi))
    bad_acc = []
    n_br = 0
    for br in ast.walk(fn):
        if not (isinstance(br, ast.If) and isinstance(br.test, ast.Call) and chain(br.test.func) == "isinstance" and len(br.test.args) == 2):
            continue
        t = br.test.args[1]
        classes_ = [chain(e) for e in (t.elts if isinstance(t, ast.Tuple) else [t]) if chain(e)]
        feeders = set()
        for cn_ in classes_:
            feeders |= {(p_, b_, cn_) for (p_, b_) in blocks_of.get(cn_, set())}
        per_mode = {}
        for p_, b_, cn_ in feeders:
            per_mode.setdefault(p_, set()).add(b_)
        several = any(len(v) > 1 for v in per_mode.values())
        if not several:
            continue
        n_br += 1
        for st in br.body:
            if isinstance(st, ast.Assign) and isinstance(st.targets[0], (ast.Subscript, ast.Attribute)) and (chain(st.targets[0]) or chain(getattr(st.targets[0], "value", None)) or "").startswith("self."):
                tgt = src(st.targets[0])
                if tgt not in src(st.value):
                    bad_acc.append(f"{tgt} = {src(st.value)[:50]} (fed by {sorted(classes_)})")
    report.ob("C20.R3", "tallies fed by several modifiers are accumulated", not bad_acc and n_br >= 1, facts={"branches_with_several_feeders": n_br, "problems": bad_acc},
              expected="self.quality_trimmed_bp[i] = add_if_not_none(self.quality_trimmed_bp[i], ...) (both -q and --nextseq-trim trimmers can be present)", loc=repo.loc(fn),
              why=("overwritten instead of added: " + bad_acc[0]) if bad_acc else "")
    # slot routing: (0, m._modifier1), (1, m._modifier2); (0, adapter_cutter1), (1, adapter_cutter2); PairedAdapterCutter i -> adapter_statistics[i]
    lists = [n for n in ast.walk(fn) if isinstance(n, ast.Assign) and isinstance(n.targets[0], ast.Name) and isinstance(n.value, ast.List) and n.value.elts
             and all(isinstance(e, ast.Tuple) and len(e.elts) == 2 and isinstance(e.elts[0], ast.Constant) and isinstance(e.elts[0].value, int) for e in n.value.elts)]
    bad = []
    for l in lists:
        for e in l.value.elts:
            if isinstance(e, ast.Tuple) and len(e.elts) == 2 and isinstance(e.elts[0], ast.Constant):
                i = e.elts[0].value
                nm = chain(e.elts[1]) or ""
                last = nm.split(".")[-1]
                if last[-1:].isdigit() and int(last[-1]) != i + 1:
                    bad.append(src(e))
    report.ob("C20.R3", "collector slot i <-> mate i+1", not bad and len(lists) >= 3, facts={"lists": [src(l.value) for l in lists], "problems": bad}, expected="(0, ..1), (1, ..2)", loc=repo.loc(fn))
    pac = [n for n in ast.walk(fn) if isinstance(n, ast.For) and src(n.iter) in ("(0, 1)", "0, 1", "range(2)", "[0, 1]")]
    ok = False
    if pac:
        body = src(pac[0])
        iv = pac[0].target.id if isinstance(pac[0].target, ast.Name) else None
        ok = iv is not None and f"self.adapter_stats[{iv}] = list({ps[1]}.adapter_statistics[{iv}].values())" in body and f"self.with_adapters[{iv}] = {ps[1]}.with_adapters" in body
    report.ob("C20.R3", "PairedAdapterCutter statistics slots", ok, facts={"loop": src(pac[0])[:200] if pac else None}, expected="for i in 0, 1: with_adapters[i] = m.with_adapters; adapter_stats[i] = list(m.adapter_statistics[i].values())", loc=repo.loc(fn))


def r6_error_ranges(repo, report):
    sites = []
    for m, q, fn in repo.all_functions():
        if m.name != "report":
            continue
        for c in calls(fn):
            if chain(c.func) == "ErrorRanges":
                sites.append((q, fn, c))
    report.floor("C20.R6", "ErrorRanges call sites", len(sites), 2)
    for q, fn, c in sites:
        # resolve local names through their unique assignment in the enclosing function
        local = {}
        for n in walk_no_nested(fn):
            if isinstance(n, ast.Assign) and len(n.targets) == 1 and isinstance(n.targets[0], ast.Name):
                local.setdefault(n.targets[0].id, []).append(n.value)

        def res(e):
            if isinstance(e, ast.Name) and len(local.get(e.id, [])) == 1:
                return src(local[e.id][0])
            return src(e)

        kw = {k.arg: res(k.value) for k in c.keywords}
        args = [res(a) for a in c.args]
        L = kw.get("length", args[0] if args else None)
        R = kw.get("error_rate", args[1] if len(args) > 1 else None)
        ok = bool(L) and bool(R) and L.endswith(".effective_length") and R.endswith(".max_error_rate") and L.rsplit(".", 1)[0] == R.rsplit(".", 1)[0]
        report.ob("C20.R6", f"{q}: ErrorRanges arguments", ok, facts={"length": L, "error_rate": R}, expected="length=<end>.effective_length, error_rate=<end>.max_error_rate", loc=repo.loc(c),
                  why="" if ok else "the allowed-error table is not built from the number of non-N adapter bases")
    # per-end values of the JSON report are computed afresh for every end (nothing is carried over from the previous end)
    c0, js = repo.need_method("Statistics", "_adapter_statistics_as_json")
    loops = [n for n in ast.walk(js) if isinstance(n, ast.For) and isinstance(n.iter, ast.Call) and (chain(n.iter.func) or "").endswith(".end_statistics")]
    if len(loops) != 1:
        report.unrecognised("C20.R6", "_adapter_statistics_as_json: per-end loop", "loop over end_statistics() not found", repo.loc(js))
    else:
        lp = loops[0]
        assigned_in_loop = {x.id for st in lp.body for x in ast.walk(st) if isinstance(x, ast.Name) and isinstance(x.ctx, ast.Store)}

        def definitely(stmts, name):
            for st in stmts:
                if isinstance(st, (ast.Assign, ast.AnnAssign)) and getattr(st, "value", None) is not None:
                    ts = st.targets if isinstance(st, ast.Assign) else [st.target]
                    if any(isinstance(x, ast.Name) and x.id == name for t in ts for x in ast.walk(t)):
                        return True
                if isinstance(st, ast.If) and st.orelse and definitely(st.body, name) and definitely(st.orelse, name):
                    return True
                if isinstance(st, (ast.If,)) and st.body and isinstance(st.body[-1], (ast.Continue, ast.Break, ast.Return, ast.Raise)) and False:
                    return False
            return False

        stale = []
        for i, st in enumerate(lp.body):
            for x in ast.walk(st):
                if isinstance(x, ast.Name) and isinstance(x.ctx, ast.Load) and x.id in assigned_in_loop:
                    # assigned earlier in this iteration on every path?
                    if not definitely(lp.body[:i], x.id) and not (isinstance(st, (ast.Assign, ast.AugAssign)) and False):
                        # reading a variable in the statement that (conditionally) assigns it is fine only for accumulators: x += ..
                        if isinstance(st, ast.AugAssign) and isinstance(st.target, ast.Name) and st.target.id == x.id:
                            continue
                        inner_bound = any(isinstance(y, (ast.comprehension, ast.For)) and any(isinstance(z, ast.Name) and z.id == x.id for z in ast.walk(y.target)) for y in ast.walk(st))
                        if not inner_bound and x.id not in stale:
                            stale.append(x.id)
        report.ob("C20.R6", "_adapter_statistics_as_json: per-end values are not carried over between ends", not stale, facts={"read_before_assigned_in_the_iteration": stale},
                  expected="every variable the per-end record is built from is assigned on every path of the same iteration (e.g. eranges = ... if allows_partial_matches else None)", loc=repo.loc(lp),
                  why=(f"'{stale[0]}' is assigned only on some paths of an iteration: for an end that does not take that path the value of the previous end is reported" if stale else ""))
    # EndStatistics takes both from the adapter
    c, init = repo.need_method("EndStatistics", "__init__")
    ap = params(init)[1]
    st = {chain(t): src(n.value) for n in ast.walk(init) if isinstance(n, (ast.Assign, ast.AnnAssign)) for t in ([n.target] if isinstance(n, ast.AnnAssign) else n.targets) if chain(t)}
    ok = st.get("self.effective_length") == f"{ap}.effective_length" and st.get("self.max_error_rate") == f"{ap}.max_error_rate" and st.get("self.sequence") == f"{ap}.sequence"
    report.ob("C20.R6", "EndStatistics copies the adapter's parameters", ok, facts={k: v for k, v in st.items() if k in ("self.effective_length", "self.max_error_rate", "self.sequence")}, expected="effective_length, max_error_rate, sequence taken from the adapter", loc=repo.loc(init))


def r2_histogram_rows(repo, report):
    """What add_match tallies under errors[length][k] is reported as the k-th entry of the row's error counts: the list
    is indexed by the number of errors, so it must run over 0..max without gaps."""
    fn = repo.func("report", "histogram_rows")
    rows_ = [x for x in calls(fn) if chain(x.func) == "HistogramRow"]
    if len(rows_) != 1:
        raise Unrecognised("histogram_rows: HistogramRow construction not found", repo.loc(fn))
    kw = {k.arg: k.value for k in rows_[0].keywords}
    ec = kw.get("error_counts")
    comp = None
    if isinstance(ec, ast.Name):
        defs = [n.value for n in ast.walk(fn) if isinstance(n, ast.Assign) and chain(n.targets[0]) == ec.id]
        comp = defs[-1] if defs else None
    elif ec is not None:
        comp = ec
    facts = {"error_counts": src(comp)[:120] if comp is not None else None}
    ok = None
    if isinstance(comp, ast.ListComp) and len(comp.generators) == 1 and isinstance(comp.generators[0].target, ast.Name):
        g = comp.generators[0]
        t = g.target.id
        it = g.iter
        elt_ok = isinstance(comp.elt, ast.Subscript) and src(comp.elt.slice) == t and not g.ifs
        table = src(comp.elt.value) if isinstance(comp.elt, ast.Subscript) else None
        # TABLE.get(e, 0) reads the same tally (a missing number of errors has occurred 0 times)
        e_ = comp.elt
        if isinstance(e_, ast.Call) and isinstance(e_.func, ast.Attribute) and e_.func.attr == "get" and len(e_.args) == 2 and src(e_.args[0]) == t and isinstance(e_.args[1], ast.Constant) and e_.args[1].value == 0 and not e_.keywords:
            elt_ok = not g.ifs
            table = src(e_.func.value)
        rng = isinstance(it, ast.Call) and chain(it.func) == "range" and len(it.args) in (1, 2) and (len(it.args) == 1 or src(it.args[0]) == "0")
        upper = it.args[-1] if rng else None
        # the upper bound is (largest error number seen for this length) + 1
        top_ok = False
        if upper is not None and isinstance(upper, ast.BinOp) and isinstance(upper.op, ast.Add) and src(upper.right) == "1":
            base = upper.left
            if isinstance(base, ast.Name):
                d2 = [n.value for n in ast.walk(fn) if isinstance(n, ast.Assign) and chain(n.targets[0]) == base.id]
                base = d2[-1] if d2 else base
            top_ok = isinstance(base, ast.Call) and chain(base.func) == "max" and len(base.args) == 1 and table is not None and src(base.args[0]) in (table, f"{table}.keys()")
        facts.update({"iterates": src(it), "element": src(comp.elt), "dense_range_from_0": bool(rng), "up_to_largest_error_number": top_ok})
        sparse = table is not None and src(it).replace(" ", "") in (table, f"sorted({table})", f"{table}.keys()", f"sorted({table}.keys())", f"list({table})")
        ok = True if (elt_ok and rng and top_ok) else False if sparse else None  # any other shape is not judged
    report.ob("C20.R2", "histogram_rows: error_counts[k] is the tally for k errors", ok, facts=facts, expected="[errors[length][e] for e in range(max(errors[length]) + 1)] (dense, position = number of errors)", loc=repo.loc(rows_[0]),
              why="" if ok is not False else "the list skips error numbers that did not occur, so later counts shift to lower error columns in the text and JSON reports")


# attributes of the run-wide Statistics object that are tallies over ALL adapters (their per-adapter counterparts live on
# the adapter's own statistics object)
_RUN_WIDE_TALLIES = ("reverse_complemented", "with_adapters", "written", "written_bp", "total_written_bp", "quality_trimmed", "quality_trimmed_bp", "filtered", "total", "total_bp")


def r6_per_adapter_values(repo, report):
    """Inside the code that describes ONE adapter (the per-adapter loops of the text and JSON reports, and
    Statistics._adapter_statistics_as_json) a printed tally must come from that adapter's statistics object.  The
    run-wide object may only be asked whether a feature is on, and that question is 'is (not) None': a truth test
    would take a tally of 0 for 'feature off' (--revcomp used, nothing reverse-complemented)."""
    n = 0
    scopes = []
    for owner, fname in ((None, "full_report"), ("Statistics", "as_json")):
        fn = repo.func("report", fname) if owner is None else repo.method(owner, fname)[1]
        if fn is None:
            continue
        run = "self" if owner else params(fn)[0]
        for lp in [x for x in ast.walk(fn) if isinstance(x, (ast.For, ast.ListComp, ast.GeneratorExp))]:
            it, body = (lp.iter, lp.body) if isinstance(lp, ast.For) else (lp.generators[0].iter, [lp.elt])
            if "adapter_stats" in src(it):
                scopes.append((fname, run, body, lp, src(it)[:60]))
    c, fj = repo.method("Statistics", "_adapter_statistics_as_json")
    if fj is not None:
        scopes.append(("_adapter_statistics_as_json", "self", fj.body, fj, "(whole function: one adapter's statistics)"))
    for fname, run, body, anchor, what in scopes:
        n += 1
        bad, weak = [], []
        for st in body:
            for x in ast.walk(st):
                if isinstance(x, ast.Attribute) and isinstance(x.value, ast.Name) and x.value.id == run and x.attr in _RUN_WIDE_TALLIES and isinstance(x.ctx, ast.Load):
                    par = getattr(x, "_parent", None)
                    is_none_test = isinstance(par, ast.Compare) and len(par.ops) == 1 and isinstance(par.ops[0], (ast.Is, ast.IsNot)) and isinstance(par.comparators[0], ast.Constant) and par.comparators[0].value is None
                    is_truth_test = (isinstance(par, (ast.If, ast.IfExp, ast.While)) and par.test is x) or (isinstance(par, ast.UnaryOp) and isinstance(par.op, ast.Not)) or isinstance(par, ast.BoolOp)
                    if is_none_test:
                        continue
                    (weak if is_truth_test else bad).append(f"{run}.{x.attr} at line {x.lineno}")
        report.ob("C20.R6", f"{fname}: values shown for one adapter come from that adapter's statistics", not bad, facts={"scope": what, "run_wide_values_used": bad[:3]}, loc=repo.loc(anchor),
                  expected=f"in per-adapter code, {run}.<run-wide tally> appears only in 'is (not) None' tests",
                  why=(f"{bad[0]} is the tally over all adapters, shown as if it were this adapter's" if bad else ""))
        report.ob("C20.R6", f"{fname}: 'feature on' is asked with 'is not None'", not weak, facts={"truth_tests": weak[:3]}, loc=repo.loc(anchor),
                  expected="an optional run-wide tally is tested with 'is (not) None'",
                  why=(f"{weak[0]} is tested for truth: when the option was used but the tally is 0 the adapter's own count is reported as absent (null) instead of 0" if weak else ""))
    report.floor("C20.R6", "per-adapter scopes in the reports", n, 3)


def r1_fresh_match_list(repo, report):
    """--revcomp calls match_and_trim twice per read (both orientations) and keeps BOTH results until it has chosen;
    the chosen list is what gets tallied.  The list a call returns must therefore be created by that call - a list
    kept on the cutter and cleared per call would make the first result change under the caller's hands."""
    c, fn = repo.need_method("AdapterCutter", "match_and_trim")
    rets = [x for x in ast.walk(fn) if isinstance(x, ast.Return) and isinstance(x.value, ast.Tuple) and len(x.value.elts) == 2]
    if not rets:
        raise Unrecognised("AdapterCutter.match_and_trim: 'return trimmed_read, matches' not found", repo.loc(fn))
    bad = []
    for r in rets:
        e = r.value.elts[1]
        origin = e
        if isinstance(e, ast.Name):
            binds = [x for x in ast.walk(fn) if isinstance(x, (ast.Assign, ast.AnnAssign)) and any(isinstance(t, ast.Name) and t.id == e.id for t in (x.targets if isinstance(x, ast.Assign) else [x.target]))]
            origin = binds[0].value if len(binds) == 1 else None
            if len(binds) > 1:
                fresh_all = all(isinstance(b.value, (ast.List, ast.ListComp)) or (isinstance(b.value, ast.Call) and chain(b.value.func) in ("list", "sorted")) for b in binds)
                if not fresh_all:
                    bad.append(f"{e.id} has several bindings, not all of them new lists")
                continue
        fresh = isinstance(origin, (ast.List, ast.ListComp)) or (isinstance(origin, ast.Call) and chain(origin.func) in ("list", "sorted"))
        if not fresh:
            bad.append(f"returns {src(e)} = {src(origin) if origin is not None else '?'}")
    report.ob("C20.R1", "AdapterCutter.match_and_trim returns a list of its own", not bad, facts={"returns": len(rets), "problems": bad[:2]}, loc=repo.loc(fn),
              expected="the returned match list is created inside the call ([] / a comprehension / list(...))",
              why=(f"{bad[0]}: a list that outlives the call is shared between the two orientation trials of --revcomp, so the matches tallied for the kept orientation are those of the other trial" if bad else ""))


def r6_range_boundaries(repo, report):
    """'i errors are allowed up to length lengths[i]' must agree with int(rate * L) for EVERY L.  The number of allowed
    errors is a step function of the float product rate * L; its steps cannot be located by a quotient i / rate (floor is
    one too small whenever the quotient is not an integer - rate 0.3 -, ceil is one too large when rounding makes an
    integer quotient slightly bigger).  Decided structurally: the boundaries are found by evaluating the product for the
    candidate lengths; a quotient form is reported; any other shape is not judged."""
    c, fn = repo.method("ErrorRanges", "_compute_lengths")
    if fn is None:
        raise Unrecognised("ErrorRanges._compute_lengths not found")
    rate, length = "self.error_rate", "self.length"

    def is_product_of(e, var):
        return isinstance(e, ast.Call) and chain(e.func) == "int" and len(e.args) == 1 and isinstance(e.args[0], ast.BinOp) and isinstance(e.args[0].op, ast.Mult) \
            and sorted([src(e.args[0].left), src(e.args[0].right)]) == sorted([rate, var])

    # the product the aligner truncates, but not the aligner's expression: rounded, nudged by an epsilon, ...
    perturbed = []
    for x in ast.walk(fn):
        if isinstance(x, ast.Call) and chain(x.func) in ("int", "round", "math.floor", "math.ceil", "floor", "ceil") and x.args:
            prods = [b for b in ast.walk(x.args[0]) if isinstance(b, ast.BinOp) and isinstance(b.op, ast.Mult) and rate in (src(b.left), src(b.right))]
            if prods and not (chain(x.func) == "int" and len(x.args) == 1 and x.args[0] is prods[0]):
                perturbed.append(src(x))
    if perturbed:
        report.ob("C20.R6", "ErrorRanges: range boundaries", False, facts={"expression": perturbed[:2]}, loc=repo.loc(fn), expected="int(error_rate * L), the aligner's own expression, for every candidate length",
                  why=f"the allowed errors are computed as {perturbed[0]}, the aligner computes int(rate * L): where the float product lies a hair below an integer (-e 1 on a 49 nt adapter: 1/49*49 = 0.9999999999999999) the table promises an error the aligner does not accept")
        return
    quotients = [src(x) for x in ast.walk(fn) if isinstance(x, ast.BinOp) and isinstance(x.op, (ast.Div, ast.FloorDiv)) and src(x.right) == rate]
    scans = []
    for lp in [x for x in ast.walk(fn) if isinstance(x, ast.For) and isinstance(x.target, ast.Name)]:
        it = lp.iter
        full = isinstance(it, ast.Call) and chain(it.func) == "range" and [src(a) for a in it.args] == ["1", f"{length} + 1"]
        tests = [t.test for t in ast.walk(lp) if isinstance(t, (ast.While, ast.If))]
        cmp_ok = [t for t in tests if isinstance(t, ast.Compare) and len(t.ops) == 1 and isinstance(t.ops[0], (ast.Gt, ast.Lt)) and (
            (is_product_of(t.left, lp.target.id) and re.fullmatch(r"len\((\w+)\)", src(t.comparators[0]))) or (is_product_of(t.comparators[0], lp.target.id) and re.fullmatch(r"len\((\w+)\)", src(t.left))))]
        if cmp_ok and not full:
            scans.append({"loop": src(it), "test": src(cmp_ok[0]), "append": [], "ok": False, "range_problem": f"{src(it)} does not cover every length 1..{length}"})
            continue
        if full and cmp_ok:
            t = cmp_ok[0]
            lst = re.fullmatch(r"len\((\w+)\)", src(t.comparators[0]) if is_product_of(t.left, lp.target.id) else src(t.left)).group(1)
            gt_ok = (is_product_of(t.left, lp.target.id) and isinstance(t.ops[0], ast.Gt)) or (is_product_of(t.comparators[0], lp.target.id) and isinstance(t.ops[0], ast.Lt))
            holder = [w for w in ast.walk(lp) if isinstance(w, ast.While) and w.test is t]
            app = [src(c_) for w in holder for c_ in ast.walk(w) if isinstance(c_, ast.Call) and chain(c_.func) == f"{lst}.append"]
            scans.append({"loop": src(it), "test": src(t), "append": app, "ok": gt_ok and app == [f"{lst}.append({lp.target.id} - 1)"]})
    if quotients and not scans:
        report.ob("C20.R6", "ErrorRanges: range boundaries", False, facts={"boundary_from": quotients[:2]}, loc=repo.loc(fn),
                  expected="boundaries located with int(error_rate * L), the aligner's own expression",
                  why=f"the last length with fewer than i errors is computed from the quotient {quotients[0]}: for rate 0.3 the table says '3-5 bp: 1' although int(0.3 * 3) = 0")
    elif scans:
        ok = len(scans) == 1 and scans[0]["ok"] and not quotients
        report.ob("C20.R6", "ErrorRanges: range boundaries", ok, facts={"scan": scans[:1], "quotients": quotients[:1]}, loc=repo.loc(fn),
                  expected="for L in range(1, length + 1): while int(error_rate * L) > len(lengths): lengths.append(L - 1)",
                  why="" if ok else (scans[0].get("range_problem", "") + ": an increase of the allowed errors exactly at the full adapter length is not shown (10 nt at -e 0.1: '1-10 bp: 0' although one error is accepted at 10 bp)" if scans[0].get("range_problem") else "the scan over the lengths does not record L - 1 as the last length of the previous error count (or a quotient is mixed in)"))
    else:
        report.unrecognised("C20.R6", "ErrorRanges: range boundaries", "neither a scan over the lengths with int(error_rate * L) nor a quotient form", repo.loc(fn))
    # the adapter length closes the table
    tail = [x for x in ast.walk(fn) if isinstance(x, ast.Call) and isinstance(x.func, ast.Attribute) and x.func.attr == "append" and [src(a) for a in x.args] == [length]]
    report.ob("C20.R6", "ErrorRanges: the adapter length closes the table", len(tail) == 1, facts={"appends_length": len(tail)}, expected="lengths.append(self.length) unless the last boundary is the length itself", loc=repo.loc(fn))


def r2_distinct_tallies(repo, report):
    """The 5' and the 3' tally of a statistics object are two objects: one EndStatistics bound to both names (a chained
    assignment, or one attribute assigned from the other) makes every match count on both sides."""
    n = 0
    for cls in [repo.cls("EndStatistics")] + list(repo.subclasses("AdapterStatistics")) + [repo.cls("Statistics"), repo.cls("ReadLengthStatistics")]:
        if cls is None or "__init__" not in cls.methods:
            continue
        init = cls.methods["__init__"]
        n += 1
        shared = []
        for st in ast.walk(init):
            if isinstance(st, ast.Assign):
                selfs = [chain(t) for t in st.targets if (chain(t) or "").startswith("self.")]
                if len(selfs) > 1 and not isinstance(st.value, ast.Constant):
                    shared.append(f"{' = '.join(selfs)} = {src(st.value)[:40]}")
                if len(selfs) == 1 and (chain(st.value) or "").startswith("self.") and chain(st.value) != selfs[0]:
                    # one attribute assigned from another: shared unless the other is a plain number/string parameter copy
                    other = chain(st.value)
                    made = [x for x in ast.walk(init) if isinstance(x, ast.Assign) and any(chain(t) == other for t in x.targets) and isinstance(x.value, (ast.Call, ast.List, ast.Dict, ast.Set, ast.ListComp, ast.DictComp))]
                    if made:
                        shared.append(f"{selfs[0]} = {other}")
        report.ob("C20.R2", f"{cls.name}: every tally attribute has an object of its own", not shared, facts={"shared": shared}, loc=repo.loc(init), expected="one construction per attribute",
                  why=(f"{shared[0]}: both names refer to ONE object, so every match is tallied on both (the 5' and the 3' histogram of a -b adapter each show the sum of the two)" if shared else ""))
    report.floor("C20.R2", "statistics classes", n, 6)


def r3_no_early_exit(repo, report):
    """_collect_modifier walks over the (slot, modifier) entries of a paired wrapper: R1's modifier, then R2's.  Leaving the
    walk early (break / return inside it) drops R2's tallies whenever the condition holds for R1 - e.g. when only -A/-Q
    options were given and R1's modifier is None.  Skipping ONE entry (continue) is fine."""
    c, fn = repo.need_method("Statistics", "_collect_modifier")
    loops = [n for n in ast.walk(fn) if isinstance(n, ast.For) and isinstance(n.target, ast.Tuple) and len(n.target.elts) == 2]
    if not loops:
        raise Unrecognised("Statistics._collect_modifier: the loop over (slot, modifier) entries not found", repo.loc(fn))
    bad = []

    def scan(stmts):
        for st in stmts:
            if isinstance(st, (ast.Break, ast.Return)):
                bad.append(f"{type(st).__name__.lower()} at line {st.lineno}")
            elif isinstance(st, ast.If):
                scan(st.body); scan(st.orelse)
            elif isinstance(st, (ast.With, ast.Try)):
                scan(st.body)
    for lp in loops:
        scan(lp.body)
    report.ob("C20.R3", "Statistics._collect_modifier visits the modifier of each mate", not bad, facts={"loops": len(loops), "early_exits": bad}, loc=repo.loc(loops[0]),
              expected="no break/return inside the loop over (slot, modifier)",
              why=(f"{bad[0]}: when it fires for the first mate's entry, the second mate's modifier is never looked at and its with-adapter / quality-trimmed / per-adapter figures stay empty although R2 was trimmed" if bad else ""))


def r2_text_rendering(repo, report):
    """The text report prints what was tallied: every entry of a histogram row's error counts (a match with a deletion can
    have more errors than the 'max.err' of its removed length, which is computed from the read side), and the percentages of
    the adjacent bases are taken over ALL tallied matches, the 'none/other' bucket included."""
    fn = repo.func("report", "histogram")
    if fn is None:
        raise Unrecognised("report.histogram not found")
    loops = [n for n in ast.walk(fn) if isinstance(n, ast.For) and isinstance(n.iter, ast.Call) and chain(n.iter.func) == "histogram_rows"]
    if len(loops) != 1 or not isinstance(loops[0].target, ast.Name):
        raise Unrecognised("report.histogram: loop over histogram_rows(...) not found", repo.loc(fn))
    row = loops[0].target.id
    from ..repo import expand
    uses = [x for x in ast.walk(loops[0]) if isinstance(x, ast.Attribute) and x.attr == "error_counts" and chain(x.value) == row]
    sliced = [src(getattr(u, "_parent", u))[:60] for u in uses if isinstance(getattr(u, "_parent", None), ast.Subscript)]
    joined = [x for x in ast.walk(loops[0]) if isinstance(x, ast.GeneratorExp) and any(isinstance(y, ast.Attribute) and y.attr == "error_counts" for y in ast.walk(expand(fn, x.generators[0].iter)))]
    ok = bool(uses) and not sliced and all(not isinstance(expand(fn, g.generators[0].iter), ast.Subscript) and not g.generators[0].ifs for g in joined)
    report.ob("C20.R2", "text histogram prints every error count of a row", ok, facts={"uses": len(uses), "sliced_or_filtered": sliced}, loc=repo.loc(loops[0]),
              expected=f"' '.join(str(e) for e in {row}.error_counts) - all of them",
              why="" if ok else "the error counts of a row are cut or filtered before printing: matches whose error count exceeds max.err of their length (deletions) disappear and the printed counts no longer add up to 'count'")
    c, ai = repo.need_method("AdjacentBaseStatistics", "__init__")
    tot = [n for n in ast.walk(ai) if isinstance(n, ast.Assign) and len(n.targets) == 1 and isinstance(n.targets[0], ast.Name) and isinstance(n.value, ast.Call) and chain(n.value.func) == "sum"]
    ok2 = len(tot) == 1 and len(tot[0].value.args) == 1 and src(tot[0].value.args[0]) in ("self.bases.values()", f"{params(ai)[1]}.values()")
    report.ob("C20.R2", "adjacent-base percentages are taken over all tallied matches", ok2, facts={"total": src(tot[0].value) if tot else None}, loc=repo.loc(ai),
              expected="total = sum(self.bases.values())  (A, C, G, T and the none/other bucket)",
              why="" if ok2 else "the denominator leaves out part of the tally (e.g. matches at read position 0 or after an N): the percentages do not add up to 100%, or the section disappears although matches were tallied")
