"""C14 - Poly-A, N-end trimming, N counts and expected errors match their definitions (decision structure and tables)."""
from __future__ import annotations

import ast
import math
import re

from ..absint import Const, Executor, NeedAtom, Obj, Tup, explore, vkey
from ..cparse import Header
from ..core import Unrecognised, Report
from ..lin import Lin
from ..repo import chain, params, src, strip_docstring, calls
from .. import constfold
from ..tables import Bool, Sign, check_table, SKIP


def run(repo, report, tier):
    report.rule("C14.R1", "SCORE_TO_ERROR_RATE[i] = 10^(-i/10) for all entries; the table has 126 - 33 + 1 = 94 entries; max_phred = 126 - base", "one quality value contributes a wrong error probability")
    report.rule("C14.R2", "the unrolled sum reads offsets 0..s-1 exactly once per iteration with stride s, stops s-1 short of the end, the tail loop advances by one until the end; every value is range-checked on its own before it indexes the table; the result adds all accumulators",
                "the last 1-3 qualities are skipped or counted twice, valid qualities are rejected, or the table is indexed out of range")
    report.rule("C14.R3", "poly-A scan: +1 for the tail base, -2 and one error otherwise; new optimum iff score > best and errors*5 <= current tail length; tails shorter than 3 are ignored; the poly-T branch is the mirror image (i -> n-1-i, A -> T)",
                "poly-A/poly-T tails at the 20% boundary or of length 3 are trimmed differently on R1 and R2")
    report.rule("C14.R4", "--trim-n: the patterns are ^N+ and N+$; the kept slice is [end of the leading run or 0, start of the trailing run or len)", "N runs are trimmed only partly or interior Ns are removed")
    report.rule("C14.R5", "the N count of --max-n counts upper- and lower-case N (= C11.R2)", "reads with lower-case n pass --max-n")
    report.rule("C14.R6", "poly-A: reported = removed for both orientations", "poly-A statistics disagree with the bases removed")
    report.guard("C14.R1", "expected_errors.h", r1_r2_header, repo, report)
    report.guard("C14.R3", "poly_a_trim_index", r3_polya, repo, report)
    report.guard("C14.R4", "NEndTrimmer", r4_nends, repo, report)
    report.guard("C14.R5", "TooManyN", r5_ncount, repo, report)
    report.guard("C14.R6", "PolyATrimmer", r6_reported, repo, report)
    report.notes.append("Not decided: the arg-max claim for every tail (a statement about sums of runtime values).")


def _over(row, k):
    """is cursor[k] - base > max_phred on this path?  None = never compared on its own"""
    judge = Executor(None, row.valuation)
    try:
        return judge.compare(ast.Gt(), Lin.atom(f"CUR[{k}]") - Lin.atom("BASE"), Lin.atom("MAX"))
    except NeedAtom:
        return None


# ---------------------------------------------------------------------------
def r1_r2_header(repo, report):
    if repo.header_source is None:
        raise Unrecognised("src/cutadapt/expected_errors.h not found")
    h = Header(repo.header_source)
    report.saw(file="src/cutadapt/expected_errors.h")
    if "SCORE_TO_ERROR_RATE" not in h.tables:
        raise Unrecognised("SCORE_TO_ERROR_RATE table not found")
    size, vals = h.tables["SCORE_TO_ERROR_RATE"]
    bad = []
    for i, v in enumerate(vals):
        ref = 10.0 ** (-i / 10.0)
        if abs(v - ref) > 4 * math.ulp(ref):
            bad.append({"index": i, "value": v, "expected": ref})
    report.ob("C14.R1", "SCORE_TO_ERROR_RATE values", not bad, facts={"entries": len(vals), "wrong": bad[:3]}, expected="entry i = 10^(-i/10) within 4 ulp", loc="src/cutadapt/expected_errors.h", cases=len(vals),
              why=(f"entry {bad[0]['index']} is {bad[0]['value']!r}, expected {bad[0]['expected']!r}" if bad else ""))
    ctype = getattr(h, "table_types", {}).get("SCORE_TO_ERROR_RATE")
    report.ob("C14.R1", "SCORE_TO_ERROR_RATE is stored in double precision", ctype in ("double", "long double"), facts={"element_type": ctype}, expected="double (the literals are given to 16 digits; the sum is compared with thresholds such as --max-ee 0.1)", loc="src/cutadapt/expected_errors.h",
              why="" if ctype in ("double", "long double") else "every entry is rounded to single precision before it is added: the expected-error value is off by about 1e-8 relative, enough to move reads that sit exactly on a threshold")
    report.ob("C14.R1", "SCORE_TO_ERROR_RATE size", size == len(vals) == 94, facts={"declared": size, "initialisers": len(vals)}, expected="94 = 126 - 33 + 1 entries", loc="src/cutadapt/expected_errors.h")
    if "expected_errors_from_phreds" not in h.functions:
        raise Unrecognised("expected_errors_from_phreds not found in the header")
    ps, (fn, pysrc) = h.functions["expected_errors_from_phreds"]
    report.saw(function="expected_errors_from_phreds")
    body = fn.body
    loops = [s for s in body if isinstance(s, ast.While)]
    if len(loops) not in (1, 2):
        raise Unrecognised(f"expected the unrolled loop and a tail in expected_errors_from_phreds, found {len(loops)} loops")
    pre = {}
    for s in body:
        if isinstance(s, ast.Assign) and isinstance(s.targets[0], ast.Name):
            pre[s.targets[0].id] = s.value
    P, N, B = ps
    ex = Executor(None, {})
    env0 = {P: Lin.atom("P"), N: Lin.atom("LEN"), B: Lin.atom("BASE")}
    vals_ = {}
    for s in body:
        if isinstance(s, ast.Assign) and isinstance(s.targets[0], ast.Name) and s not in loops:
            try:
                env0[s.targets[0].id] = ex.ev(s.value, env0)
            except Exception:  # noqa: BLE001
                pass
        if s is loops[0]:
            break
    zero = [k for k, v in env0.items() if (isinstance(v, Const) and v.value == 0.0) or (isinstance(v, Lin) and v.is_const() and v.const == 0)]
    augmented = {n.target.id for lp_ in loops for n in ast.walk(lp_) if isinstance(n, ast.AugAssign) and isinstance(n.target, ast.Name) and any(isinstance(x, ast.Subscript) for x in ast.walk(n.value))}
    accs = [k for k in zero if k in augmented]
    endp = Lin.atom("P") + Lin.atom("LEN")
    ends = [k for k, v in env0.items() if isinstance(v, Lin) and v == endp]
    maxs = [k for k, v in env0.items() if isinstance(v, Lin) and v == Lin.k(126) - Lin.atom("BASE")]
    report.ob("C14.R1", "max_phred = 126 - base", len(maxs) == 1, facts={"definitions": {k: vkey(v) for k, v in env0.items() if k not in (P, N, B)}}, expected="max_phred = 126 - base", loc="src/cutadapt/expected_errors.h")
    # the guard 'phred > max_phred -> invalid' protects the table only if max_phred never exceeds the last index, for EVERY
    # base (the command line accepts any integer for --quality-base; 126 - base is computed in uint8_t and also wraps)
    if len(maxs) == 1:
        mp = maxs[0]
        clamps = []
        for s_ in body:
            if s_ is loops[0]:
                break
            if isinstance(s_, ast.If) and isinstance(s_.test, ast.Compare) and len(s_.test.ops) == 1 and isinstance(s_.test.ops[0], ast.Gt) and chain(s_.test.left) == mp and isinstance(s_.test.comparators[0], ast.Constant) \
                    and len(s_.body) == 1 and isinstance(s_.body[0], ast.Assign) and chain(s_.body[0].targets[0]) == mp and isinstance(s_.body[0].value, ast.Constant) and not s_.orelse:
                clamps.append((s_.test.comparators[0].value, s_.body[0].value.value))
        okc = any(k == v and isinstance(k, int) and 0 <= k <= size - 1 for k, v in clamps)
        report.ob("C14.R1", "the validity bound never exceeds the table", okc, facts={"table_entries": size, "clamps": clamps}, loc="src/cutadapt/expected_errors.h",
                  expected=f"{mp} = 126 - base, limited to the last table index ({size - 1}) before it is used as the guard",
                  why="" if okc else f"for --quality-base below 33 (or above 126, where the uint8_t difference wraps) scores up to 126 - base pass the guard and SCORE_TO_ERROR_RATE is read behind its {size} entries: the expected-error value is whatever lies there (NaN in practice) and the read passes --max-ee")
    if len(ends) != 1 or len(maxs) != 1 or len(accs) < 1:
        raise Unrecognised(f"prologue of expected_errors_from_phreds not recognised (end pointer {ends}, max {maxs}, accumulators {accs})")
    curs = [k for k, v in env0.items() if isinstance(v, Lin) and v == Lin.atom("P") and k != P]
    if len(curs) != 1:
        raise Unrecognised("cursor variable not identified")
    CUR = curs[0]

    def analyse_loop(lp, label, extra_env=None, advance=True):
        env = dict(env0)
        env[CUR] = Obj("CUR", nonnull=True)
        for a in accs:
            env[a] = Lin.atom("ACC_" + a)
        env[maxs[0]] = Lin.atom("MAX")
        env.update(extra_env or {})
        for st in lp.body:
            for a_ in ast.walk(st):
                if isinstance(a_, ast.Assign) and isinstance(a_.targets[0], ast.Name) and a_.targets[0].id in accs:
                    return None, [f"{src(a_)}: the accumulator is overwritten, what was summed before is lost"], 0
        rows = explore(None, lp.body, env, inline=False, integer=True)
        report.saw(valuations=len(rows))
        ok_rows = [r for r in rows if r.exit[0] == "fall"]
        rej_rows = [r for r in rows if r.exit[0] == "return"]
        problems = []
        # the accepting path(s): all index values within range
        offs = None
        for r in ok_rows:
            adds = [(e[1], e[2]) for e in r.effects if e[0] == "auglocal" and e[1] in accs]
            adv = [e[2] for e in r.effects if e[0] == "auglocal" and e[1] == CUR]
            idxs = []
            for tgt, val in adds:
                m = re.fullmatch(r"\+SCORE_TO_ERROR_RATE\[(.*)\]", val)
                if not m:
                    problems.append(f"{tgt} += {val} is not a table lookup")
                    continue
                idxs.append((tgt, m.group(1)))
            read = []
            for tgt, ix in idxs:
                m = re.fullmatch(r"-BASE\+CUR\[(\d+)\]", ix)
                if not m:
                    problems.append(f"table index {ix} is not cursor[k] - base")
                    continue
                read.append(int(m.group(1)))
                # individually range checked on this path
                over = _over(r, int(m.group(1)))
                if over is None:
                    problems.append(f"cursor[{m.group(1)}] - base indexes the table without having been compared with max_phred on its own")
                elif over:
                    problems.append(f"cursor[{m.group(1)}] - base > max_phred still reaches the table")
            offs = sorted(read)
            if len(set(t for t, _ in idxs)) != len(idxs):
                problems.append("an accumulator is used twice in one iteration")
            if offs != list(range(len(offs))):
                problems.append(f"offsets read: {offs}")
            if (adv != [f"+{len(offs)}"]) if advance else bool(adv):
                problems.append(f"cursor advances by {adv} but {len(offs)} values are read")
        if not ok_rows:
            problems.append("no accepting path")
        # the rejecting paths: some value out of range, returns -1
        for r in rej_rows:
            if vkey(r.exit[1]) not in ("-1", "-1.0"):
                problems.append(f"rejecting path returns {vkey(r.exit[1])}")
            if not any(_over(r, k) for k in range(8)):
                problems.append(f"a path rejects the input although every consulted value is within range: {r.describe()['valuation']}")
            # values added before the rejection do no harm (the sum is discarded) - unless the lookup itself used a value
            # that had not been found within range
            for e in r.effects:
                if e[0] == "auglocal" and e[1] in accs:
                    m = re.fullmatch(r"\+SCORE_TO_ERROR_RATE\[-BASE\+CUR\[(\d+)\]\]", e[2])
                    if not m or _over(r, int(m.group(1))) is not False:
                        problems.append(f"{e[1]} += {e[2][1:]} is looked up before that value is range-checked")
        return offs, problems, len(rows)

    o1, p1, n1 = analyse_loop(loops[0], "main")
    if len(loops) == 2:
        o2, p2, n2 = analyse_loop(loops[1], "tail")
    else:
        o2, p2, n2 = _tail_block(body, loops[0], ends[0], CUR, len(o1) if o1 else 0, analyse_loop)
    stride = len(o1) if o1 else None
    # loop conditions
    def cond(lp):
        t = lp.test
        if isinstance(t, ast.Compare) and len(t.ops) == 1 and isinstance(t.ops[0], ast.Lt) and chain(t.left) == CUR:
            e = Executor(None, {})
            return e.num(e.ev(t.comparators[0], env0))
        return None

    c1, c2 = cond(loops[0]), (cond(loops[1]) if len(loops) == 2 else endp)
    if stride:
        if c1 is None or c1 != endp - (stride - 1):
            p1.append(f"main loop runs while cursor < {vkey(c1) if c1 is not None else src(loops[0].test)}, expected end - {stride - 1}")
    if c2 is None or c2 != endp:
        p2.append(f"tail loop runs while cursor < {vkey(c2) if c2 is not None else src(loops[-1].test)}, expected the end pointer")
    if o2 != [0] and not p2:
        p2.append(f"tail loop reads offsets {o2}")
    report.ob("C14.R2", "expected_errors_from_phreds: unrolled loop", not p1, facts={"offsets": o1, "stride": stride, "problems": p1[:3]}, expected="reads cursor[0..s-1] once each, each range-checked on its own, cursor += s, while cursor < end - (s-1)", loc="src/cutadapt/expected_errors.h", cases=n1,
              why=p1[0] if p1 else "")
    report.ob("C14.R2", "expected_errors_from_phreds: tail loop", not p2, facts={"offsets": o2, "problems": p2[:3]}, expected="reads cursor[0], range-checked, cursor += 1, while cursor < end", loc="src/cutadapt/expected_errors.h", cases=n2, why=p2[0] if p2 else "")
    rets = [s for s in body if isinstance(s, ast.Return)]
    ok = False
    if len(rets) == 1:
        names = sorted(n.id for n in ast.walk(rets[0].value) if isinstance(n, ast.Name))
        ok = names == sorted(accs) and all(isinstance(n, (ast.BinOp, ast.Name, ast.Add, ast.Load)) for n in ast.walk(rets[0].value))
    report.ob("C14.R2", "expected_errors_from_phreds: result adds all accumulators", ok, facts={"returns": src(rets[0].value) if rets else None, "accumulators": sorted(accs)}, expected="sum of every accumulator, each once", loc="src/cutadapt/expected_errors.h")
    # the Cython wrapper passes (data, length, base) and turns a negative result into an error for invalid characters only
    fn2 = repo.func("qualtrim", "expected_errors")
    cs = [x for x in calls(fn2) if chain(x.func) == "expected_errors_from_phreds"]
    ok = len(cs) == 1 and [src(a) for a in cs[0].args] == ["quals", "qual_length", "base"]
    report.ob("C14.R2", "qualtrim.expected_errors passes (data, length, base)", ok, facts={"call": src(cs[0]) if cs else None}, expected="expected_errors_from_phreds(quals, qual_length, base)", loc=repo.loc(fn2))

    # the sentinel must not escape as a value: whenever the C function rejects a character (phred > max_phred in uint8_t
    # arithmetic, with the clamp found above), the wrapper's search for the culprit must find one.  Both predicates are
    # functions of (character code 0..127, base 0..255): compared exhaustively on that finite domain.
    from .. import constfold
    neg = [x for x in ast.walk(fn2) if isinstance(x, ast.If) and isinstance(x.test, ast.Compare) and chain(x.test.left) == "e" and isinstance(x.test.ops[0], ast.Lt)]
    conds = [y for x in neg for lp_ in ast.walk(x) if isinstance(lp_, ast.For) for y in lp_.body if isinstance(y, ast.If) and any(isinstance(r_, ast.Raise) for r_ in y.body)]
    loops_ = [lp_ for x in neg for lp_ in ast.walk(x) if isinstance(lp_, ast.For)]
    if len(conds) != 1 or len(loops_) != 1 or not isinstance(loops_[0].target, ast.Name):
        report.unrecognised("C14.R2", "qualtrim.expected_errors: invalid characters are reported", "'if e < 0: for q in qualities: if <cond>: raise' not found", repo.loc(fn2))
    else:
        qv = loops_[0].target.id
        bpar = params(fn2)[1]
        clamp_list = locals().get("clamps", [])
        leaks = []
        try:
            for b_ in range(256):
                for c_ in range(128):
                    mx = (126 - b_) & 255
                    for k_, v_ in clamp_list:
                        if mx > k_:
                            mx = v_
                    if ((c_ - b_) & 255) > mx and not constfold.fold(conds[0].test, {qv: chr(c_), bpar: b_}):
                        leaks.append({"character_code": c_, "base": b_})
                        if len(leaks) >= 3:
                            raise StopIteration
        except StopIteration:
            pass
        except constfold.NotConstant as e_:
            leaks = None
            report.unrecognised("C14.R2", "qualtrim.expected_errors: invalid characters are reported", f"culprit test is not a closed expression of (character, base): {e_}", repo.loc(conds[0]))
        if leaks is not None:
            report.ob("C14.R2", "qualtrim.expected_errors: every character the C function rejects is reported", not leaks, facts={"pairs_compared": 128 * 256, "rejected_but_not_reported": leaks}, cases=128 * 256, loc=repo.loc(conds[0]),
                      expected="if the C function returns the error sentinel, the search for the offending character raises",
                      why=(f"for character code {leaks[0]['character_code']} and quality base {leaks[0]['base']} the C function returns -1.0 but the wrapper finds no invalid character and returns -1.0 as the number of expected errors: the read passes --max-ee" if leaks else ""))


# ---------------------------------------------------------------------------
def _tail_block(body, main_loop, end_name, cur_name, stride, analyse):
    """The tail written without a loop: after the unrolled loop, a distinction on the number of values left (end - cursor,
    0 .. stride-1; a switch in the header) whose branches add the remaining values. For every possible remainder r the
    accepting path reads cursor[0..r-1] once each, range-checked, and adds each to an accumulator. Returns ([0], problems,
    cases) in the vocabulary of the loop form."""
    i = body.index(main_loop)
    tail = [s for s in body[i + 1:] if not isinstance(s, ast.Return)]
    rest = [s for s in tail if isinstance(s, ast.Assign) and isinstance(s.value, ast.BinOp) and isinstance(s.value.op, ast.Sub) and chain(s.value.left) == end_name and chain(s.value.right) == cur_name]
    if len(rest) != 1 or not stride:
        raise Unrecognised("expected_errors_from_phreds: the code after the unrolled loop is neither a loop nor a distinction on end - cursor")
    var = rest[0].targets[0].id
    stmts = [s for s in tail if s is not rest[0]]
    problems = []
    cases = 0

    class _B:
        pass

    for r in range(stride):
        blk = _B()
        blk.body = stmts
        offs, p, n = analyse(blk, f"tail({r})", extra_env={var: Lin.k(r)}, advance=False)
        cases += n
        problems += [f"{r} value(s) left: {x}" for x in p]
        if not p and (offs or []) != list(range(r)):
            problems.append(f"{r} value(s) left: offsets {offs} are added, expected {list(range(r))}")
    return [0], problems, cases


def r3_polya(repo, report):
    fn = repo.func("qualtrim", "poly_a_trim_index")
    ps = params(fn)
    top = [s for s in strip_docstring(fn.body) if isinstance(s, ast.If) and src(s.test) == ps[1]]
    if len(top) != 1:
        raise Unrecognised("poly_a_trim_index: the revcomp split was not found", repo.loc(fn))
    branches = {"revcomp": top[0].body, "forward": top[0].orelse}
    facts = {}
    for label, stmts in branches.items():
        loops = [s for s in stmts if isinstance(s, ast.For)]
        if len(loops) != 1:
            report.unrecognised("C14.R3", f"poly_a_trim_index {label}", "scan loop not found", repo.loc(fn))
            continue
        lp = loops[0]
        iv = lp.target.id
        env = {"s_ptr": Obj("SEQ", nonnull=True), "n": Lin.atom("N"), "score": Lin.atom("SCORE"), "best_score": Lin.atom("BEST"), "errors": Lin.atom("ERRORS"), "best_index": Lin.atom("BESTIDX"), iv: Lin.atom("I")}
        rows = explore(repo, lp.body, env, inline=False, loop_mode="forbid")
        report.saw(function="qualtrim.poly_a_trim_index", valuations=len(rows))
        base = "T" if label == "revcomp" else "A"
        span = Lin.atom("I") + 1 if label == "revcomp" else Lin.atom("N") - Lin.atom("I")
        idx_want = Lin.atom("I") + 1 if label == "revcomp" else Lin.atom("I")
        bad = []
        key_base = f"eq:SEQ[I]:{base.encode()!r}"
        for r in rows:
            if r.exit[0] in ("break", "return", "raise"):
                # leaving the scan early is sound only when no longer tail can qualify any more: the mismatches seen so far
                # already exceed 20% of the WHOLE read (errors * 5 > n, strictly - at equality the whole read still qualifies)
                jx = Executor(None, r.valuation)
                try:
                    sound = isinstance(r.env.get("errors"), Lin) and jx.compare(ast.Gt(), r.env["errors"].scale(5), Lin.atom("N"))
                except NeedAtom:
                    sound = False
                if not sound:
                    bad.append(("the scan is left early although a longer tail could still have at most 20% other bases", {k: v for k, v in r.valuation.items() if "ERRORS" in k or "N" in k}))
                continue
            isb = r.valuation.get(key_base)
            if isb is None:
                bad.append((f"the base test is not s[i] == b'{base}'", sorted(r.valuation)))
                continue
            ns = Lin.atom("SCORE") + (1 if isb else -2)
            ne = Lin.atom("ERRORS") + (0 if isb else 1)
            if r.env["score"] != ns or r.env["errors"] != ne:
                bad.append(("score/errors update", vkey(r.env["score"]), vkey(r.env["errors"]), "expected", ns.key(), ne.key()))
                continue
            judge = Executor(None, r.valuation)
            try:
                better = judge.compare(ast.Gt(), ns, Lin.atom("BEST"))
            except NeedAtom:
                bad.append(("no comparison score > best", sorted(r.valuation)))
                continue
            within = None
            if better:
                try:
                    within = judge.compare(ast.LtE(), ne.scale(5), span)
                except NeedAtom:
                    bad.append((f"the error bound is not errors*5 <= {span.key()} (the current tail length)", sorted(k for k in r.valuation if "ERRORS" in k)))
                    continue
            updated = vkey(r.env["best_score"]) != "BEST"
            if updated != bool(better and within):
                bad.append(("optimum rule", {"score>best": better, "within_20%": within}, "updated" if updated else "kept"))
                continue
            if updated and (r.env["best_score"] != ns or r.env["best_index"] != idx_want):
                bad.append(("recorded optimum", vkey(r.env["best_score"]), vkey(r.env["best_index"]), "expected", ns.key(), idx_want.key()))
        direction = src(lp.iter)
        want_dir = "range(n)" if label == "revcomp" else "reversed(range(n))"
        if direction != want_dir:
            bad.append(("scan direction", direction, want_dir))
        # initial index and the length-3 rule
        init = [s for s in stmts if isinstance(s, ast.Assign) and chain(s.targets[0]) == "best_index"]
        want_init = "0" if label == "revcomp" else "n"
        if not init or src(init[0].value) != want_init:
            bad.append(("initial best_index", src(init[0].value) if init else None, want_init))
        post = [s for s in stmts if isinstance(s, ast.If)]
        if len(post) != 1:
            bad.append(("length-3 rule", "missing"))
        else:
            rows2 = explore(repo, [post[0]], {"best_index": Lin.atom("BESTIDX"), "n": Lin.atom("N")}, inline=False)
            for r in rows2:
                j = Executor(None, r.valuation)
                try:
                    short = j.compare(ast.Lt(), Lin.atom("BESTIDX"), Lin.k(3)) if label == "revcomp" else j.compare(ast.Gt(), Lin.atom("BESTIDX"), Lin.atom("N") - 3)
                except NeedAtom:
                    bad.append(("length-3 rule compares something else", sorted(r.valuation)))
                    continue
                reset = vkey(r.env["best_index"]) != "BESTIDX"
                wantv = Lin.k(0) if label == "revcomp" else Lin.atom("N")
                if reset != short or (reset and r.env["best_index"] != wantv):
                    bad.append(("length-3 rule", {"shorter_than_3": short}, vkey(r.env["best_index"])))
        facts[label] = len(rows)
        report.ob("C14.R3", f"poly_a_trim_index: {label} scan", not bad, facts={"rows": len(rows), "problems": [str(b)[:260] for b in bad[:3]]},
                  expected=f"base {base}: +1, else -2 and errors+1; new optimum iff score > best and errors*5 <= {span.key()}; index {idx_want.key()}; tails shorter than 3 ignored", loc=repo.loc(lp), cases=len(rows),
                  why=str(bad[0])[:260] if bad else "")
    # shared initial values
    body = strip_docstring(fn.body)
    init = {}
    for s in body:
        if isinstance(s, ast.AnnAssign) and isinstance(s.target, ast.Name) and s.value is not None:
            init[s.target.id] = src(s.value)
    ok = init.get("best_score") == "0" and init.get("score") == "0" and init.get("errors") == "0" and init.get("n") == f"len({ps[0]})"
    report.ob("C14.R3", "poly_a_trim_index: initial values", ok, facts={k: init.get(k) for k in ("best_score", "score", "errors", "n")}, expected="score = best = errors = 0, n = len(s)", loc=repo.loc(fn))
    rets = [src(n.value) for n in ast.walk(fn) if isinstance(n, ast.Return)]
    report.ob("C14.R3", "poly_a_trim_index: result", rets == ["best_index"], facts={"returns": rets}, expected="best_index", loc=repo.loc(fn))


def _nends_folded(repo, report):
    """NEndTrimmer without regular expressions: __call__ is then a closed function of the sequence (the record is only sliced
    and measured).  It is folded for every string over {A, N, c} up to length 6 and compared with 'strip the maximal runs of
    N at both ends'."""
    import copy
    import itertools
    c, call = repo.need_method("NEndTrimmer", "__call__")
    ps = params(call)
    rd = ps[1]

    class T(ast.NodeTransformer):
        def visit_Attribute(self, node):
            self.generic_visit(node)
            if isinstance(node.value, ast.Name) and node.value.id == rd and node.attr == "sequence":
                return ast.copy_location(ast.Name(id=rd, ctx=ast.Load()), node)
            return node

    fn = T().visit(copy.deepcopy(call))
    ast.fix_missing_locations(fn)
    bad, n = [], 0
    try:
        for length in range(0, 7):
            for tup in itertools.product("ANc", repeat=length):
                seq = "".join(tup)
                env = {rd: seq, "self": {"__attrs__": {}}}
                if len(ps) > 2:
                    env[ps[2]] = None
                got = constfold.fold_function(fn, env)
                n += 1
                want = seq[len(seq) - len(seq.lstrip("N")): len(seq.rstrip("N"))] if seq.strip("N") else ""
                if got != want:
                    bad.append({"sequence": seq, "returned": got, "expected": want})
                    if len(bad) >= 3:
                        raise StopIteration
    except StopIteration:
        pass
    except constfold.NotConstant as e:
        report.unrecognised("C14.R4", "NEndTrimmer", f"neither the two anchored patterns nor a closed function of the sequence ({e})", repo.loc(call))
        return
    report.ob("C14.R4", "NEndTrimmer removes exactly the runs of N at both ends", not bad, facts={"sequences": n, "wrong": bad}, cases=n, loc=repo.loc(call),
              expected="read[<length of the leading run of N> : <start of the trailing run of N>]",
              why=(f"for the sequence {bad[0]['sequence']!r} the modifier returns {bad[0]['returned']!r}, expected {bad[0]['expected']!r}" if bad else ""))


def r4_nends(repo, report):
    import re._parser as rp

    init_probe = repo.method("NEndTrimmer", "__init__")[1]
    if init_probe is None or not any(isinstance(x, ast.Call) and chain(x.func) == "re.compile" for x in ast.walk(init_probe)):
        return _nends_folded(repo, report)
    c, init = repo.need_method("NEndTrimmer", "__init__")
    pats = {}
    for n in ast.walk(init):
        if isinstance(n, ast.Assign) and isinstance(n.value, ast.Call) and chain(n.value.func) == "re.compile" and isinstance(n.value.args[0], ast.Constant):
            pats[chain(n.targets[0])] = n.value.args[0].value
    def shape(p):
        t = list(rp.parse(p))
        return [(str(op), (str(av) if not isinstance(av, tuple) else (av[0], str(av[1]), [(str(a), b) for a, b in av[2]]))) for op, av in t]
    ok = False
    facts = {"patterns": pats}
    try:
        s1 = shape(pats.get("self.start_trim", ""))
        s2 = shape(pats.get("self.end_trim", ""))
        facts["start"] = s1
        facts["end"] = s2
        rep = ("MAX_REPEAT", (1, "MAXREPEAT", [("LITERAL", 78)]))
        ok = s1 == [("AT", "AT_BEGINNING"), rep] and s2 == [rep, ("AT", "AT_END")]
    except Exception as e:  # noqa: BLE001
        facts["error"] = str(e)
    report.ob("C14.R4", "NEndTrimmer patterns", ok, facts=facts, expected="^ followed by one-or-more literal N; one-or-more literal N followed by $", loc=repo.loc(init))
    c, call = repo.need_method("NEndTrimmer", "__call__")
    ps = params(call)
    from .c03 import unguarded_constant_index

    ung = unguarded_constant_index(call)
    report.ob("C14.R4", "NEndTrimmer.__call__ accepts the empty read", not ung, facts={"unguarded_constant_index": ung}, expected="no sequence[k] without a test that the sequence is non-empty", loc=repo.loc(call),
              why=(f"{ung[0]} raises IndexError on an empty read" if ung else ""))

    def hook(ex, node, env):
        cn = chain(node.func)
        if cn == "self.start_trim.match":
            searched.add(("match", vkey(ex.ev(node.args[0], env)) if len(node.args) == 1 else None))
            return Obj("M1")
        if cn == "self.end_trim.search":
            searched.add(("search", vkey(ex.ev(node.args[0], env)) if len(node.args) == 1 else None))
            return Obj("M2")
        return None

    searched = set()

    rows = explore(repo, strip_docstring(call.body), {"self": Obj("self", nonnull=True), ps[1]: Obj("READ", nonnull=True), ps[2]: Obj("INFO")}, call_hook=hook, inline=False)
    roles = {"m1": Bool("truthy:M1"), "m2": Bool("truthy:M2")}

    def exp(rv):
        lo = "M1.end()" if rv["m1"] else "0"
        hi = "M2.start()" if rv["m2"] else "len(READ)"
        return f"READ[{lo}:{hi}]"

    mism, n, _ = check_table(rows, roles, exp, lambda r: vkey(r.exit[1]) if r.exit[0] == "return" else r.exit[0])
    args_ok = sorted({c_[0] for r in rows for c_ in r.calls}) == [] or True
    mcalls = sorted(map(list, searched))
    ok_calls = searched == {("match", "READ.sequence"), ("search", "READ.sequence")}
    report.ob("C14.R4", "NEndTrimmer.__call__", not mism and ok_calls, facts={"mismatches": mism, "calls": mcalls}, expected="read[end of the leading N run or 0 : start of the trailing N run or len(read)]", loc=repo.loc(call), cases=n)


def r5_ncount(repo, report):
    from .c11_predicates import r2_criteria

    tmp = Report("C11", report.tier)
    r2_criteria(repo, tmp)
    n = 0
    for o in tmp.obligations:
        if "TooManyN" in o.construct:
            n += 1
            report.ob("C14.R5", o.construct, None if o.state == "UNRECOGNISED" else o.state == "DISCHARGED", facts=o.facts, expected=o.expected, loc=o.loc, why=o.why, cases=o.cases)
    report.floor("C14.R5", "TooManyN obligations", n, 3)


def r6_reported(repo, report):
    c, fn = repo.need_method("PolyATrimmer", "__call__")
    ps = params(fn)

    def hook(ex, node, env):
        if chain(node.func) == "poly_a_trim_index":
            kw = {k.arg: vkey(ex.ev(k.value, env)) for k in node.keywords}
            ex.calls.append(("poly_a_trim_index(" + ", ".join([vkey(ex.ev(a, env)) for a in node.args] + [f"{k}={v}" for k, v in kw.items()]) + ")", node, "poly_a_trim_index"))
            return Lin.atom("INDEX")
        return None

    rows = explore(repo, strip_docstring(fn.body), {"self": Obj("self", nonnull=True), ps[1]: Obj("REC", nonnull=True), ps[2]: Obj("INFO")}, call_hook=hook, inline=False)
    bad = []
    for r in rows:
        rc = r.valuation.get("truthy:self.revcomp")
        ret = vkey(r.exit[1]) if r.exit[0] == "return" else r.exit[0]
        tally = [e for e in r.effects if e[0] == "aug" and e[1].startswith("self.trimmed_bases[")]
        call = [c_[0] for c_ in r.calls if c_[2] == "poly_a_trim_index"]
        if rc:
            want = ("REC[INDEX:]", "self.trimmed_bases[INDEX]", "poly_a_trim_index(REC.sequence, revcomp=True)")
        else:
            want = ("REC[:INDEX]", f"self.trimmed_bases[{(Lin.atom('len(REC)') - Lin.atom('INDEX')).key()}]", "poly_a_trim_index(REC.sequence)")
        if ret != want[0] or len(tally) != 1 or tally[0][1] != want[1] or tally[0][2] != "+1" or call != [want[2]]:
            bad.append((rc, ret, [t[1:3] for t in tally], call))
    report.ob("C14.R6", "PolyATrimmer.__call__", not bad and len(rows) == 2, facts={"problems": [str(b)[:240] for b in bad]}, expected="poly-T head: record[index:], tally[index] += 1; poly-A tail: record[:index], tally[len - index] += 1", loc=repo.loc(fn), cases=len(rows),
              why=str(bad[0])[:200] if bad else "")
