"""
The error frame between processes: header -2, then a 2-tuple (error, traceback text).  Shared by C06.R1 and C12.R1/R2.

error_payload(repo, module, expr, exc_name) classifies the tuple that follows the -2 header:
  'raw'      (e, <text>)            - the exception object itself; whether it can be pickled depends on its class
  'guarded'  (F(e), <text>)         - F is a module-level function that tries to pickle its argument and returns a
                                       built-in exception carrying the message when that fails
  'text'     (str(e) / repr(e) / f"...", <text>)
  None       anything else
"""
from __future__ import annotations

import ast

from ..repo import chain, src, params

_BUILTIN_EXC = {"RuntimeError", "Exception", "OSError", "ValueError", "IOError", "EOFError"}


def is_pickle_guard(fn) -> bool:
    if fn is None or len(params(fn)) != 1:
        return False
    p = params(fn)[0]
    tries = [n for n in ast.walk(fn) if isinstance(n, ast.Try)]
    if len(tries) != 1:
        return False
    t = tries[0]
    dumps = [c for st in t.body for c in ast.walk(st) if isinstance(c, ast.Call) and chain(c.func) in ("pickle.dumps", "dumps") and c.args and chain(c.args[0]) == p]
    if not dumps or not t.handlers:
        return False
    for h in t.handlers:
        if h.type is not None and chain(h.type) not in ("Exception", "BaseException"):
            return False  # what pickling raises is open-ended (pickle.PicklingError, TypeError, AttributeError, ...): a narrower handler lets some of it through
        rets = [x for x in ast.walk(h) if isinstance(x, ast.Return)]
        if len(rets) != 1 or not (isinstance(rets[0].value, ast.Call) and chain(rets[0].value.func) in _BUILTIN_EXC):
            return False
        args = rets[0].value.args
        if not args or not all(isinstance(a, (ast.JoinedStr, ast.Constant)) or (isinstance(a, ast.Call) and chain(a.func) in ("str", "repr")) for a in args):
            return False
        if not any(isinstance(x, ast.Name) and x.id == p for a in args for x in ast.walk(a)):
            return False  # the message of the original error must be carried over
    # every other return hands back the argument itself
    other = [x for x in ast.walk(fn) if isinstance(x, ast.Return) and not any(x in list(ast.walk(h)) for h in t.handlers)]
    return bool(other) and all(chain(x.value) == p for x in other)


def error_payload(repo, module, expr, exc_name):
    if not (isinstance(expr, ast.Tuple) and len(expr.elts) == 2):
        return None
    first = expr.elts[0]
    if isinstance(first, ast.Name) and first.id == exc_name:
        return "raw"
    if isinstance(first, ast.JoinedStr) or (isinstance(first, ast.Call) and chain(first.func) in ("str", "repr") and len(first.args) == 1 and chain(first.args[0]) == exc_name):
        return "text"
    if isinstance(first, ast.Call) and isinstance(first.func, ast.Name) and len(first.args) == 1 and chain(first.args[0]) == exc_name and not first.keywords:
        try:
            fn = repo.func(module, first.func.id)
        except Exception:
            fn = None
        if is_pickle_guard(fn):
            return "guarded"
    return None
