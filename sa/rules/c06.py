"""C06 - Multi-core runs give the single-core result (the statically visible part)."""
from __future__ import annotations

import ast
import re

from ..absint import Const, Obj, Tup, explore, vkey
from ..core import Unrecognised
from ..lin import Lin
from ..repo import chain, params, src, strip_docstring, walk_no_nested, calls
from ..localroles import rename, discover, by_roles, cli_main, name_of, unique, calls_to, assigned_names


def run(repo, report, tier):
    report.rule("C06.R1", "protocol frames agree on the three pipes: every header value class the sender can emit (chunk index, -1, -2) is tested by the receiver before it reads payload, and the payload kinds (object / bytes, 2-tuple for errors) and their order are the same on both sides",
                "a worker's message is misread by the main process (reads n as index, stats as bytes ...): lost or reordered chunks, hang")
    report.rule("C06.R2", "file order and multiplicity: each OutputFiles.open_* call appends as many binary files as the proxy writer it creates will drain chunks; both lists are append-only and iterated in list order by _send_outfiles and the main loop",
                "chunk j is written to file k != j, or a chunk is left unread in the pipe")
    report.rule("C06.R3", "OrderedChunkWriter releases exactly the chunk with the current index, deletes it and advances by one; the first index equals the reader's enumeration start",
                "output order differs from input order, or the first chunk is never written")
    report.rule("C06.R4", "every __iadd__ merges each tally (attribute updated after construction) from the same-named attribute of other, additively (+, +=, add_if_not_none, Counter addition); descriptors are compared or left alone",
                "per-worker statistics are lost, overwritten or added to the wrong field when workers' results are merged")
    report.rule("C06.R5", "pickled state: __reduce__/__getstate__ pass exactly the constructor's parameters, each from the attribute that stores it, in order",
                "an object that crosses a process boundary (spawn start method) behaves differently from the original")
    report.guard("C06.R1", "pipes", r1_frames, repo, report)
    report.guard("C06.R2", "OutputFiles", r2_files, repo, report)
    report.guard("C06.R3", "OrderedChunkWriter", r3_ordered, repo, report)
    report.guard("C06.R2", "payload sizes", r2_unbounded_payloads, repo, report)
    report.guard("C06.R4", "__iadd__ classes", r4_merges, repo, report)
    report.guard("C06.R4", "Statistics.__iadd__ per-read slots", r4_statistics_slots, repo, report)
    report.guard("C06.R5", "pickling", r5_pickle, repo, report)
    from . import c19

    report.rule("C06.R6", "output and input format decisions do not depend on the runner (= C19.R1, C19.R3)", "-j N writes/reads a different format than -j 1")
    c19.format_rules(repo, report, "C06.R6")
    report.notes.append("Not decided: the schedule quantifier itself (which worker gets which chunk, arrival order) - that needs a model checker (different technique family); byte identity; progress/liveness.")


# ---------------------------------------------------------------------------
# R1: frames
# ---------------------------------------------------------------------------
class _Chan:
    def __init__(self):
        self.n = 0


def _io_hook(pipes):
    """Number recv()/recv_bytes() results and log send/recv operations of the given pipe keys as effects."""
    def hook(ex, node, env):
        f = node.func
        if not isinstance(f, ast.Attribute):
            return None
        if f.attr in ("recv", "recv_bytes", "send", "send_bytes"):
            recv = vkey(ex.ev(f.value, env))
            if not any(recv == p or recv.endswith(p) or p in recv for p in pipes):
                return None
            if f.attr in ("recv", "recv_bytes"):
                ex._io_n = getattr(ex, "_io_n", 0) + 1
                k = f"RX{ex._io_n}"
                ex.effect("io", f.attr, k, node, None)
                return Obj(k)
            arg = ex.ev(node.args[0], env) if node.args else Const(None)
            ex.effect("io", f.attr, vkey(arg), node, arg)
            return Const(None)
        return None
    return hook


def _io_trace(row):
    return [(e[1], e[2], bool(e[4]), e[5]) for e in row.effects if e[0] == "io"]


def _hdr_class(k):
    if k in ("-1", "-2"):
        return k
    return "index"


def r1_frames(repo, report):
    # ---- worker -> main ----
    wcls = repo.cls("WorkerProcess")
    c, wrun = repo.need_method("WorkerProcess", "run")
    env = {"self": Obj("self", cls="WorkerProcess", nonnull=True)}
    hook = _io_hook(["self._write_pipe", "self._read_pipe"])
    rows = explore(repo, strip_docstring(wrun.body), env, call_hook=hook, max_rows=5000)
    report.saw(function="WorkerProcess.run", file=wcls.module.relpath, paths=len(rows))
    sent_frames = {}
    recv_frames_worker = {}
    for r in rows:
        tr = _io_trace(r)
        # split into the read side (what the worker receives from the reader) and the write side
        rx = [t for t in tr if t[0] in ("recv", "recv_bytes")]
        tx = [t for t in tr if t[0] in ("send", "send_bytes")]
        # sender frames: a frame starts at a send whose value is the received header or a negative literal
        frames, cur = [], None
        for op, k, loop, obj in tx:
            is_hdr = op == "send" and (k in ("-1", "-2") or k.startswith("RX"))
            if is_hdr:
                cur = [_hdr_class(k)]
                frames.append(cur)
            elif cur is not None:
                kind = "bytes*" if (op == "send_bytes" and loop) else "bytes" if op == "send_bytes" else ("obj2" if isinstance(obj, Tup) and len(obj.items) == 2 else "obj")
                cur.append(kind)
            else:
                frames.append(["?", op, k])
        for f in frames:
            sent_frames.setdefault(f[0], set()).add(tuple(f[1:]))
        # receiver side of the reader->worker pipe: header then payload
        if rx:
            hdr = rx[0][1]
            eq1 = r.valuation.get(f"sign:{hdr}+1")
            eq2 = r.valuation.get(f"sign:{hdr}+2")
            cls = "-1" if eq1 == 0 else "-2" if eq2 == 0 else "index"
            payload = []
            for op, k, loop, obj in rx[1:]:
                payload.append(("bytes*" if loop else "bytes") if op == "recv_bytes" else "obj")
            recv_frames_worker.setdefault(cls, set()).add(tuple(payload))
    want_sent = {"index": {("obj", "bytes*")}, "-1": {("obj",)}, "-2": {("obj2",)}}
    if ("obj",) in sent_frames.get("index", set()) and ("obj", "bytes*") in sent_frames.get("index", set()):
        sent_frames["index"].discard(("obj",))  # the path on which there is no proxy file at all
    ok = sent_frames == want_sent
    report.ob("C06.R1", "worker -> main: frames sent", ok, facts={k: sorted(map(list, v)) for k, v in sent_frames.items()}, expected={k: sorted(map(list, v)) for k, v in want_sent.items()}, loc=repo.loc(wrun), cases=len(rows),
              why="" if ok else "the worker's message layout is not [index, n, bytes per proxy file] / [-1, statistics] / [-2, (exception, traceback)]")
    # main loop receives
    pcls = repo.cls("ParallelPipelineRunner")
    c, prun = repo.need_method("ParallelPipelineRunner", "run")
    pps = params(prun)
    env = {"self": Obj("self", cls="ParallelPipelineRunner", nonnull=True)}
    for p in pps[1:]:
        env[p] = Obj(p.upper(), nonnull=True)
    hook2 = _io_hook(["item(", "connection", "CONN"])
    # analyse the body of the per-connection loop
    loops = [n for n in ast.walk(prun) if isinstance(n, ast.For) and any(isinstance(x, ast.Call) and chain(x.func) in ("self._try_receive",) for x in ast.walk(n))]
    if not loops:
        raise Unrecognised("ParallelPipelineRunner.run: receive loop not found", repo.loc(prun))
    lp = loops[-1]
    cv = lp.target.id
    env2 = dict(env)
    env2[cv] = Obj("CONN", nonnull=True)
    env2["chunk_writers"] = Obj("CHUNK_WRITERS", nonnull=True)
    env2["connections"] = Obj("CONNECTIONS", nonnull=True)
    env2["stats"] = Obj("STATS", nonnull=True)
    env2["progress"] = env.get("progress", Obj("PROGRESS", nonnull=True))
    rows2 = explore(repo, lp.body, env2, call_hook=_io_hook(["CONN"]), max_rows=5000)
    report.saw(function="ParallelPipelineRunner.run", paths=len(rows2))
    got = {}
    stats_merge = None
    for r in rows2:
        rx = [t for t in _io_trace(r) if t[0] in ("recv", "recv_bytes")]
        if not rx:
            continue
        hdr = rx[0][1]
        eq1 = r.valuation.get(f"sign:{hdr}+1")
        eq2 = r.valuation.get(f"sign:{hdr}+2")
        cls = "-2" if eq2 == 0 else "-1" if eq1 == 0 else "index"
        if eq2 is None:
            cls = "untested:-2"
        if any(k.startswith("sign:RX") and k.endswith("+2") and v == 0 and not k.startswith(f"sign:{hdr}+") for k, v in r.valuation.items()):
            continue  # a payload value that is itself the error sentinel: _try_receive treats it as an error frame (generic, harmless)
        no_children = any(k.startswith("loop-nonempty:multiprocessing.active_children()") and v is False for k, v in r.valuation.items())
        payload = []
        for op, k, loop, obj in rx[1:]:
            payload.append(("bytes*" if loop else "bytes") if op == "recv_bytes" else "obj")
        if cls == "-2":
            # payload must be unpacked as a 2-tuple and the row must raise after terminating children
            payload = ["obj2" if p == "obj" else p for p in payload]
            term = any(e[0] == "call" and e[1].endswith(".terminate") for e in r.effects)
            if r.exit[0] != "raise" or not (term or no_children):
                payload.append("no-raise" if r.exit[0] != "raise" else "no-terminate")
        if cls == "-1":
            merged = [e for e in r.effects if e[0] in ("auglocal",) and e[1] == "stats"]
            removed = any(e[0] == "call" and e[1] == "CONNECTIONS.remove" for e in r.effects)
            if len(merged) != 1 or not merged[0][2].startswith("+RX") or not removed:
                payload.append("stats-not-merged-or-connection-kept")
        if cls == "index":
            wr = [e for e in r.effects if e[0] == "call" and e[1].endswith(".write")]
            if wr and not all(hdr in e[2] for e in wr):
                payload.append("chunk written under another index")
        got.setdefault(cls, set()).add(tuple(payload))
    want_got = {"index": {("obj", "bytes*")}, "-1": {("obj",)}, "-2": {("obj2",)}}
    # paths where no chunk writer exists have no bytes: accept ('obj',) in addition when CHUNK_WRITERS is empty
    norm = {}
    for k, v in got.items():
        vv = set(v)
        if k == "index" and ("obj",) in vv and ("obj", "bytes*") in vv:
            vv.discard(("obj",))
        norm[k] = vv
    ok = norm == want_got
    report.ob("C06.R1", "worker -> main: frames received", ok, facts={k: sorted(map(list, v)) for k, v in norm.items()}, expected={k: sorted(map(list, v)) for k, v in want_got.items()}, loc=repo.loc(lp), cases=len(rows2),
              why="" if ok else "the main process reads a worker message in another layout than it is sent")
    # every header read goes through _try_receive; raw recv() on worker connections only there
    raw = [src(x) for x in calls(prun) if isinstance(x.func, ast.Attribute) and x.func.attr == "recv"]
    report.ob("C06.R1", "main loop reads headers only through _try_receive", not raw, facts={"raw_recv_calls": raw}, expected="no connection.recv() outside _try_receive", loc=repo.loc(prun))
    # ---- reader -> worker ----
    want_rw = {"index": {("bytes*",)}, "-1": {()}, "-2": {("obj",)}}
    norm = {}
    for k, v in recv_frames_worker.items():
        norm[k] = {tuple(p for p in pl) for pl in v}
    # list comprehension over range(n_input_files) is a repeated recv_bytes: recognise it syntactically
    lc = [n for n in ast.walk(wrun) if isinstance(n, ast.ListComp) and any(isinstance(x, ast.Call) and isinstance(x.func, ast.Attribute) and x.func.attr == "recv_bytes" for x in ast.walk(n))]
    lc_ok = len(lc) == 1 and src(lc[0].generators[0].iter) == "range(self._n_input_files)"
    hdr_tests = sorted({k for r in rows for k in r.valuation if k.startswith("sign:RX1")})
    ok = lc_ok and set(recv_frames_worker) >= {"-1", "-2", "index"} and hdr_tests == ["sign:RX1+1", "sign:RX1+2"]
    err_rows = [r for r in rows if r.valuation.get("sign:RX1+2") == 0]
    reraised = bool(err_rows) and all(any(t[0] == "send" and t[1] == "-2" for t in _io_trace(r)) for r in err_rows)
    report.ob("C06.R1", "reader -> worker: frames received", ok and reraised, facts={"headers_tested": hdr_tests, "payload_reads": {k: sorted(map(list, v)) for k, v in recv_frames_worker.items()}, "chunks_per_message": src(lc[0].generators[0].iter) if lc else None, "reader_error_forwarded_to_main": reraised},
              expected="header tested against -1 and -2 before reading; range(self._n_input_files) chunks otherwise; a reader error is re-raised and forwarded", loc=repo.loc(wrun))
    rcls = repo.cls("ReaderProcess")
    c, stw = repo.need_method("ReaderProcess", "send_to_worker")
    sp = params(stw)
    env = {"self": Obj("self", nonnull=True), "connection": Obj("CONN", nonnull=True)}
    for p in sp[1:]:
        env[p] = Obj(p.upper())
    rows3 = explore(repo, strip_docstring(stw.body), env, call_hook=_io_hook(["self.connections", "CONN"]))
    traces = sorted({tuple((t[0], t[1]) for t in _io_trace(r)) for r in rows3})
    w1 = (("send", sp[1].upper()), ("send_bytes", sp[2].upper()))
    w2 = w1 + (("send_bytes", sp[3].upper()),) if len(sp) > 3 else w1
    ok = traces == sorted({w1, w2})
    report.ob("C06.R1", "reader -> worker: chunk frame sent", ok, facts={"traces": [list(map(list, t)) for t in traces]}, expected="send(chunk_index); send_bytes(chunk1); send_bytes(chunk2) iff given", loc=repo.loc(stw))
    c, sh = repo.need_method("ReaderProcess", "shutdown")
    sends = [src(x.args[0]) for x in calls(sh) if isinstance(x.func, ast.Attribute) and x.func.attr == "send"]
    loops = [n for n in ast.walk(sh) if isinstance(n, ast.For)]
    ok = sends == ["-1"] and len(loops) == 1 and src(loops[0].iter) == "range(len(self.connections))"
    report.ob("C06.R1", "reader -> worker: one poison pill per worker", ok, facts={"sends": sends, "loop": src(loops[0].iter) if loops else None}, expected="for each of len(self.connections) requests: send(-1)", loc=repo.loc(sh))
    c, rrun = repo.need_method("ReaderProcess", "run")
    # error frames of the reader: (-2, 2-tuple) on every worker connection; on the format connection inside the inner handler
    handlers = [h for n in ast.walk(rrun) if isinstance(n, ast.Try) for h in n.handlers]
    facts = []
    ok = len(handlers) == 2
    for h in handlers:
        sends = [(chain(x.func), src(x.args[0])) for x in calls(h) if isinstance(x.func, ast.Attribute) and x.func.attr == "send"]
        facts.append({"catches": src(h.type) if h.type is not None else "bare", "sends": sends, "reraises": any(isinstance(x, ast.Raise) for x in ast.walk(h))})
        from .frames import error_payload
        scalls = [x for x in calls(h) if isinstance(x.func, ast.Attribute) and x.func.attr == "send"]
        if len(sends) != 2 or sends[0][1] != "-2" or error_payload(repo, "runners", scalls[1].args[0], h.name or "e") is None or sends[0][0] != sends[1][0] or src(h.type) != "Exception":
            ok = False
    report.ob("C06.R1", "reader: error frames", ok, facts={"handlers": facts}, expected="except Exception: send(-2); send((e, traceback)) on the same connection(s)", loc=repo.loc(rrun))
    en = [x for x in calls(rrun) if chain(x.func) == "enumerate"]
    ok = len(en) == 1 and len(en[0].args) == 1 and not en[0].keywords
    report.ob("C06.R3", "reader numbers chunks from 0", ok, facts={"enumerate": src(en[0]) if en else None}, expected="enumerate(self._read_chunks(*files)) without start", loc=repo.loc(rrun))
    # ---- reader -> main (file format) ----
    c, pinit = repo.need_method("ParallelPipelineRunner", "__init__")
    tr = [x for x in calls(pinit) if chain(x.func) == "self._try_receive"]
    fmt_sends = [src(x.args[0]) for x in calls(rrun) if chain(x.func) == "self._file_format_connection.send"]
    fmt_calls = [x for x in calls(rrun) if chain(x.func) == "self._file_format_connection.send"]
    kinds = sorted("error" if error_payload(repo, "runners", x.args[0], "e") else src(x.args[0]) for x in fmt_calls)
    ok = len(tr) == 1 and kinds == sorted(["-2", "error", "file_format"])
    report.ob("C06.R1", "reader -> main: format frame", ok, facts={"sent": fmt_sends, "received_via": src(tr[0]) if tr else None}, expected="file_format, or -2 followed by (e, traceback); received through _try_receive", loc=repo.loc(pinit))
    # _try_receive itself
    c, trf = repo.need_method("ParallelPipelineRunner", "_try_receive")
    tp = params(trf)
    rows4 = explore(repo, strip_docstring(trf.body), {tp[0]: Obj("CONN", nonnull=True)}, call_hook=_io_hook(["CONN"]))
    ok = True
    facts = []
    for r in rows4:
        rx = [t for t in _io_trace(r)]
        err = r.valuation.get("sign:RX1+2") == 0
        term = any(e[0] == "call" and e[1].endswith(".terminate") for e in r.effects) or any(k.startswith("loop-nonempty:multiprocessing.active_children()") and v is False for k, v in r.valuation.items())
        facts.append({"error_header": err, "reads": len(rx), "exit": r.exit[0], "terminates_children": term})
        if err and not (len(rx) == 2 and r.exit[0] == "raise" and term):
            ok = False
        if not err and not (len(rx) == 1 and r.exit[0] == "return" and vkey(r.exit[1]) == "RX1"):
            ok = False
    report.ob("C06.R1", "_try_receive", ok and len(rows4) >= 2, facts={"paths": facts}, expected="-2: read (e, tb), terminate all children, raise; otherwise return the value", loc=repo.loc(trf), cases=len(rows4))


# ---------------------------------------------------------------------------
def r2_files(repo, report):
    # text outputs (info / rest / wildcard files): the in-memory proxy of a worker encodes text exactly like the serial
    # text file - both leave encoding, errors and newline to the defaults
    cpt, pti = repo.need_method("ProxyTextFile", "__init__")
    tw = [x for x in calls(pti) if chain(x.func) == "io.TextIOWrapper"]
    cfo, fx = repo.need_method("FileOpener", "xopen")
    xo = [x for x in calls(fx) if chain(x.func) == "open_raise_limit"]
    xkw = sorted(k.arg for x in xo for k in x.keywords if k.arg in ("encoding", "errors", "newline"))
    tkw = sorted(k.arg for x in tw for k in x.keywords if k.arg in ("encoding", "errors", "newline"))
    ok_t = len(tw) == 1 and len(tw[0].args) == 1 and tkw == xkw
    report.ob("C06.R2", "ProxyTextFile encodes like the serial text file", ok_t, facts={"proxy": src(tw[0]) if tw else None, "proxy_text_options": tkw, "serial_text_options": xkw},
              expected="io.TextIOWrapper(buffer) with the same encoding/errors/newline options as FileOpener.xopen(path, 'wt') (none)", loc=repo.loc(pti),
              why="" if ok_t else "a name that the serial run writes (e.g. a non-ASCII adapter name in the info file) is encoded differently, or fails, in a worker")
    ocls = repo.cls("OutputFiles")
    for mname, want in (("open_text", "1"), ("open_record_writer", "len(paths)"), ("open_stdout_record_writer", "1")):
        c, fn = repo.need_method("OutputFiles", mname)
        # number of appends to self._binary_files
        apps = [x for x in calls(fn) if chain(x.func) == "self._binary_files.append"]
        in_loop = []
        for a in apps:
            lp = None
            n = getattr(a, "_parent", None)
            while n is not None and n is not fn:
                if isinstance(n, ast.For):
                    lp = n
                    break
                n = getattr(n, "_parent", None)
            in_loop.append(src(lp.iter) if lp is not None else None)
        if mname == "open_record_writer":
            count = "len(paths)" if in_loop == ["paths"] else f"?{in_loop}"
        else:
            count = "1" if in_loop == [None] else f"?{in_loop}"
        # the proxy created in the same call
        prox = [x for x in calls(fn) if chain(x.func) in ("ProxyTextFile", "ProxyRecordWriter")]
        pn = None
        if len(prox) == 1:
            pn = "1" if chain(prox[0].func) == "ProxyTextFile" else src(prox[0].args[0]) if prox[0].args else None
        papp = [x for x in calls(fn) if chain(x.func) == "self._proxy_files.append"]
        # in the proxied branch the binary file is appended for every proxy; for open_text the append is inside the proxied branch
        ok = count == want and pn == want and len(papp) == 1
        report.ob("C06.R2", f"OutputFiles.{mname}", ok, facts={"binary_files_appended": count, "proxy_chunks": pn, "proxy_appends": len(papp)}, expected=f"{want} binary file(s) and one proxy draining {want} chunk(s)", loc=repo.loc(fn),
                  why="" if ok else "the number of files registered for the main process differs from the number of chunks the proxy writer sends")
        # unconditional registration order: binary append precedes the proxy append in program order (same call)
    # drains
    c, d1 = repo.need_method("ProxyTextFile", "drain")
    rets = [n for n in ast.walk(d1) if isinstance(n, ast.Return)]
    ok = len(rets) == 1 and isinstance(rets[0].value, ast.List) and len(rets[0].value.elts) == 1
    report.ob("C06.R2", "ProxyTextFile.drain returns one chunk", ok, facts={"returns": src(rets[0].value) if rets else None}, expected="[chunk]", loc=repo.loc(d1))
    c, d2 = repo.need_method("ProxyRecordWriter", "drain")
    lcs = [n for n in ast.walk(d2) if isinstance(n, ast.ListComp)]
    c, pi = repo.need_method("ProxyRecordWriter", "__init__")
    bufs = [n for n in ast.walk(pi) if isinstance(n, ast.Assign) and chain(n.targets[0]) == "self._buffers"]
    ok = len(lcs) == 1 and src(lcs[0].generators[0].iter) == "self._buffers" and len(bufs) == 1 and isinstance(bufs[0].value, ast.ListComp) and src(bufs[0].value.generators[0].iter) == f"range({params(pi)[1]})"
    report.ob("C06.R2", "ProxyRecordWriter.drain returns n_files chunks in buffer order", ok, facts={"drain": src(lcs[0]) if lcs else None, "buffers": src(bufs[0].value) if bufs else None}, expected="[buf.getvalue() for buf in self._buffers] with n_files buffers", loc=repo.loc(d2))
    # drained buffers are emptied (a chunk is sent once)
    for cname in ("ProxyTextFile", "ProxyRecordWriter"):
        c, d = repo.need_method(cname, "drain")
        seq = [chain(x.func).split(".")[-1] for x in calls(d) if chain(x.func) and chain(x.func).split(".")[-1] in ("getvalue", "seek", "truncate", "flush")]
        ok = "truncate" in seq and "seek" in seq and seq.index("getvalue") < seq.index("seek") < seq.index("truncate")
        report.ob("C06.R2", f"{cname}.drain empties the buffer after reading it", ok, facts={"sequence": seq}, expected="getvalue; seek(0); truncate()", loc=repo.loc(d))
    # append-only and iterated in order
    muts = []
    for m, q, fn in repo.all_functions():
        if not q.startswith("OutputFiles."):
            continue
        for x in calls(fn):
            ch = chain(x.func) or ""
            for lst in ("_binary_files", "_proxy_files"):
                if f".{lst}." in ch + "." and ch.split(".")[-1] in ("insert", "remove", "pop", "sort", "reverse", "clear", "extend"):
                    muts.append(f"{q}: {src(x)[:60]}")
        for n in ast.walk(fn):
            if isinstance(n, (ast.Assign, ast.AugAssign)):
                for t in (n.targets if isinstance(n, ast.Assign) else [n.target]):
                    ch = chain(t) or ""
                    if ch.endswith("._binary_files") or ch.endswith("._proxy_files"):
                        if not (q.endswith("__init__") and isinstance(getattr(n, "value", None), ast.List) and not n.value.elts):
                            muts.append(f"{q}: {src(n)[:60]}")
    report.ob("C06.R2", "file lists are append-only", not muts, facts={"other_mutations": muts}, expected="only .append() after the empty initialisation", loc=repo.loc(ocls.node))
    c, so = repo.need_method("WorkerProcess", "_send_outfiles")
    fors = [n for n in ast.walk(so) if isinstance(n, ast.For)]
    ok = len(fors) == 2 and src(fors[0].iter) == "self._proxy_files" and src(fors[1].iter).endswith(".drain()") and isinstance(fors[0].body[0], ast.For)
    report.ob("C06.R2", "_send_outfiles drains proxies in list order", ok, facts={"loops": [src(f.iter) for f in fors]}, expected="for pf in self._proxy_files: for chunk in pf.drain(): send_bytes(chunk)", loc=repo.loc(so))
    c, prun = repo.need_method("ParallelPipelineRunner", "run")
    cw = [n for n in ast.walk(prun) if isinstance(n, ast.For) and src(n.iter) == "outfiles.binary_files()"]
    ok = len(cw) == 1 and any(isinstance(x, ast.Call) and chain(x.func) == "chunk_writers.append" and chain(x.args[0].func) == "OrderedChunkWriter" for x in ast.walk(cw[0]))
    sw = [x for x in calls(prun) if chain(x.func) == "self._start_workers"]
    ok2 = len(sw) == 1 and [src(a) for a in sw[0].args][1:] == ["outfiles.proxy_files()"]
    c, bf = repo.need_method("OutputFiles", "binary_files")
    c, pf = repo.need_method("OutputFiles", "proxy_files")
    r1 = [src(n.value) for n in ast.walk(bf) if isinstance(n, ast.Return)]
    r2 = [src(n.value) for n in ast.walk(pf) if isinstance(n, ast.Return)]
    ok3 = r1 in (["self._binary_files[:]"], ["self._binary_files"], ["list(self._binary_files)"]) and r2 in (["self._proxy_files"], ["self._proxy_files[:]"])
    report.ob("C06.R2", "main loop: one ordered writer per binary file, workers get the proxy list", ok and ok2 and ok3, facts={"chunk_writers_from": src(cw[0].iter) if cw else None, "workers_get": src(sw[0]) if sw else None, "binary_files": r1, "proxy_files": r2},
              expected="chunk_writers = [OrderedChunkWriter(f) for f in outfiles.binary_files()]; workers receive outfiles.proxy_files()", loc=repo.loc(prun))
    c, winit = repo.need_method("WorkerProcess", "__init__")
    wp = params(winit)
    st = {chain(t): src(n.value) for n in ast.walk(winit) if isinstance(n, ast.Assign) for t in n.targets if chain(t)}
    report.ob("C06.R2", "worker keeps the proxy list it was given", st.get("self._proxy_files") == "proxy_files", facts={"self._proxy_files": st.get("self._proxy_files")}, expected="self._proxy_files = proxy_files", loc=repo.loc(winit))


def r3_ordered(repo, report):
    cls = repo.cls("OrderedChunkWriter")
    c, init = repo.need_method("OrderedChunkWriter", "__init__")
    st = {chain(t): src(n.value) for n in ast.walk(init) if isinstance(n, ast.Assign) for t in n.targets if chain(t)}
    report.ob("C06.R3", "OrderedChunkWriter starts at index 0", st.get("self._current_index") == "0", facts={"self._current_index": st.get("self._current_index")}, expected="0", loc=repo.loc(init))
    c, wr = repo.need_method("OrderedChunkWriter", "write")
    wp = params(wr)
    lp = [n for n in wr.body if isinstance(n, ast.While)]
    pre = [n for n in wr.body if isinstance(n, ast.Assign)]
    ok = len(lp) == 1 and src(lp[0].test) == "self._current_index in self._chunks" and len(pre) == 1 and src(pre[0]) == f"self._chunks[{wp[2]}] = {wp[1]}"
    facts = {"store": src(pre[0]) if pre else None, "loop": src(lp[0].test) if lp else None}
    if ok:
        rows = explore(repo, lp[0].body, {"self": Obj("self", nonnull=True)}, inline=False)
        eff = [(e[0], e[1], e[2]) for e in rows[0].effects] if len(rows) == 1 else None
        want = [("call", "self._outfile.write", "self._outfile.write(self._chunks[self._current_index])"), ("del", "self._chunks[self._current_index]", ""), ("aug", "self._current_index", "+1")]
        facts["body_effects"] = eff
        ok = eff is not None and [tuple(x) for x in eff] == want
    report.ob("C06.R3", "OrderedChunkWriter.write", ok, facts=facts, expected="store under its index; while current index present: write it, delete it, advance by one", loc=repo.loc(wr))
    # only write() may put bytes into the output file: anything else that writes held-back chunks breaks the order
    # (and, on the error path, puts records behind a fault into the file without the ones before it)
    writers = sorted(mname for mname, m_ in cls.methods.items() for x in ast.walk(m_) if isinstance(x, ast.Call) and chain(x.func) in ("self._outfile.write", "self._outfile.writelines"))
    report.ob("C06.R3", "OrderedChunkWriter: only write() writes to the output file", writers == ["write"], facts={"methods_writing_to_the_file": writers}, loc=repo.loc(cls.node),
              expected="self._outfile.write(...) occurs in OrderedChunkWriter.write alone",
              why="" if writers == ["write"] else f"{[w for w in writers if w != 'write'][:1]} also writes to the output file: chunks that are waiting for an earlier one reach the file out of input order")
    c, prun = repo.need_method("ParallelPipelineRunner", "run")
    ws = [x for x in calls(prun) if chain(x.func) == "writer.write"]
    ok = len(ws) == 1 and [src(a) for a in ws[0].args] == ["data", "chunk_index"]
    asr = [n for n in ast.walk(prun) if isinstance(n, ast.Assert) and "wrote_everything" in src(n)]
    report.ob("C06.R3", "main loop hands (data, chunk_index) to the ordered writer and checks completeness", ok and bool(asr), facts={"call": src(ws[0]) if ws else None, "final_assert": bool(asr)}, expected="writer.write(data, chunk_index); assert writer.wrote_everything()", loc=repo.loc(prun))


# ---------------------------------------------------------------------------
# R4 merges
# ---------------------------------------------------------------------------
FROZEN_NON_TALLIES = {
    ("Statistics", "_collected"): "lifecycle flag of the collecting object, not a tally",
}
ADDITIVE_CALLS = {"add_if_not_none"}


def _init_attrs(cls):
    init = cls.methods.get("__init__")
    out = {}
    if init is None:
        return out
    for n in ast.walk(init):
        if isinstance(n, (ast.Assign, ast.AnnAssign)):
            for t in ([n.target] if isinstance(n, ast.AnnAssign) else n.targets):
                ch = chain(t)
                if ch and ch.startswith("self.") and ch.count(".") == 1:
                    out[ch[5:]] = n.value
    return out


def _root_attr(target, base="self"):
    """self.X, self.X[i], self.X[i][j] -> X"""
    t = target
    while isinstance(t, ast.Subscript):
        t = t.value
    ch = chain(t)
    if ch and ch.startswith(base + ".") and ch.count(".") == 1:
        return ch[len(base) + 1:]
    return None


def _written_outside_init(repo, attrs):
    """attr -> list of sites where some object's .attr is updated outside any __init__ (whole package)"""
    sites = {}
    for m, q, fn in repo.all_functions():
        if q.endswith("__init__") or q.endswith("__cinit__") or q.endswith("__iadd__"):
            continue
        for n in walk_no_nested(fn):
            tgts = []
            if isinstance(n, ast.AugAssign):
                tgts = [n.target]
            elif isinstance(n, ast.Assign):
                tgts = n.targets
            for t in tgts:
                base = t
                sub = False
                while isinstance(base, ast.Subscript):
                    base = base.value
                    sub = True
                if isinstance(base, ast.Attribute) and base.attr in attrs:
                    if isinstance(n, ast.AugAssign) or sub or (isinstance(n, ast.Assign) and chain(base.value) == "self"):
                        sites.setdefault(base.attr, []).append(f"{q}:{n.lineno}")
            if isinstance(n, ast.Call) and isinstance(n.func, ast.Attribute) and n.func.attr in ("append", "extend", "update", "add") and isinstance(n.func.value, ast.Attribute) and n.func.value.attr in attrs:
                sites.setdefault(n.func.value.attr, []).append(f"{q}:{n.lineno}")
    return sites


def _other_sources(expr, taint):
    """set of other.<attr> an expression derives from"""
    out = set()
    for n in ast.walk(expr):
        if isinstance(n, ast.Attribute):
            ch = chain(n)
            if ch and ch.startswith("other.") :
                out.add(ch.split(".")[1])
        if isinstance(n, ast.Name) and n.id in taint:
            out |= taint[n.id]
    return out


def _method_return_attrs(repo, cls, mname):
    """positions of a tuple-returning method -> self attrs"""
    c, f = repo.method(cls.name, mname)
    if f is None:
        return None
    rets = [n for n in ast.walk(f) if isinstance(n, ast.Return) and n.value is not None]
    if len(rets) != 1:
        return None
    v = rets[0].value
    elts = v.elts if isinstance(v, ast.Tuple) else [v]
    out = []
    for e in elts:
        attrs = {chain(x).split(".")[1] for x in ast.walk(e) if isinstance(x, ast.Attribute) and (chain(x) or "").startswith("self.")}
        out.append(attrs)
    return out


def r4_merges(repo, report):
    classes = [c for c in repo.classes.values() if "__iadd__" in c.methods and not any(isinstance(d, ast.Name) and d.id == "abstractmethod" for d in c.methods["__iadd__"].decorator_list)]
    report.floor("C06.R4", "__iadd__ classes", len(classes), 6)
    for cls in sorted(classes, key=lambda c: c.name):
        fn = cls.methods["__iadd__"]
        attrs = {}
        for c in reversed(repo.mro(cls.name)):
            attrs.update(_init_attrs(c))
            for k, v in c.class_attrs.items():
                if isinstance(v, ast.Constant) and isinstance(v.value, int) and not isinstance(v.value, bool):
                    attrs.setdefault(k, v)
        sites = _written_outside_init(repo, set(attrs))
        ctor_params = set()
        for c in repo.mro(cls.name):
            if "__init__" in c.methods:
                ctor_params |= set(params(c.methods["__init__"])[1:])

        def from_param(v):
            return v is not None and any(isinstance(x, ast.Name) and x.id in ctor_params for x in ast.walk(v))

        tallies = sorted(a for a in attrs if a in sites and (cls.name, a) not in FROZEN_NON_TALLIES and not from_param(attrs[a]))
        report.saw(cls=cls.name, function=f"{cls.name}.__iadd__", file=cls.module.relpath)
        # analyse the merge
        taint = {}
        merged = {}
        problems = []

        loop_values = {}  # loop variable bound to an item of other.<attr> -> number of guards in force when the loop was entered

        def value_guarded(a):
            """a merge inside a loop over other's items that is skipped depending on the item itself (e.g. `if count:`)"""
            for nm, depth in loop_values.items():
                for g in cur_guards[depth:]:
                    if any(isinstance(x, ast.Name) and x.id == nm for x in ast.walk(g)) and not any(isinstance(x, ast.Compare) and isinstance(x.ops[0], (ast.Is, ast.IsNot)) for x in ast.walk(g)):
                        problems.append(f"the merge of self.{a} is skipped depending on the merged value ({src(g)[:40]}): a zero count is a count")
                        return

        cur_guards = []

        def visit(stmts, guards):
            nonlocal cur_guards
            for s in stmts:
                cur_guards = guards
                if isinstance(s, ast.For):
                    srcs = _other_sources(s.iter, taint)
                    # other.m() returning a tuple of attributes: element-wise
                    names = [n.id for n in ast.walk(s.target) if isinstance(n, ast.Name)]
                    for nm in names:
                        taint[nm] = set(srcs)
                        if srcs:
                            loop_values[nm] = len(guards)
                    visit(s.body, guards)
                    for nm in names:
                        loop_values.pop(nm, None)
                elif isinstance(s, ast.If):
                    visit(s.body, guards + [s.test])
                    visit(s.orelse, guards + [ast.UnaryOp(op=ast.Not(), operand=s.test)])
                elif isinstance(s, ast.Assign):
                    val = s.value
                    # tuple unpack of other.method()
                    if isinstance(s.targets[0], ast.Tuple) and isinstance(val, ast.Call) and isinstance(val.func, ast.Attribute) and chain(val.func.value) == "other":
                        pos = _method_return_attrs(repo, cls, val.func.attr)
                        if pos and len(pos) == len(s.targets[0].elts):
                            for e, a in zip(s.targets[0].elts, pos):
                                if isinstance(e, ast.Name):
                                    taint[e.id] = set(a)
                            continue
                    for t in s.targets:
                        a = _root_attr(t)
                        if a is None:
                            if isinstance(t, ast.Name):
                                taint[t.id] = _other_sources(val, taint)
                            continue
                        srcs = _other_sources(val, taint)
                        additive = False
                        reads_self = any(isinstance(x, ast.Attribute) and (chain(x) or "").startswith(f"self.{a}") for x in ast.walk(val))
                        if isinstance(val, ast.Call) and chain(val.func) in ADDITIVE_CALLS and reads_self:
                            additive = True
                        elif any(isinstance(x, ast.BinOp) and isinstance(x.op, ast.Add) for x in ast.walk(val)) and reads_self:
                            additive = True
                        elif not reads_self:
                            # adoption: allowed only when self's value is known to be empty/None
                            gtxt = " ".join(src(g) for g in guards)
                            adopt = (f"self.{a}" in gtxt and (" is None" in gtxt or "not " in gtxt or "== []" in gtxt)) or any(isinstance(x, ast.Assert) and f"self.{a}" in src(x) for x in stmts)
                            if adopt:
                                merged.setdefault(a, []).append(("adopt", srcs))
                                # an adopted ELEMENT must be of the kind the container hands out itself: the tallies are
                                # defaultdicts of defaultdicts, and a plain dict put in their place fails (KeyError) on the
                                # first later `+=` with a key it has not seen - i.e. with the third worker's statistics
                                init_v = attrs.get(a)
                                plain = (isinstance(val, ast.Call) and chain(val.func) == "dict") or isinstance(val, (ast.Dict, ast.DictComp))
                                if isinstance(t, ast.Subscript) and plain and isinstance(init_v, ast.Call) and (chain(init_v.func) or "").endswith("defaultdict"):
                                    problems.append(f"self.{a}[...] adopts a plain dict ({src(val)[:40]}) where the tally's own elements are defaulting dicts: the next merge that adds a new key to it raises KeyError")
                                if srcs - {a}:
                                    problems.append(f"self.{a} adopts other.{sorted(srcs)}")
                                continue
                            problems.append(f"self.{a} is overwritten (not added) by {src(val)[:60]}")
                            continue
                        merged.setdefault(a, []).append(("add", srcs))
                        if additive and srcs != {a}:
                            problems.append(f"self.{a} is merged from other.{sorted(srcs)}")
                elif isinstance(s, ast.AugAssign):
                    a = _root_attr(s.target)
                    if a is None:
                        continue
                    srcs = _other_sources(s.value, taint)
                    value_guarded(a)
                    if not isinstance(s.op, ast.Add):
                        problems.append(f"self.{a} merged with operator {type(s.op).__name__}")
                    merged.setdefault(a, []).append(("add", srcs))
                    if srcs != {a}:
                        problems.append(f"self.{a} is merged from other.{sorted(srcs) or '(nothing)'}")
                elif isinstance(s, ast.Expr) and isinstance(s.value, ast.Call) and isinstance(s.value.func, ast.Attribute):
                    a = _root_attr(s.value.func.value)
                    if a is not None and s.value.func.attr in ("update", "extend", "append", "add"):
                        if s.value.func.attr == "update":
                            problems.append(f"self.{a}.update(...) overwrites counts of equal keys instead of adding them")
                        else:
                            merged.setdefault(a, []).append(("add", _other_sources(s.value, taint)))
                elif isinstance(s, ast.Return) and guards:
                    # the merge is abandoned half-way depending on what the other object holds: whatever is merged
                    # after this point is lost for that worker
                    problems.append(f"the merge returns early under `{src(guards[-1])[:50]}`: the tallies merged after that point are dropped for that worker's statistics")
                elif isinstance(s, (ast.With, ast.Try)):
                    visit(s.body, guards)

        visit(strip_docstring(fn.body), [])
        for t in tallies:
            checked_equal = any(isinstance(n_, ast.If) and any(isinstance(x, ast.Raise) for x in n_.body) and any(isinstance(c_, ast.Compare) and f"self.{t}" in src(c_) and f"other.{t}" in src(c_) for c_ in ast.walk(n_.test)) for n_ in ast.walk(fn))
            if t in merged and all(kind == "adopt" for kind, _ in merged[t]) and not checked_equal:
                problems.append(f"tally self.{t} is only adopted when empty and never added: the counts of every further worker are dropped")
        missing = [t for t in tallies if t not in merged]
        for t in missing:
            problems.append(f"tally self.{t} (updated at {sites[t][:2]}) is not merged")
        ok = not problems
        report.ob("C06.R4", f"{cls.name}.__iadd__", ok, facts={"tallies": tallies, "merged": {k: [(m, sorted(s)) for m, s in v] for k, v in merged.items()}, "problems": problems, "exempt": [a for (c, a) in FROZEN_NON_TALLIES if c == cls.name]},
                  expected="every tally merged additively from the same attribute of other", loc=repo.loc(fn), cases=max(1, len(tallies)), why="; ".join(problems[:2]))
    # add_if_not_none is symmetric
    fn = repo.func("report", "add_if_not_none")
    ps = params(fn)
    rows = explore(repo, strip_docstring(fn.body), {ps[0]: Obj("A"), ps[1]: Obj("B")}, inline=False)
    tbl = {}
    for r in rows:
        for an in (False, True):
            for bn in (False, True):
                if r.valuation.get("isnone:A", an) == an and r.valuation.get("isnone:B", bn) == bn:
                    tbl.setdefault((an, bn), set()).add(vkey(r.exit[1]) if r.exit[0] == "return" else r.exit[0])
    # every path of a case gives the case's answer (a path that also looks at the VALUE - `a or b` - answers differently
    # for a count of 0, which is a count)
    want = {(True, True): ("B", "A", "None"), (True, False): ("B",), (False, True): ("A",), (False, False): ("A+B",)}
    ok = all(tbl.get(k) and tbl[k] <= set(v) for k, v in want.items())
    report.ob("C06.R4", "add_if_not_none", ok, facts={str(k): sorted(v) for k, v in tbl.items()}, expected="None,None -> None; one None -> the other; else a + b (symmetric), whatever the values are", loc=repo.loc(fn), cases=len(rows),
              why="" if ok else "; ".join(f"a {'is' if k[0] else 'is not'} None, b {'is' if k[1] else 'is not'} None -> {sorted(v)}" for k, v in tbl.items() if not v <= set(want[k]))[:240] + ": a tally of 0 on one side turns the sum into None (the report then shows no value)")


# ---------------------------------------------------------------------------
def _param_attr_map(repo, cls_name, init_name):
    """ctor param -> self attribute that stores it (directly or through a helper method called with the param)"""
    c, init = repo.method(cls_name, init_name)
    if init is None:
        return None, None
    ps = params(init)[1:] + [a.arg for a in init.args.kwonlyargs]
    out = {}

    def scan(fn, rename):
        for n in ast.walk(fn):
            if isinstance(n, ast.Assign) and len(n.targets) == 1 and isinstance(n.value, ast.Name):
                ch = chain(n.targets[0])
                if ch and ch.startswith("self.") and n.value.id in rename:
                    out.setdefault(rename[n.value.id], []).append(ch[5:])
            if isinstance(n, ast.Call) and isinstance(n.func, ast.Attribute) and chain(n.func.value) == "self":
                c2, f2 = repo.method(cls_name, n.func.attr)
                if f2 is not None and f2 is not fn:
                    fp = params(f2)[1:]
                    ren = {}
                    for a, p in zip(n.args, fp):
                        if isinstance(a, ast.Name) and a.id in rename:
                            ren[p] = rename[a.id]
                    if ren:
                        scan(f2, ren)

    scan(init, {p: p for p in ps})
    return ps, out


def _copy_hooks(repo, report):
    """__copy__ / __deepcopy__ that rebuild the object through its constructor must hand over every constructor
    parameter from the attribute that stores it (cli.py makes the R2 modifier of a shared option with copy.copy, workers
    receive copies): a parameter left out silently falls back to its default in the copy."""
    for cls in sorted(repo.classes.values(), key=lambda c: c.name):
        for hook in ("__copy__", "__deepcopy__"):
            fn = cls.methods.get(hook)
            if fn is None:
                continue
            rets = [x for x in ast.walk(fn) if isinstance(x, ast.Return) and x.value is not None]
            init_name = "__cinit__" if "__cinit__" in cls.methods else "__init__"
            ps, pmap = _param_attr_map(repo, cls.name, init_name)
            problems = []
            if len(rets) != 1 or not isinstance(rets[0].value, ast.Call) or chain(rets[0].value.func) not in (cls.name, "type(self)", "self.__class__") or ps is None:
                report.unrecognised("C06.R5", f"{cls.name}.{hook}", "does not return ClassName(...)", repo.loc(fn))
                continue
            call = rets[0].value
            given = {}
            for i, a in enumerate(call.args):
                if i < len(ps):
                    given[ps[i]] = a
            for k in call.keywords:
                if k.arg is not None:
                    given[k.arg] = k.value
            for p_ in ps:
                if p_ not in given:
                    problems.append(f"parameter '{p_}' is not handed over (the copy gets the default)")
                else:
                    ch = chain(given[p_]) or ""
                    if not (ch.startswith("self.") and ch[5:] in pmap.get(p_, [])):
                        problems.append(f"parameter '{p_}' gets {src(given[p_])}, not the attribute that stores it {pmap.get(p_)}")
            report.ob("C06.R5", f"{cls.name}.{hook}", not problems, facts={"call": src(call)[:160], "constructor": ps, "stored_in": pmap, "problems": problems[:3]},
                      expected="ClassName(<attribute storing parameter 1>, <attribute storing parameter 2>, ...)", loc=repo.loc(fn), why="; ".join(problems[:2]))


def r5_pickle(repo, report):
    _copy_hooks(repo, report)
    n = 0
    for cls in sorted(repo.classes.values(), key=lambda c: c.name):
        if "__reduce__" in cls.methods:
            n += 1
            fn = cls.methods["__reduce__"]
            rets = [x for x in ast.walk(fn) if isinstance(x, ast.Return)]
            from ..repo import expand
            rv_ = expand(fn, rets[0].value) if len(rets) == 1 and rets[0].value is not None else None  # an argument tuple built in a local first is the same thing
            if rv_ is None or not isinstance(rv_, ast.Tuple) or len(rv_.elts) != 2 or not isinstance(rv_.elts[1], ast.Tuple):
                report.unrecognised("C06.R5", f"{cls.name}.__reduce__", "not 'return (Class, (args...))'", repo.loc(fn))
                continue
            klass, args = rv_.elts
            init_name = "__cinit__" if "__cinit__" in cls.methods else "__init__"
            ps, pmap = _param_attr_map(repo, cls.name, init_name)
            problems = []
            if chain(klass) != cls.name:
                problems.append(f"reconstructs {src(klass)}")
            if ps is None or len(args.elts) > len(ps):
                problems.append("more arguments than constructor parameters")
            else:
                for i, a in enumerate(args.elts):
                    p = ps[i]
                    ch = chain(a)
                    if ch and ch.startswith("self."):
                        if ch[5:] not in pmap.get(p, []):
                            problems.append(f"argument {i} ({ch}) is not the attribute that stores parameter '{p}' {pmap.get(p)}")
                    elif isinstance(a, ast.Call) and chain(a.func) and chain(a.func).startswith("self."):
                        # derived value (flags): recomputed by a method; its bijection is C01.R1
                        pass
                    else:
                        problems.append(f"argument {i} is {src(a)}")
                # required parameters all present
                c, init = repo.method(cls.name, init_name)
                nreq = len(ps) - len(init.args.defaults)
                if len(args.elts) < nreq:
                    problems.append("required constructor parameters missing")
                if len(args.elts) < len(ps):
                    problems.append(f"parameters {ps[len(args.elts):]} are not restored (defaults would be used)")
            report.ob("C06.R5", f"{cls.name}.__reduce__", not problems, facts={"args": [src(a) for a in args.elts], "constructor": ps, "stored_in": pmap, "problems": problems},
                      expected="(Class, (attribute storing parameter 1, attribute storing parameter 2, ...))", loc=repo.loc(fn), why="; ".join(problems[:2]))
        if "__getstate__" in cls.methods and "__setstate__" in cls.methods:
            n += 1
            gs, ss = cls.methods["__getstate__"], cls.methods["__setstate__"]
            rets = [x for x in ast.walk(gs) if isinstance(x, ast.Return)]
            init_calls = [x for x in calls(ss) if chain(x.func) == "self.__init__"]
            ps, pmap = _param_attr_map(repo, cls.name, "__init__")
            ok = len(rets) == 1 and len(init_calls) == 1
            facts = {"getstate": src(rets[0].value) if rets else None, "setstate": src(init_calls[0]) if init_calls else None}
            if ok and isinstance(rets[0].value, ast.Tuple):
                elts = rets[0].value.elts
                unp = [x for x in ast.walk(ss) if isinstance(x, ast.Assign) and isinstance(x.targets[0], ast.Tuple)]
                names = [e.id for e in unp[0].targets[0].elts] if unp else []
                call_args = [src(a) for a in init_calls[0].args] + ["**" + src(k.value) for k in init_calls[0].keywords if k.arg is None]
                explicit = len(ps or [])
                restored_positionally = sum(1 for a_ in call_args if not a_.startswith("**"))
                if explicit != restored_positionally:
                    facts["constructor_parameters"] = ps
                    facts["problem"] = f"__init__ names {explicit} parameter(s) {ps} but __setstate__ restores {restored_positionally} positionally: a named parameter is not part of **kwargs, so it is not in the pickled state and gets its default in the worker"
                ok = explicit == restored_positionally and len(names) == len(elts) and call_args == [names[0]] + ["**" + nm for nm in names[1:]] and all((chain(e) or "")[5:] in pmap.get(p, []) or True for e, p in zip(elts, ps or []))
                c2, init = repo.method(cls.name, "__init__")
                kw = init.args.kwarg.arg if init.args.kwarg else None
                st = {chain(t): src(x.value) for x in ast.walk(init) if isinstance(x, ast.Assign) for t in x.targets if chain(t)}
                ok = ok and [st.get(chain(e)) for e in elts] == [params(init)[1]] + ([kw] if kw else [])
                facts["stored"] = {chain(e): st.get(chain(e)) for e in elts}
            elif ok:
                # state-less proxy: __setstate__ re-runs __init__() without arguments
                ok = not init_calls[0].args and not init_calls[0].keywords and len(params(cls.methods["__init__"])) == 1
            report.ob("C06.R5", f"{cls.name}.__getstate__/__setstate__", ok, facts=facts, expected="the state is exactly the constructor's arguments; __setstate__ re-runs __init__ with them", loc=repo.loc(gs))
    report.floor("C06.R5", "classes with custom pickling", n, 5)


def r4_statistics_slots(repo, report):
    """Statistics.__iadd__ merges the per-read lists (index 0 = R1, 1 = R2) in one loop.  Both slots must be merged for
    every pair of objects, and inside the loop every per-read list is addressed with the loop variable."""
    from ..repo import expand
    c, fn = repo.need_method("Statistics", "__iadd__")
    loops = [n for n in ast.walk(fn) if isinstance(n, ast.For) and isinstance(n.target, ast.Name) and any(isinstance(x, ast.Subscript) and isinstance(x.slice, ast.Name) and x.slice.id == n.target.id and (chain(x.value) or "").startswith(("self.", "other."))
                                                                                                     for x in ast.walk(n))]
    outer = [l for l in loops if not any(l is not o and any(x is l for x in ast.walk(o)) for o in loops)]
    if len(outer) != 1:
        raise Unrecognised("Statistics.__iadd__: the one loop over the read index not found", repo.loc(fn))
    lp = outer[0]
    i = lp.target.id
    it = expand(fn, lp.iter)
    vals = None
    if isinstance(it, (ast.Tuple, ast.List)) and all(isinstance(e, ast.Constant) for e in it.elts):
        vals = sorted(e.value for e in it.elts)
    elif isinstance(it, ast.Call) and chain(it.func) == "range" and len(it.args) == 1 and isinstance(it.args[0], ast.Constant):
        vals = list(range(it.args[0].value))
    if vals is not None:
        report.ob("C06.R4", "Statistics.__iadd__ merges both per-read slots", vals == [0, 1], facts={"indices": vals}, expected="for i in (0, 1)", loc=repo.loc(lp),
                  why="" if vals == [0, 1] else "the statistics of one of the two reads are not merged")
    else:
        adoption = [n for n in ast.walk(fn) if isinstance(n, ast.Assign) and chain(n.targets[0]) == "self.paired"]
        defs = [n for n in ast.walk(fn) if isinstance(n, ast.Assign) and isinstance(lp.iter, ast.Name) and chain(n.targets[0]) == lp.iter.id]
        text = src(it)
        if "self.paired" in text and adoption and (not defs or defs[0].lineno < adoption[0].lineno):
            report.ob("C06.R4", "Statistics.__iadd__ merges both per-read slots", False, facts={"indices": text}, expected="for i in (0, 1)", loc=repo.loc(lp),
                      why=f"the read indices are {text}, decided before self.paired is adopted from the other object: merging into a fresh Statistics (paired is None) drops the second read's tallies")
        else:
            report.unrecognised("C06.R4", "Statistics.__iadd__ merges both per-read slots", f"read indices {text} are not a constant", repo.loc(lp))
    # every merge step of an iteration runs: nothing in the body jumps to the next read index
    from ..repo import walk_no_nested
    jumps = []
    def _jumps(stmts):
        for st_ in stmts:
            if isinstance(st_, (ast.Continue, ast.Break)):
                jumps.append(st_.lineno)
            elif isinstance(st_, ast.If):
                _jumps(st_.body); _jumps(st_.orelse)
            elif isinstance(st_, (ast.With, ast.Try)):
                _jumps(getattr(st_, "body", []))
    _jumps(lp.body)
    report.ob("C06.R4", "Statistics.__iadd__: no merge step of a read index is skipped", not jumps, facts={"continue_or_break_at_lines": jumps}, loc=repo.loc(lp),
              expected="the body of the loop over the read index has no continue/break of its own (each tally is merged under its own condition)",
              why=(f"a continue/break at line {jumps[0]} ends the iteration early: the tallies merged further down (quality-trimmed bases, poly-A lengths, ...) are skipped whenever that condition holds, e.g. for a read end without adapters" if jumps else ""))
    # inside the loop: lists that are indexed with i anywhere are per-read lists; none of them may be indexed with a constant
    per_read = {chain(x.value) for x in ast.walk(lp) if isinstance(x, ast.Subscript) and isinstance(x.slice, ast.Name) and x.slice.id == i and chain(x.value)}
    const_idx = sorted({src(x) for x in ast.walk(lp) if isinstance(x, ast.Subscript) and isinstance(x.slice, ast.Constant) and isinstance(x.slice.value, int) and chain(x.value) in per_read})
    report.ob("C06.R4", "Statistics.__iadd__: per-read lists are addressed with the loop index", not const_idx and len(per_read) >= 5, facts={"per_read_lists": sorted(per_read), "constant_subscripts": const_idx},
              expected=f"inside 'for {i} in (0, 1)' every per-read list is subscripted with {i}", loc=repo.loc(lp),
              why=(f"{const_idx[0]} inside the loop over the read index: the bound/tally of one read is used for the other (R2 adapters beyond the number of R1 adapters are not merged)" if const_idx else ""))


def r2_unbounded_payloads(repo, report):
    """What a worker sends back for one chunk may be LARGER than the chunk it read (interleaved output of two files, info
    file rows, names extended by -x/-y/--rename).  recv_bytes(maxlength) raises OSError('bad message length') for a larger
    message, so every byte payload is received without a size limit."""
    mod = repo.module("runners")
    cs = [x for x in ast.walk(mod.tree) if isinstance(x, ast.Call) and isinstance(x.func, ast.Attribute) and x.func.attr == "recv_bytes"]
    limited = [f"line {x.lineno}: {src(x)[:80]}" for x in cs if x.args or x.keywords]
    report.ob("C06.R2", "byte payloads are received without a size limit", len(cs) >= 2 and not limited, facts={"recv_bytes_calls": len(cs), "with_limit": limited}, loc="src/cutadapt/runners.py",
              expected="connection.recv_bytes() without maxlength in the reader->worker and worker->main protocol",
              why=(f"{limited[0]}: a processed chunk larger than that limit (info file, interleaved output, longer names) aborts the multi-core run with 'bad message length' where one core succeeds" if limited else ""))
