"""C16 - --revcomp keeps the orientation that matches strictly better."""
from __future__ import annotations

import ast

from ..absint import Const, Obj, Tup, explore, vkey
from ..core import Unrecognised
from ..lin import Lin
from ..repo import chain, params, src, strip_docstring
from ..tables import Bool, Sign, check_table, SKIP


def _hook(ex, node, env):
    """match_and_trim(X) -> (TRIM[cutter](X), MATCHES[cutter](X)); X.reverse_complement() -> RC(X)"""
    f = node.func
    if isinstance(f, ast.Attribute) and f.attr == "match_and_trim" and len(node.args) == 1:
        recv = vkey(ex.ev(f.value, env))
        x = vkey(ex.ev(node.args[0], env))
        ex.calls.append((f"{recv}.match_and_trim({x})", node, f"{recv}.match_and_trim"))
        tag = recv.replace("self.", "")
        return Tup([Obj(f"TRIM[{tag}]({x})", nonnull=True), Obj(f"MATCHES[{tag}]({x})", nonnull=True)])
    if isinstance(f, ast.Attribute) and f.attr == "reverse_complement" and not node.args:
        x = vkey(ex.ev(f.value, env))
        return Obj(f"RC({x})", nonnull=True)
    return None


def _score(tag, x):
    return Lin.atom(f"sum([each(MATCHES[{tag}]({x})).score])")


def run(repo, report, tier):
    report.rule("C16.R1", "the reverse complement (the swapped pair) is used iff it has at least one match and its summed score is strictly greater",
                "equal scores flip the read, or a match-free reverse complement wins against a forward match with negative score (AssertionError today)")
    report.rule("C16.R2", "both orientations are trimmed independently: match_and_trim on the read and on its reverse complement (paired: cutter 1 on R2 and cutter 2 on R1), neither result feeding the other",
                "the 'without --revcomp' result is not what is returned when the forward orientation wins")
    report.rule("C16.R3", "on the chosen branch and only there: counter += 1, is_rc = True (else False), suffix appended iff configured, the reverse-complemented trimmed record returned; matches and statistics registered after the choice from the chosen list",
                "reads are flagged/counted as reverse-complemented that were not, or statistics describe the discarded orientation")
    report.guard("C16.R1", "ReverseComplementer.__call__", single, repo, report)
    report.guard("C16.R1", "PairedReverseComplementer.__call__", paired, repo, report)
    report.guard("C16.R3", "rc suffix / info file", plumbing, repo, report)


def _call_args(text):
    """top-level arguments of the outermost call in a rendered call  f(a, g(b, c))  ->  ['a', 'g(b, c)']"""
    i = text.rfind(")")
    depth = 0
    j = i
    while j >= 0:
        if text[j] == ")":
            depth += 1
        elif text[j] == "(":
            depth -= 1
            if depth == 0:
                break
        j -= 1
    inner = text[j + 1:i]
    out, depth, cur = [], 0, ""
    for ch in inner:
        if ch in "([{":
            depth += 1
        elif ch in ")]}":
            depth -= 1
        if ch == "," and depth == 0:
            out.append(cur.strip())
            cur = ""
        else:
            cur += ch
    if cur.strip():
        out.append(cur.strip())
    return out


def _add_match_tallies(repo):
    """problems of the add_match methods as keepers of the per-adapter orientation tally: each concrete add_match takes the
    orientation as its second argument and adds it to self.reverse_complemented as an unconditional statement"""
    out = []
    n = 0
    for cls in repo.subclasses("AdapterStatistics"):
        fn = cls.methods.get("add_match")
        if fn is None:
            continue
        body = strip_docstring(fn.body)
        if not body or all(isinstance(s_, ast.Pass) for s_ in body):
            continue
        n += 1
        ps = params(fn)
        if len(ps) < 3:
            out.append(f"{cls.name}.add_match takes no orientation")
            continue
        top = [s_ for s_ in body if isinstance(s_, ast.AugAssign) and isinstance(s_.op, ast.Add) and chain(s_.target) == "self.reverse_complemented" and src(s_.value) in (ps[2], f"bool({ps[2]})", f"int({ps[2]})")]
        if len(top) != 1:
            nested = [s_ for s_ in ast.walk(fn) if isinstance(s_, ast.AugAssign) and chain(s_.target) == "self.reverse_complemented"]
            out.append(f"{cls.name}.add_match: self.reverse_complemented += {ps[2]} is " + ("conditional (some matches are not counted)" if nested else "missing"))
    if n < 4:
        out.append(f"only {n} add_match implementations found")
    return out


def single(repo, report):
    cls = repo.cls("ReverseComplementer")
    c, fn = repo.need_method("ReverseComplementer", "__call__")
    ps = params(fn)
    R, I = ps[1], ps[2]
    env = {"self": Obj("self", nonnull=True), R: Obj("READ", nonnull=True), I: Obj("INFO", nonnull=True)}
    rows = explore(repo, strip_docstring(fn.body), env, call_hook=_hook, inline=False)
    report.saw(function="ReverseComplementer.__call__", file=cls.module.relpath, valuations=len(rows))
    tag = "adapter_cutter"
    fw, rc = "READ", "RC(READ)"
    roles = {
        "d": Sign(_score(tag, rc) - _score(tag, fw)),
        "rc_has": Bool(f"truthy:MATCHES[{tag}]({rc})"),
        "fw_has": Bool(f"truthy:MATCHES[{tag}]({fw})"),
        "suffix": Bool("truthy:self._suffix"),
    }

    def outcome(r):
        if r.exit[0] == "raise":
            return "raise"
        rcflag = [e[2] for e in r.effects if e[0] == "store" and e[1] == "INFO.is_rc"]
        return {"True": "rc", "False": "fw"}.get(rcflag[-1] if rcflag else None, f"is_rc:{rcflag}")

    def exp(rv):
        return "rc" if (rv["d"] > 0 and rv["rc_has"]) else "fw"

    odd = sorted({k for r in rows for k in r.valuation if k.startswith("sign:") and ".score" in k and k != roles["d"].key})
    if odd:
        mism, n = [{"inputs": {}, "code": f"compares {odd[0][5:]} with 0", "expected": f"compares {roles['d'].key[5:]} with 0 (reverse score - forward score)"}], len(rows)
    else:
        try:
            mism, n, _ = check_table(rows, roles, exp, outcome)
        except Unrecognised as u:
            # the decision depends on something the rule does not know: still report what IS known (R2, R3) below
            report.unrecognised("C16.R1", "ReverseComplementer.__call__", u.what, repo.loc(fn))
            mism, n = None, 0
    if mism is not None:
      report.ob("C16.R1", "ReverseComplementer.__call__", not mism, facts={"rows": len(rows), "mismatches": mism[:4]}, expected="reverse complement iff it has a match and reverse score > forward score",
                loc=repo.loc(fn), cases=n, fact_key="needs-nonempty" if mism and all(m["code"] == "raise" for m in mism) else None,
                why=(f"for {mism[0]['inputs']} the code does '{mism[0]['code']}', the rule says '{mism[0]['expected']}'" if mism else ""))
    # R2 independence
    mt = sorted({c[0] for r in rows for c in r.calls if c[2].endswith(".match_and_trim")})
    ok = mt == sorted([f"self.adapter_cutter.match_and_trim({fw})", f"self.adapter_cutter.match_and_trim({rc})"])
    # ... and on EVERY path both orientations are searched (no shortcut decides before the other orientation was seen)
    partial = [r.describe()["valuation"] for r in rows if r.exit[0] != "raise" and len({c[0] for c in r.calls if c[2].endswith(".match_and_trim")}) != 2]
    ok = ok and not partial
    report.ob("C16.R2", "ReverseComplementer.__call__", ok, facts={"match_and_trim_calls": mt}, expected=[f"match_and_trim({fw})", f"match_and_trim({rc})"], loc=repo.loc(fn))
    # R3 consequences
    bad = []
    for r in rows:
        o = outcome(r)
        if o == "raise":
            continue
        ctr = [e for e in r.effects if e[0] == "aug" and e[1] == "self.reverse_complemented"]
        ret = vkey(r.exit[1]) if r.exit[0] == "return" else r.exit[0]
        sfx = [e for e in r.effects if e[0] == "aug" and e[1].endswith(".name")]
        chosen = rc if o == "rc" else fw
        ext = [e[2] for e in r.effects if e[0] == "call" and e[1] == "INFO.matches.extend"]
        wa = [e for e in r.effects if e[0] == "aug" and e[1].endswith(".with_adapters")]
        has = r.valuation.get(f"truthy:MATCHES[{tag}]({chosen})")
        adds = [e for e in r.effects if e[0] == "call" and e[1].endswith(".add_match")]
        rcs = [e for e in r.effects if e[0] == "aug" and e[1].endswith(".reverse_complemented") and e[1] != "self.reverse_complemented"]
        if o == "rc":
            if len(ctr) != 1 or ctr[0][2] != "+1" or ctr[0][4]:
                bad.append(("counter", r.describe()))
            if ret != f"TRIM[{tag}]({rc})":
                bad.append(("return", ret))
            want_sfx = r.valuation.get("truthy:self._suffix")
            if bool(sfx) != bool(want_sfx) or (sfx and (sfx[0][1] != f"TRIM[{tag}]({rc}).name" or sfx[0][2] != "+self._suffix")):
                bad.append(("suffix", [e[:3] for e in sfx]))
        else:
            if ctr or sfx:
                bad.append(("forward branch has rc effects", r.describe()))
            if ret != f"TRIM[{tag}]({fw})":
                bad.append(("return", ret))
        if has is True:
            if len(wa) != 1 or wa[0][2] != "+1":
                bad.append(("with_adapters", [e[:3] for e in wa]))
            if ext != [f"INFO.matches.extend(MATCHES[{tag}]({chosen}))"]:
                bad.append(("info.matches", ext))
            if not adds or not all(f"each(MATCHES[{tag}]({chosen}))" in e[2] or f"item(MATCHES[{tag}]({chosen}))" in e[2] for e in adds):
                bad.append(("add_match", [e[2] for e in adds]))
            if rcs and not all(("True" if o == "rc" else "False") in e[2] or "bool(" in e[2] or e[2] in ("+1", "+0") for e in rcs):
                bad.append(("per-adapter rc", [e[2] for e in rcs]))
            if not rcs:
                # the tally is not kept here: then it is kept by add_match, which must be told the orientation and count it
                # for every match it is given
                told = bool(adds) and all(len(_call_args(e[2])) >= 2 for e in adds)
                inside = _add_match_tallies(repo)
                if not told or inside:
                    bad.append(("the per-adapter reverse-complement tally is not updated once per registered match", inside[:2] if told else "add_match is not told the orientation and nothing else counts it"))
            # the per-adapter orientation tally is updated with every registered match (same loop, same statistics object)
            if rcs and ([bool(e[4]) for e in rcs] != [bool(e[4]) for e in adds] or [e[1].rsplit(".", 1)[0] for e in rcs] != [e[1].rsplit(".", 1)[0] for e in adds]):
                bad.append(("the per-adapter reverse-complement tally is not updated once per registered match", [(e[1], bool(e[4])) for e in rcs], [(e[1], bool(e[4])) for e in adds]))
        elif has is False:
            if wa or adds:
                bad.append(("registered without match", r.describe()))
    report.ob("C16.R3", "ReverseComplementer.__call__", not bad, facts={"problems": [str(b)[:300] for b in bad[:3]]}, expected="rc branch: counter+1, suffix iff configured, returns the trimmed reverse complement; matches of the chosen orientation registered once",
              loc=repo.loc(fn), cases=len(rows), why=str(bad[0])[:200] if bad else "")


def paired(repo, report):
    cls = repo.cls("PairedReverseComplementer")
    c, fn = repo.need_method("PairedReverseComplementer", "__call__")
    ps = params(fn)
    r1, r2, i1, i2 = ps[1:5]
    env = {"self": Obj("self", nonnull=True), r1: Obj("R1", nonnull=True), r2: Obj("R2", nonnull=True), i1: Obj("I1", nonnull=True), i2: Obj("I2", nonnull=True)}
    rows = explore(repo, strip_docstring(fn.body), env, call_hook=_hook, inline=False, max_rows=40000)
    report.saw(function="PairedReverseComplementer.__call__", file=cls.module.relpath, valuations=len(rows))
    c1, c2 = "adapter_cutter1", "adapter_cutter2"

    def total(x1, x2, n1, n2):
        t = Lin.k(0)
        if not n1:
            t = t + _score(c1, x1)
        if not n2:
            t = t + _score(c2, x2)
        return t

    bad_tbl = []
    n_cases = 0
    for n1 in (False, True):
        for n2 in (False, True):
            sub = [r for r in rows if r.valuation.get("isnone:self.adapter_cutter1") == n1 and r.valuation.get("isnone:self.adapter_cutter2") == n2]
            if not sub:
                raise Unrecognised(f"no path for cutter1 None={n1}, cutter2 None={n2}", repo.loc(fn))
            if n1 and n2:
                continue  # the builder never creates the modifier without any cutter
            d = total("R2", "R1", n1, n2) - total("R1", "R2", n1, n2)
            roles = {"d": Sign(d)}
            if not n1:
                roles["sw1"] = Bool(f"truthy:MATCHES[{c1}](R2)")
            if not n2:
                roles["sw2"] = Bool(f"truthy:MATCHES[{c2}](R1)")

            def outcome(r):
                if r.exit[0] == "raise":
                    return "raise"
                f1 = [e[2] for e in r.effects if e[0] == "store" and e[1] == "I1.is_rc"]
                f2 = [e[2] for e in r.effects if e[0] == "store" and e[1] == "I2.is_rc"]
                if not f1 or not f2 or f1[-1] != f2[-1]:
                    return f"is_rc:{f1}/{f2}"
                return "swapped" if f1[-1] == "True" else "unswapped"

            def exp(rv):
                has = rv.get("sw1", False) or rv.get("sw2", False)
                return "swapped" if rv["d"] > 0 and has else "unswapped"

            ign = [k for r in sub for k in r.valuation]
            # the decision must compare the two TOTAL scores: any other comparison of score sums is a wrong decision
            # quantity (a recognised construct with a wrong fact), not an unknown shape
            odd = sorted({k for r in sub for k in r.valuation if k.startswith("sign:") and ".score" in k and k != roles["d"].key})
            if odd:
                bad_tbl.append({"inputs": {"cutter1_none": n1, "cutter2_none": n2}, "code": f"compares {odd[0][5:]} with 0", "expected": f"compares {roles['d'].key[5:]} with 0 (swapped total - unswapped total)"})
                continue
            try:
                mism, n, _ = check_table(sub, roles, exp, outcome)
            except Unrecognised as u:
                report.unrecognised("C16.R1", f"PairedReverseComplementer.__call__ (cutter1 None={n1}, cutter2 None={n2})", u.what, repo.loc(fn))
                continue
            n_cases += n
            for m in mism:
                m["cutters"] = {"cutter1_none": n1, "cutter2_none": n2}
                bad_tbl.append(m)
    report.ob("C16.R1", "PairedReverseComplementer.__call__", not bad_tbl, facts={"rows": len(rows), "mismatches": bad_tbl[:4]}, expected="swapped pair iff it has a match and swapped score > unswapped score",
              loc=repo.loc(fn), cases=n_cases, fact_key="needs-nonempty" if bad_tbl and all(m["expected"] == "unswapped" and m["inputs"].get("d") == ">" for m in bad_tbl) else None,
              why=(f"for {bad_tbl[0]['inputs']} the code chooses '{bad_tbl[0]['code']}', the rule says '{bad_tbl[0]['expected']}'" if bad_tbl else ""))
    # R2: which cutter sees which read
    mt = sorted({c[0] for r in rows for c in r.calls if c[2].endswith(".match_and_trim")})
    want = sorted([f"self.{c1}.match_and_trim(R1)", f"self.{c2}.match_and_trim(R2)", f"self.{c1}.match_and_trim(R2)", f"self.{c2}.match_and_trim(R1)"])
    report.ob("C16.R2", "PairedReverseComplementer.__call__", mt == want, facts={"match_and_trim_calls": mt}, expected=want, loc=repo.loc(fn))
    # R3: consequences per path
    bad = []
    for r in rows:
        n1 = r.valuation.get("isnone:self.adapter_cutter1")
        n2 = r.valuation.get("isnone:self.adapter_cutter2")
        if n1 and n2 or r.exit[0] == "raise":
            continue
        f1 = [e[2] for e in r.effects if e[0] == "store" and e[1] == "I1.is_rc"]
        sw = bool(f1) and f1[-1] == "True"
        ctr = [e for e in r.effects if e[0] == "aug" and e[1] == "self.reverse_complemented"]
        ret = vkey(r.exit[1]) if r.exit[0] == "return" else r.exit[0]
        x1, x2 = ("R2", "R1") if sw else ("R1", "R2")
        t1 = x1 if n1 else f"TRIM[{c1}]({x1})"
        t2 = x2 if n2 else f"TRIM[{c2}]({x2})"
        if ret != f"({t1}, {t2})":
            bad.append(("return", ret, f"expected ({t1}, {t2})", sw))
        if sw != (len(ctr) == 1 and ctr[0][2] == "+1"):
            bad.append(("counter", sw, [e[:3] for e in ctr]))
        sfx = sorted(e[1] for e in r.effects if e[0] == "aug" and e[1].endswith(".name"))
        want_sfx = sorted([f"{t1}.name", f"{t2}.name"]) if (sw and r.valuation.get("truthy:self._suffix")) else []
        if sfx != want_sfx:
            bad.append(("suffix", sfx, want_sfx))
        # matches registered from the chosen orientation, on the right info / cutter
        for (cn, x, info, isnone) in ((c1, x1, "I1", n1), (c2, x2, "I2", n2)):
            ext = [e[2] for e in r.effects if e[0] == "call" and e[1] == f"{info}.matches.extend"]
            if isnone:
                if ext:
                    bad.append(("extend without cutter", ext))
                continue
            has = r.valuation.get(f"truthy:MATCHES[{cn}]({x})")
            wa = [e for e in r.effects if e[0] == "aug" and e[1] == f"self.{cn}.with_adapters"]
            adds = [e[2] for e in r.effects if e[0] == "call" and e[1].endswith(".add_match") and f"self.{cn}." in e[1]]
            if has is True:
                if ext != [f"{info}.matches.extend(MATCHES[{cn}]({x}))"]:
                    bad.append(("info.matches", info, ext, f"expected MATCHES[{cn}]({x})"))
                if len(wa) != 1 or wa[0][2] != "+1":
                    bad.append(("with_adapters", cn, [e[:3] for e in wa]))
                if not adds or not all(f"MATCHES[{cn}]({x})" in a for a in adds):
                    bad.append(("add_match", cn, adds))
                rcs = [e for e in r.effects if e[0] == "aug" and e[1].endswith(".reverse_complemented") and e[1] != "self.reverse_complemented" and f"self.{cn}." in e[1]]
                if not rcs:
                    told = bool(adds) and all(len(_call_args(a)) >= 2 for a in adds)
                    inside = _add_match_tallies(repo)
                    if not told or inside:
                        bad.append(("the per-adapter reverse-complement tally is not updated once per registered match", cn, inside[:2] if told else "add_match is not told the orientation and nothing else counts it"))
            elif has is False and (ext or wa or adds):
                bad.append(("registered without match", cn))
            elif has is None and (ext or wa):
                bad.append(("registration does not depend on the chosen list", cn, ext))
            elif has is None and r.exit[0] == "return":
                # the path ends without ever asking whether this mate had matches: they cannot have been registered
                bad.append((f"the matches of {cn} are not looked at on a path that returns", r.describe()["valuation"]))
    report.ob("C16.R3", "PairedReverseComplementer.__call__", not bad, facts={"paths": len(rows), "problems": [str(b)[:300] for b in bad[:3]]},
              expected="swapped: counter+1, is_rc True on both infos, suffix on both names iff configured, returns (cutter1 on R2, cutter2 on R1); matches of the chosen orientation registered on their own info/cutter",
              loc=repo.loc(fn), cases=len(rows), why=str(bad[0])[:240] if bad else "")


def plumbing(repo, report):
    # rc_suffix is " rc" iff --rename is absent: from the builder model
    from . import builder_rules

    for pm in (False, True):
        m = builder_rules.model(repo, pm)
        seen = {}
        for bi, ri, pos, val, s in m.slots("modifiers"):
            if "ReverseComplementer(" in s.key:
                rn = val.get("truthy:args.rename")
                rcs = builder_rules.term_args(repo, s.key).get("rc_suffix")
                sfx = rcs == "' rc'"
                none = rcs == "None"
                seen[(rn, sfx, none)] = s.key[:80]
        ok = bool(seen) and all((rn is False and sfx) or (rn is True and none) for (rn, sfx, none) in seen)
        report.ob("C16.R3", f"{'paired' if pm else 'single'}: ' rc' suffix iff --rename absent", ok, facts={"cases": {str(k): v for k, v in seen.items()}}, expected="rc_suffix=' rc' iff not args.rename, else None", loc="src/cutadapt/cli.py")
    # {rc} renders from info.is_rc
    c, f = repo.need_method("Renamer", "compile_rename_function")
    code = [n for n in ast.walk(f) if isinstance(n, ast.Dict)]
    ok = False
    facts = {}
    for d in code:
        for k, v in zip(d.keys, d.values):
            if isinstance(k, ast.Constant) and k.value == "rc" and isinstance(v, ast.Constant):
                facts["rc"] = v.value
                try:
                    e = ast.parse(v.value, mode="eval").body
                    ok = isinstance(e, ast.IfExp) and src(e.test) == "info.is_rc" and src(e.body) == "'rc'" and src(e.orelse) == "''"
                except SyntaxError:
                    ok = False
    report.ob("C16.R3", "Renamer {rc}", ok, facts=facts, expected="'rc' if info.is_rc else ''", loc=repo.loc(f))
    # info file: reverse complement iff is_rc
    c, f = repo.need_method("InfoFileWriter", "__call__")
    ifs = [n for n in ast.walk(f) if isinstance(n, ast.If) and src(n.test) == "info.is_rc"]
    ok = len(ifs) == 1 and len(ifs[0].body) == 1 and isinstance(ifs[0].body[0], ast.Assign) and src(ifs[0].body[0].value).endswith(".reverse_complement()") and not ifs[0].orelse
    report.ob("C16.R3", "InfoFileWriter uses the chosen orientation", ok, facts={"if": src(ifs[0])[:160] if ifs else None}, expected="if info.is_rc: current_read = current_read.reverse_complement()", loc=repo.loc(f))
