"""C12 - Broken input makes the run fail visibly (error discipline, the statically visible part)."""
from __future__ import annotations

import ast
import re

from ..absint import Const, Obj, Tup, explore, vkey
from ..core import Unrecognised, Report
from ..repo import chain, params, src, strip_docstring, calls, qualname, walk_no_nested
from ..localroles import rename, discover, by_roles, cli_main, name_of, unique, calls_to, assigned_names

INPUT_ERRORS = ["OSError", "EOFError", "dnaio.UnknownFileFormat", "dnaio.FileFormatError"]
# class -> superclasses that a handler may name to catch it
SUPER = {
    "OSError": ["OSError", "Exception", "BaseException"],
    "EOFError": ["EOFError", "Exception", "BaseException"],
    "dnaio.UnknownFileFormat": ["dnaio.UnknownFileFormat", "UnknownFileFormat", "dnaio.exceptions.UnknownFileFormat", "Exception", "BaseException"],
    "dnaio.FileFormatError": ["dnaio.FileFormatError", "FileFormatError", "dnaio.exceptions.FileFormatError", "Exception", "BaseException"],
    "HasNoQualities": ["HasNoQualities", "Exception", "BaseException"],
    "CommandLineError": ["CommandLineError", "Exception", "BaseException"],
}
BROAD = {"Exception", "BaseException", "OSError", "EOFError", "IOError", "EnvironmentError", "dnaio.FileFormatError", "dnaio.UnknownFileFormat", "FileFormatError", "UnknownFileFormat"}
FROZEN_EXEMPT = {
    "open_raise_limit": "retries once after raising the open-files limit and re-raises everything else",
    "available_cpu_count": "os.sched_getaffinity is unavailable on some platforms; unrelated to input",
    "_sendable": "catches the failure of a TRIAL pickling of an error that is being forwarded; returns an exception object carrying the original message either way (shape checked by frames.is_pickle_guard)",
}


def run(repo, report, tier):
    report.rule("C12.R1", "total handlers: in WorkerProcess.run and ReaderProcess.run all work lies inside a try whose 'except Exception' sends header -2 and then (e, traceback) on every outgoing connection; the reader's inner handler does the same on the format channel and re-raises; poison pills (-1) are sent only on the success path",
                "an exception in a child process is never reported: the main process waits forever, or the run ends with status 0 and shortened output")
    report.rule("C12.R2", "sentinels are honoured: the worker tests -2 before reading chunks and re-raises; the main loop reads every header through _try_receive, which terminates all children before raising (= C06.R1)",
                "a forwarded error is read as data")
    report.rule("C12.R3", "exit status: the first handler in main() that catches an input-error class (OSError, EOFError, dnaio.UnknownFileFormat, dnaio.FileFormatError) logs the error and ends in sys.exit(c) with c != 0 (2 for CommandLineError, else 1); outfiles.close() is in finally; no handler turns an exception into a normal return",
                "a broken input ends with exit status 0, or with a non-zero status but without any message")
    report.rule("C12.R4", "no swallowing: every 'except' in the package that can catch an input-error class re-raises, exits non-zero or forwards the -2 sentinel on every path (frozen exemptions with reason)",
                "a read error is silently dropped and the output is short")
    report.rule("C12.R5", "two input files are read by one paired reader: read_paired_chunks iff two files; all files go to one dnaio.open",
                "mates from files of different lengths are silently paired up wrongly")
    report.guard("C12.R1", "process run() methods", r1_total, repo, report)
    report.guard("C12.R2", "sentinels", r2_sentinels, repo, report)
    report.guard("C12.R2", "child processes are daemons", r2_daemons, repo, report)
    report.guard("C12.R2", "no wait for a child on the error path", r2_no_join_in_cleanup, repo, report)
    report.guard("C12.R3", "main", r3_exit, repo, report)
    report.guard("C12.R3", "logging configuration", r3_logging, repo, report)
    report.guard("C12.R3", "quality characters are validated", r3_quality_validation, repo, report)
    report.guard("C12.R4", "package sweep", r4_sweep, repo, report)
    report.guard("C12.R5", "paired reader", r5_paired, repo, report)
    report.trust("dnaio raises FileFormatError (incl. FASTA/FASTQ subclasses), UnknownFileFormat, EOFError or OSError for malformed / truncated input (dnaio 1.2.4 exceptions.py, readers)")
    report.notes.append("Not decided: termination under every schedule and fault position (liveness; model-checking family), completeness of records written before the error, library behaviour on truncated streams.")


def _handler_sends_error(h, conn_pred, repo=None, exc_name="e"):
    """(-2, then a 2-tuple whose first element stands for the caught exception) on one connection; returns (ok, sends, kinds)"""
    from .frames import error_payload
    cs = [x for x in calls(h) if isinstance(x.func, ast.Attribute) and x.func.attr == "send" and x.args]
    sends = [(chain(x.func), src(x.args[0])) for x in cs]
    if len(sends) != 2:
        return False, sends
    kind = error_payload(repo, "runners", cs[1].args[0], exc_name) if repo is not None else ("raw" if sends[1][1].startswith(f"({exc_name},") else None)
    _PAYLOAD_KINDS.append((sends[1][0], kind, cs[1]))
    ok = sends[0][1] == "-2" and kind is not None and sends[0][0] == sends[1][0] and conn_pred(sends[0][0])
    return ok, sends


_PAYLOAD_KINDS = []


def r1_total(repo, report):
    del _PAYLOAD_KINDS[:]
    # worker
    c, wrun = repo.need_method("WorkerProcess", "run")
    body = strip_docstring(wrun.body)
    ok = len(body) == 1 and isinstance(body[0], ast.Try) and len(body[0].handlers) == 1 and chain(body[0].handlers[0].type) == "Exception" and not body[0].finalbody
    facts = {"statements_outside_try": [src(s)[:60] for s in body if not isinstance(s, ast.Try)]}
    if ok:
        h = body[0].handlers[0]
        good, sends = _handler_sends_error(h, lambda c: c == "self._write_pipe.send", repo, h.name or "e")
        facts["handler_sends"] = sends
        ok = good and h.name == "e" and not any(isinstance(x, (ast.Return, ast.Continue, ast.Break)) for x in ast.walk(h))
    report.ob("C12.R1", "WorkerProcess.run", ok, facts=facts, expected="whole body in try; except Exception as e: send(-2); send((e, traceback)) on the write pipe", loc=repo.loc(wrun),
              why="" if ok else "work done outside the try, or the handler does not forward the error to the main process")
    # reader
    c, rrun = repo.need_method("ReaderProcess", "run")
    body = strip_docstring(rrun.body)
    tries = [s for s in body if isinstance(s, ast.Try)]
    pro = [s for s in body if not isinstance(s, ast.Try)]
    pro_ok = all(isinstance(s, ast.If) and "stdin" in src(s) for s in pro)
    ok = len(tries) == 1 and pro_ok and len(tries[0].handlers) == 1 and chain(tries[0].handlers[0].type) == "Exception" and not tries[0].finalbody and not tries[0].orelse
    facts = {"prologue": [src(s)[:60] for s in pro]}
    if ok:
        h = tries[0].handlers[0]
        loops = [n for n in h.body if isinstance(n, ast.For)]
        good = len(loops) == 1 and src(loops[0].iter) == "self.connections"
        if good:
            g2, sends = _handler_sends_error(loops[0], lambda c: c == f"{loops[0].target.id}.send", repo, h.name or "e")
            facts["outer_handler_sends"] = sends
            good = g2
        ok = good
    report.ob("C12.R1", "ReaderProcess.run outer handler", ok, facts=facts, expected="only the stdin re-opening precedes the try; except Exception as e: for connection in self.connections: send(-2); send((e, traceback))", loc=repo.loc(rrun))
    # inner handler: format channel, re-raise
    inner = [n for n in ast.walk(tries[0]) if isinstance(n, ast.Try) and n is not tries[0]] if tries else []
    ok = len(inner) == 1 and len(inner[0].handlers) == 1 and chain(inner[0].handlers[0].type) == "Exception"
    facts = {}
    if ok:
        h = inner[0].handlers[0]
        good, sends = _handler_sends_error(h, lambda c: c == "self._file_format_connection.send", repo, h.name or "e")
        facts["inner_handler_sends"] = sends
        reraises = any(isinstance(x, ast.Raise) and x.exc is None for x in h.body)
        covered = sorted({chain(x.func) for x in calls(ast.Module(body=inner[0].body, type_ignores=[])) if chain(x.func) in ("xopen_rb_raise_limit", "detect_file_format")})
        facts["covers"] = covered
        ok = good and reraises and covered == ["detect_file_format", "xopen_rb_raise_limit"]
        # the success message follows the inner try
        succ = [x for x in calls(rrun) if chain(x.func) == "self._file_format_connection.send" and src(x.args[0]) == "file_format"]
        ok = ok and len(succ) == 1 and succ[0].lineno > inner[0].lineno
    else:
        facts["inner_handlers"] = [src(h.type) if h.type is not None else "bare" for t in inner for h in t.handlers]
    report.ob("C12.R1", "ReaderProcess.run inner handler (format channel)", ok, facts=facts, expected="opening the files and detecting the format is covered by 'except Exception as e: send(-2); send((e, tb)); raise' on the format connection",
              loc=repo.loc(inner[0]) if inner else repo.loc(rrun), why="" if ok else "an exception class raised while opening/detecting is not forwarded on the format channel: the main process blocks on it forever")
    # a forwarding handler must not fail itself before it has forwarded: every local it reads is bound before the try starts
    for label, fn_, tr_ in (("WorkerProcess.run", wrun, strip_docstring(wrun.body)[0] if isinstance(strip_docstring(wrun.body)[0], ast.Try) else None),
                            ("ReaderProcess.run outer handler", rrun, tries[0] if tries else None),
                            ("ReaderProcess.run inner handler", rrun, inner[0] if inner else None)):
        if tr_ is None:
            continue
        for h in tr_.handlers:
            unbound = _maybe_unbound_in_handler(fn_, tr_, h)
            report.ob("C12.R1", f"{label}: the handler reads only variables bound before the try", not unbound, facts={"may_be_unbound": unbound},
                      expected="no local that is first assigned inside the try body (loop variables, results of calls that may raise) is read before the error has been forwarded", loc=repo.loc(h),
                      why=(f"'{unbound[0]}' is assigned only inside the try body; if the failure happens before that, the handler itself raises UnboundLocalError and the error is never forwarded (the other processes wait forever)" if unbound else ""))
    # poison pills only on the success path
    sh = [x for x in calls(rrun) if chain(x.func) == "self.shutdown"]
    ok = len(sh) == 1
    where = None
    if ok:
        st = sh[0]
        p = getattr(st, "_parent", None)
        chainp = []
        while p is not None and p is not rrun:
            chainp.append(p)
            p = getattr(p, "_parent", None)
        in_final = any(isinstance(t, ast.Try) and any(sh[0] in list(ast.walk(f)) for f in t.finalbody) for t in ast.walk(rrun) if isinstance(t, ast.Try))
        in_handler = any(isinstance(h, ast.ExceptHandler) for h in chainp)
        in_try_body = bool(tries) and any(sh[0] in list(ast.walk(s)) for s in tries[0].body)
        # it must come after the chunk loop
        loops = [n for n in ast.walk(tries[0]) if isinstance(n, ast.For) and "send_to_worker" in src(n)] if tries else []
        after = bool(loops) and sh[0].lineno > max(getattr(l, "end_lineno", l.lineno) for l in loops)
        where = {"in_finally": in_final, "in_handler": in_handler, "in_outer_try_body": in_try_body, "after_chunk_loop": after}
        ok = not in_final and not in_handler and in_try_body and after
    report.ob("C12.R1", "ReaderProcess.run: poison pills only after a complete read", ok, facts=where, expected="self.shutdown() is a statement of the outer try body after the chunk loop - not in a finally or handler",
              loc=repo.loc(sh[0]) if sh else repo.loc(rrun), why="" if ok else "on a reader error the workers would receive the end token before the error token: the run ends with status 0 and shortened output")


    # the object announced by -2 must arrive: a raw exception object cannot be pickled for every class (igzip_lib.IsalError
    # cannot); if the second send fails, the receiver has read -2 and waits for the tuple forever
    for conn, kind, node in list(_PAYLOAD_KINDS):
        report.ob("C12.R1", f"error payload on {conn[:-5]} can always be sent", kind in ("guarded", "text"), facts={"payload": src(node.args[0]), "kind": kind}, loc=repo.loc(node),
                  expected="(F(e), traceback) with F a pickling guard that falls back to a built-in exception carrying the message, or the error as text",
                  why="" if kind in ("guarded", "text") else "the exception object is sent as it is: an exception class that cannot be pickled (e.g. igzip_lib.IsalError from a damaged gzip header) makes this send fail after the -2 header went out, and the receiver hangs")
    report.floor("C12.R1", "error payload sites", len(_PAYLOAD_KINDS), 3)

def r2_sentinels(repo, report):
    from . import c06

    tmp = Report("C06", report.tier)
    c06.r1_frames(repo, tmp)
    n = 0
    for o in tmp.obligations:
        if o.rule == "C06.R1":
            n += 1
            report.ob("C12.R2", o.construct, None if o.state == "UNRECOGNISED" else o.state == "DISCHARGED", facts=o.facts, expected=o.expected, loc=o.loc, why=o.why, cases=o.cases)
    report.floor("C12.R2", "frame obligations", n, 8)
    # worker re-raises a reader error (so that it reaches the main process through its own handler)
    c, wrun = repo.need_method("WorkerProcess", "run")
    branches = [n for n in ast.walk(wrun) if isinstance(n, ast.If) and isinstance(n.test, ast.Compare) and src(n.test.comparators[0]) == "-2"]
    ok = len(branches) == 1 and any(isinstance(x, ast.Raise) and x.exc is not None for x in branches[0].body) and any(isinstance(x, ast.Assign) and isinstance(x.targets[0], ast.Tuple) and len(x.targets[0].elts) == 2 and src(x.value).endswith(".recv()") for x in branches[0].body)
    report.ob("C12.R2", "worker re-raises a forwarded reader error", ok, facts={"branch": src(branches[0])[:200] if branches else None}, expected="if chunk_index == -2: e, tb = recv(); raise e", loc=repo.loc(wrun))


def r3_exit(repo, report):
    fn = cli_main(repo)
    tries = [n for n in ast.walk(fn) if isinstance(n, ast.Try) and any("make_runner" in src(s) for s in n.body)]
    if len(tries) != 1:
        raise Unrecognised("main(): the try around make_runner/run not found", repo.loc(fn))
    t = tries[0]
    hs = t.handlers

    def names(h):
        if h.type is None:
            return ["BaseException"]
        return [chain(e) for e in (h.type.elts if isinstance(h.type, ast.Tuple) else [h.type])]

    def analyse(h):
        """(logs an error message first?, every path exits non-zero?, exit codes)"""
        env = {"e": Obj("E", nonnull=True), "args": Obj("args", nonnull=True)}
        rows = explore(repo, h.body, env, inline=False)
        all_exit, logs, codes = True, True, set()
        for r in rows:
            ex = [e for e in r.effects if e[0] == "call" and e[1] == "sys.exit"]
            if r.exit[0] == "raise":
                continue
            if not ex:
                all_exit = False
                continue
            code = ex[-1][2][len("sys.exit("):-1]
            codes.add(code)
            if code in ("0", "None", ""):
                all_exit = False
            lg = [i for i, e in enumerate(r.effects) if e[0] == "call" and e[1] in ("logger.error", "logger.critical", "logger.exception")]
            # the message is the exception itself (its str()), not fields of it that a particular subclass may lack:
            # an OSError built from a plain message (gzip.BadGzipFile) has strerror None and filename None
            if not lg or lg[0] > r.effects.index(ex[-1]) or not re.search(r"(?<![\w.])E(?![\w.(\[])", r.effects[lg[0]][2]):
                logs = False
        return logs, all_exit, sorted(codes), rows

    for cls in INPUT_ERRORS:
        first = None
        for h in hs:
            if any(nm in SUPER[cls] for nm in names(h)):
                first = h
                break
        if first is None:
            report.ob("C12.R3", f"main() handles {cls}", False, facts={"handlers": [names(h) for h in hs]}, expected=f"a handler for {cls}", loc=repo.loc(t), why=f"{cls} from a broken input propagates as a traceback")
            continue
        logs, exits, codes, rows = analyse(first)
        report.ob("C12.R3", f"main(): {cls} -> message and non-zero exit", logs and exits, facts={"handler": names(first), "logs_error_first": logs, "always_exits_nonzero": exits, "codes": codes},
                  expected="logger.error(e) precedes sys.exit(c), c != 0, on every path", loc=repo.loc(first), cases=len(rows),
                  why="" if (logs and exits) else f"the first handler that catches {cls} ends {'without a message' if not logs else 'without a non-zero exit'}")
    # exit code table of the reporting handler
    rep = [h for h in hs if "CommandLineError" in names(h)]
    if len(rep) == 1:
        env = {"e": Obj("E", nonnull=True), "args": Obj("args", nonnull=True)}
        rows = explore(repo, rep[0].body, env, inline=False)
        tbl = {}
        for r in rows:
            ex = [e for e in r.effects if e[0] == "call" and e[1] == "sys.exit"]
            tbl[str(r.valuation.get("isinstance:E:CommandLineError"))] = ex[-1][2] if ex else None
        ok = tbl == {"True": "sys.exit(2)", "False": "sys.exit(1)"}
        report.ob("C12.R3", "main(): exit code table", ok, facts=tbl, expected={"CommandLineError": 2, "else": 1}, loc=repo.loc(rep[0]), cases=len(rows))
    else:
        report.unrecognised("C12.R3", "main(): exit code table", "handler naming CommandLineError not found")
    # finally closes the output files
    fin = " ".join(src(s) for s in t.finalbody)
    report.ob("C12.R3", "main(): outfiles.close() in finally", "outfiles.close()" in fin, facts={"finally": fin[:160]}, expected="finally: outfiles.close()", loc=repo.loc(t))
    # no handler turns an exception into a normal return
    bad = []
    for h in hs:
        nm = names(h)
        if any(x in ("Exception", "BaseException") for x in nm):
            logs, exits, codes, rows = analyse(h)
            if not exits:
                bad.append(nm)
    report.ob("C12.R3", "main(): no broad handler swallows errors", not bad, facts={"broad_non_exiting_handlers": bad}, expected="no 'except Exception' that returns normally", loc=repo.loc(t))


def r4_sweep(repo, report):
    n = 0
    for m in repo.modules.values():
        for t in ast.walk(m.tree):
            if not isinstance(t, ast.Try):
                continue
            for h in t.handlers:
                nm = ["BARE"] if h.type is None else [chain(e) or src(e) for e in (h.type.elts if isinstance(h.type, ast.Tuple) else [h.type])]
                if not any(x in BROAD or x == "BARE" for x in nm):
                    continue
                n += 1
                q = qualname(t) or "<module>"
                fname = q.split(".")[-1]
                # endings of the handler body
                last_ok = True
                env = {h.name: Obj("E", nonnull=True)} if h.name else {}
                try:
                    rows = explore(repo, h.body, env, inline=False)
                except Unrecognised as u:
                    report.unrecognised("C12.R4", f"{q}: except {', '.join(nm)}", u.what, repo.loc(h, m))
                    continue
                endings = []
                loop_iters = {"truthy:" + src(l.iter) for l in ast.walk(ast.Module(body=h.body, type_ignores=[])) if isinstance(l, ast.For)}
                for r in rows:
                    if any(r.valuation.get(k) is False for k in loop_iters):
                        continue  # the iterated collection (e.g. the list of worker connections) is empty: nobody to notify
                    sent = any(e[0] == "call" and e[1].endswith(".send") and e[2].endswith("(-2)") for e in r.effects)
                    ex = [e for e in r.effects if e[0] == "call" and e[1] == "sys.exit"]
                    exits = bool(ex) and ex[-1][2] not in ("sys.exit(0)", "sys.exit()", "sys.exit(None)")
                    if r.exit[0] == "raise":
                        endings.append("raise")
                    elif sent:
                        endings.append("forwards -2")
                    elif exits:
                        endings.append("exits non-zero")
                    else:
                        endings.append("falls through")
                        last_ok = False
                if fname in FROZEN_EXEMPT:
                    report.ob("C12.R4", f"{q}: except {', '.join(nm)} (frozen exemption)", True, facts={"endings": sorted(set(endings)), "reason": FROZEN_EXEMPT[fname]}, expected="exempt with reason", loc=repo.loc(h, m))
                    continue
                report.ob("C12.R4", f"{q}: except {', '.join(nm)}", last_ok, facts={"endings": sorted(set(endings))}, expected="every path re-raises, exits non-zero or forwards the -2 sentinel", loc=repo.loc(h, m), cases=len(rows),
                          why="" if last_ok else f"an exception caught by 'except {', '.join(nm)}' in {q} can be dropped silently")
    report.saw(call_sites=n)
    report.floor("C12.R4", "broad exception handlers", n, 7)


def r5_paired(repo, report):
    c, rc = repo.need_method("ReaderProcess", "_read_chunks")
    rows = explore(repo, strip_docstring(rc.body), {"self": Obj("self", nonnull=True), rc.args.vararg.arg: Obj("FILES", nonnull=True)}, inline=False)
    tbl = {}
    for r in rows:
        n1 = r.valuation.get("sign:len(FILES)-1")
        n2 = r.valuation.get("sign:len(FILES)-2")
        key = "1" if n1 == 0 else "2" if n2 == 0 else "other"
        called = sorted({c[2] for c in r.calls if c[2].startswith("dnaio.")})
        tbl[key] = (called, r.exit[0])
    ok = tbl.get("1", ([],))[0] == ["dnaio.read_chunks"] and tbl.get("2", ([],))[0] == ["dnaio.read_paired_chunks"] and tbl.get("other", (None, None))[1] == "raise"
    args2 = [src(x) for x in calls(rc) if chain(x.func) == "dnaio.read_paired_chunks"]
    ok = ok and args2 == ["dnaio.read_paired_chunks(files[0], files[1], self.buffer_size)"]
    report.ob("C12.R5", "ReaderProcess._read_chunks", ok, facts={k: v for k, v in tbl.items()}, expected="1 file: read_chunks; 2 files: read_paired_chunks(files[0], files[1]); else raise", loc=repo.loc(rc), cases=len(rows))
    c, iop = repo.need_method("InputFiles", "open")
    oc = [x for x in calls(iop) if chain(x.func) == "dnaio.open"]
    ok = len(oc) == 1 and src(oc[0].args[0]) == "*self._files"
    report.ob("C12.R5", "InputFiles.open reads all files with one reader", ok, facts={"call": src(oc[0])[:120] if oc else None}, expected="dnaio.open(*self._files, ...)", loc=repo.loc(iop))


def _maybe_unbound_in_handler(fn, tr, h):
    """locals read in the handler (before its last send) that are not definitely bound when the try statement starts"""
    params_ = {a.arg for a in fn.args.posonlyargs + fn.args.args + fn.args.kwonlyargs}
    if fn.args.vararg:
        params_.add(fn.args.vararg.arg)
    if fn.args.kwarg:
        params_.add(fn.args.kwarg.arg)
    stored_anywhere = {n.id for n in ast.walk(fn) if isinstance(n, ast.Name) and isinstance(n.ctx, ast.Store)}
    for n in ast.walk(fn):
        if isinstance(n, ast.ExceptHandler) and n.name:
            stored_anywhere.add(n.name)
    # definitely bound before the try: plain assignments that precede it in the chain of enclosing blocks
    bound = set(params_)
    node = tr
    while node is not None and node is not fn:
        parent = getattr(node, "_parent", None)
        if parent is None:
            break
        for field in ("body", "orelse", "finalbody"):
            blk = getattr(parent, field, None)
            if isinstance(blk, list) and node in blk:
                for st in blk[:blk.index(node)]:
                    if isinstance(st, (ast.Assign, ast.AnnAssign, ast.AugAssign)) and getattr(st, "value", None) is not None:
                        for t in (st.targets if isinstance(st, ast.Assign) else [st.target]):
                            for x in ast.walk(t):
                                if isinstance(x, ast.Name):
                                    bound.add(x.id)
                    elif isinstance(st, (ast.With,)):
                        for it in st.items:
                            if isinstance(it.optional_vars, ast.Name):
                                bound.add(it.optional_vars.id)
        if isinstance(parent, ast.With):
            for it in parent.items:
                if isinstance(it.optional_vars, ast.Name):
                    bound.add(it.optional_vars.id)
        if isinstance(parent, ast.ExceptHandler) and parent.name:
            bound.add(parent.name)
        node = parent
    if h.name:
        bound.add(h.name)
    out = []
    local_in_handler = set()
    for st in h.body:
        for y in ast.walk(st):  # names bound by the statement's own loops / comprehensions / with-items
            if isinstance(y, (ast.For, ast.comprehension)):
                local_in_handler |= {x.id for x in ast.walk(y.target) if isinstance(x, ast.Name)}
            elif isinstance(y, ast.With):
                local_in_handler |= {it.optional_vars.id for it in y.items if isinstance(it.optional_vars, ast.Name)}
        for x in ast.walk(st):
            if isinstance(x, ast.Name) and isinstance(x.ctx, ast.Load) and x.id in stored_anywhere and x.id not in bound and x.id not in local_in_handler and x.id not in out:
                out.append(x.id)
        for x in ast.walk(st):
            if isinstance(x, ast.Name) and isinstance(x.ctx, ast.Store):
                local_in_handler.add(x.id)
    return out


_LEVELS_UP_TO_ERROR = {"logging.DEBUG", "logging.INFO", "REPORT", "logging.WARNING", "logging.WARN", "logging.ERROR", "stderr_level"}


def r3_logging(repo, report):
    """main() reports an input error with logger.error(...).  The message is visible only if, in EVERY logging
    configuration, the logger lets ERROR records through and some attached handler writes them to standard error
    without filtering them out."""
    fn = repo.func("log", "setup_logging")
    if fn is None:
        raise Unrecognised("log.setup_logging not found")
    ps = params(fn)

    def hook(ex, node, env):
        if isinstance(node.func, ast.Name) and node.func.id.endswith("Handler") and node.args:
            return Obj(f"H{node.lineno}<{vkey(ex.ev(node.args[0], env))}>", nonnull=True)
        return None

    env = {ps[0]: Obj("LOGGER", nonnull=True)}
    for p_ in ps[1:]:
        env[p_] = Obj(p_.upper())
    rows = explore(repo, strip_docstring(fn.body), env, call_hook=hook, inline=False)
    report.saw(function="log.setup_logging", valuations=len(rows))
    bad = []
    for r in rows:
        if r.exit[0] == "raise":
            continue
        texts = [c[0] for c in r.calls]
        added = [t[len("LOGGER.addHandler("):-1] for t in texts if t.startswith("LOGGER.addHandler(")]
        lvl = [t[len("LOGGER.setLevel("):-1] for t in texts if t.startswith("LOGGER.setLevel(")]
        ok_logger = all(x in _LEVELS_UP_TO_ERROR for x in lvl)
        good = []
        for h in added:
            if "<sys.stderr>" not in h:
                continue
            if any(t.startswith(h + ".addFilter(") for t in texts):
                continue
            hl = [t[len(h) + len(".setLevel("):-1] for t in texts if t.startswith(h + ".setLevel(")]
            if all(x in _LEVELS_UP_TO_ERROR for x in hl):
                good.append(h)
        if not ok_logger or not good:
            bad.append({"configuration": r.describe()["valuation"], "handlers": added, "logger_level": lvl})
    report.ob("C12.R3", "setup_logging: ERROR records reach standard error in every configuration", not bad and len(rows) >= 4, facts={"configurations": len(rows), "problems": bad[:2]}, cases=len(rows),
              expected="an unfiltered handler on sys.stderr with level <= ERROR is attached, and the logger's level is <= ERROR, whatever log_to_stderr/minimal/quiet/debug are", loc=repo.loc(fn),
              why=(f"in configuration {bad[0]['configuration']} no handler lets an error message through to standard error: a run on broken input ends with exit status 1 and no message" if bad else ""))


def r3_quality_validation(repo, report):
    """A corrupted quality character is noticed (ValueError -> error exit) only by expected_errors(); the two error
    filters must therefore hand the qualities of EVERY non-empty read to it - no shortcut that decides without looking."""
    n = 0
    for cname in ("TooManyExpectedErrors", "TooHighAverageErrorRate"):
        c, fn = repo.method(cname, "test")
        if fn is None:
            continue
        ps = params(fn)
        rows = explore(repo, strip_docstring(fn.body), {"self": Obj("self", nonnull=True), ps[1]: Obj("READ", nonnull=True), **({ps[2]: Obj("INFO", nonnull=True)} if len(ps) > 2 else {})}, inline=False)
        bad = []
        for r in rows:
            if r.exit[0] != "return":
                continue
            looked = any(c_[0].startswith("expected_errors(READ.qualities") for c_ in r.calls)
            empty = any(k.replace(" ", "") in ("sign:len(READ)", "sign:len(READ.sequence)", "sign:len(READ.qualities)") and v == 0 for k, v in r.valuation.items()) or r.valuation.get("truthy:READ") is False
            if not looked and not empty:
                bad.append(r.describe()["valuation"])
        n += 1
        report.ob("C12.R3", f"{cname}.test looks at the qualities of every non-empty read", not bad, facts={"paths": len(rows), "paths_without_validation": bad[:2]}, loc=repo.loc(fn),
                  expected="expected_errors(read.qualities, ...) is evaluated on every path except for the empty read",
                  why=(f"on the path {bad[0]} the filter decides without decoding the qualities: an invalid quality character in such a read goes unnoticed and the run exits 0" if bad else ""))
    report.floor("C12.R3", "error filters", n, 2)


def r2_daemons(repo, report):
    """When the main process fails (error received, or an error of its own) it raises and the interpreter exits.  A child
    that is not a daemon is joined at exit - a reader blocked on a full pipe then keeps the program alive forever.
    Every process the parallel runner starts must therefore be a daemon: flag set on the object before start(), or passed
    to the Process constructor by the class itself."""
    bad = []
    n = 0
    for cname in ("ReaderProcess", "WorkerProcess"):
        cls = repo.cls(cname)
        init = cls.methods.get("__init__")
        by_ctor = init is not None and any(isinstance(x, ast.Call) and src(x.func) == "super().__init__" and any(k.arg == "daemon" and isinstance(k.value, ast.Constant) and k.value.value is True for k in x.keywords) for x in ast.walk(init))
        by_attr = init is not None and any(isinstance(x, ast.Assign) and chain(x.targets[0]) == "self.daemon" and isinstance(x.value, ast.Constant) and x.value.value is True for x in ast.walk(init))
        # or: the runner sets .daemon = True on every instance it creates, before start()
        set_by_runner = True
        created = 0
        for rc in [c_ for c_ in repo.classes.values() if c_.name.endswith("Runner")]:
            for m_ in rc.methods.values():
                for x in ast.walk(m_):
                    if isinstance(x, ast.Assign) and isinstance(x.value, ast.Call) and chain(x.value.func) == cname:
                        created += 1
                        tgt = chain(x.targets[0])
                        flagged = [y for y in ast.walk(m_) if isinstance(y, ast.Assign) and chain(y.targets[0]) == f"{tgt}.daemon" and isinstance(y.value, ast.Constant) and y.value.value is True]
                        started = [y for y in ast.walk(m_) if isinstance(y, ast.Call) and chain(y.func) == f"{tgt}.start"]
                        if not flagged or (started and flagged[0].lineno > started[0].lineno):
                            set_by_runner = False
        n += 1
        ok = by_ctor or by_attr or (created > 0 and set_by_runner)
        if not ok:
            bad.append(cname)
    report.ob("C12.R2", "every child process of the parallel runner is a daemon", not bad and n == 2, facts={"not_daemon": bad}, loc="src/cutadapt/runners.py",
              expected="daemon = True for ReaderProcess and WorkerProcess (set before start(), or in the class's own Process.__init__ call)",
              why=(f"{bad[0]} is started without the daemon flag: when the main process ends with an error while that child is still blocked, the interpreter waits for it at exit and the program hangs after printing the error" if bad else ""))


def r2_no_join_in_cleanup(repo, report):
    """The runner is used as a context manager; close() runs also when the main process leaves the block with an exception
    (e.g. the output writer could not be created).  At that moment the reader may be blocked waiting for a worker that was
    never started: waiting for a child there (join without timeout) never returns.  Children are joined only at the end of
    run(), after every worker has delivered its statistics."""
    cls = repo.cls("ParallelPipelineRunner")
    bad = []
    for mname in ("close", "__exit__", "__del__"):
        fn = None
        for k in repo.mro(cls.name):
            if mname in k.methods and k.name == cls.name:
                fn = k.methods[mname]
        if fn is None:
            continue
        for x in ast.walk(fn):
            if isinstance(x, ast.Call) and isinstance(x.func, ast.Attribute) and x.func.attr == "join" and not x.args and not any(k.arg == "timeout" for k in x.keywords) and "process" in (chain(x.func.value) or "").lower() + "worker":
                if not isinstance(x.func.value, ast.Constant):
                    bad.append(f"{mname}: {src(x)}")
    c, run = repo.need_method("ParallelPipelineRunner", "run")
    joins = [x for x in ast.walk(run) if isinstance(x, ast.Call) and isinstance(x.func, ast.Attribute) and x.func.attr == "join" and not isinstance(x.func.value, ast.Constant)]
    report.ob("C12.R2", "ParallelPipelineRunner does not wait for children while cleaning up", not bad and len(joins) >= 2, facts={"joins_in_cleanup": bad, "joins_in_run": len(joins)}, loc=repo.loc(cls.node),
              expected="join() of the reader and the workers only at the end of run()",
              why=(f"{bad[0]}: when the main process fails before the workers run (e.g. first byte of a FASTQ corrupted to '>' with -o out.fastq: the writer cannot be created), the reader is blocked on its pipe and this join never returns - the program hangs after the error" if bad else ""))
