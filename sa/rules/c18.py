"""C18 - Adapter specifications mean what the documented notation says."""
from __future__ import annotations

import ast
import re

from .. import constfold
from ..absint import Const, Obj, Tup, explore, vkey
from ..argtable import by_dest, option_table
from ..core import Unrecognised
from ..lin import Lin
from ..repo import chain, params, src, strip_docstring, calls, walk_no_nested
from ..tables import Bool, Sign, check_table, SKIP

from ..localroles import rename, name_of, unique, calls_to, assigned_names


def _roles_adapters_from_args(repo):
    fn0 = repo.func("cli", "adapters_from_args")
    m = {}
    rets = [n.value for n in ast.walk(fn0) if isinstance(n, ast.Return) and isinstance(n.value, ast.Tuple) and len(n.value.elts) == 2]
    if len(rets) == 1:
        for e, c_ in zip(rets[0].elts, ("adapters", "adapters2")):
            if isinstance(e, ast.Name):
                m[e.id] = c_
    sp = {x.args[1].id for x in calls_to(fn0, "make_adapters_from_specifications") if len(x.args) >= 2 and isinstance(x.args[1], ast.Name)}
    if len(sp) == 1:
        m[sp.pop()] = "search_parameters"
    return rename(fn0, m)


def _roles_parse_search_parameters(repo):
    fn0 = repo.func("parser", "parse_search_parameters")
    m = {}
    rets = [n.value for n in ast.walk(fn0) if isinstance(n, ast.Return) and isinstance(n.value, ast.Name)]
    if len({r.id for r in rets}) == 1:
        m[rets[0].id] = "result"
    for k, vs in assigned_names(fn0).items():
        if any(isinstance(v, ast.Dict) and len(v.keys) >= 3 for v in vs):
            m[k] = "allowed_parameters"
    for n in ast.walk(fn0):
        if isinstance(n, (ast.Assign, ast.AnnAssign)) and isinstance(n.value, ast.Call) and isinstance(n.value.func, ast.Attribute) and n.value.func.attr == "partition":
            t = n.targets[0] if isinstance(n, ast.Assign) else n.target
            if isinstance(t, ast.Tuple) and len(t.elts) == 3:
                for e, c_ in zip(t.elts, ("key", "equals", "value")):
                    if isinstance(e, ast.Name):
                        m[e.id] = c_
                if isinstance(n.value.func.value, ast.Name):
                    m[n.value.func.value.id] = "field"
    return rename(fn0, m)


def _roles_make_not_linked(repo):
    fn0 = repo.func("parser", "_make_not_linked_adapter")
    m = {}
    for k, vs in assigned_names(fn0).items():
        if any(isinstance(v, ast.Call) and chain(v.func) == "AdapterSpecification.parse" for v in vs):
            m[k] = "aspec"
    inv = {v: k for k, v in m.items()}
    for k, vs in assigned_names(fn0).items():
        if any(isinstance(v, ast.Call) and chain(v.func) == f"{inv.get('aspec')}.adapter_class" for v in vs):
            m[k] = "adapter_class"
        if any(isinstance(v, ast.Call) and isinstance(v.func, ast.Attribute) and v.func.attr == "copy" for v in vs):
            m[k] = "parameters"
    return rename(fn0, m)


def _roles_read_adapters_fasta(repo):
    fn0 = repo.func("parser", "read_adapters_fasta")
    m = {}
    for k, vs in assigned_names(fn0).items():
        if any(isinstance(v, ast.Call) and chain(v.func) == "FastaReader" for v in vs):
            m[k] = "fasta"
    inv = {v: k for k, v in m.items()}
    for n in ast.walk(fn0):
        if isinstance(n, ast.For) and isinstance(n.iter, ast.Name) and n.iter.id == inv.get("fasta") and isinstance(n.target, ast.Name):
            m[n.target.id] = "record"
        if isinstance(n, ast.Yield) and isinstance(n.value, ast.Tuple) and len(n.value.elts) == 2 and isinstance(n.value.elts[0], ast.Name):
            m[n.value.elts[0].id] = "name"
    return rename(fn0, m)


def run(repo, report, tier):
    report.rule("C18.R1", "-a/-g/-b (and -A/-G/-B) tag their specification as back/front/anywhere; lower case goes to adapters, upper case to adapters2", "-a would search a 5' adapter")
    report.rule("C18.R2", "the (type, restriction, rightmost) -> class table equals the documented eight adapter types; ^, leading X, $ and trailing X map to anchored/non-internal restrictions, and exactly the documented invalid combinations are rejected",
                "a notation selects the wrong adapter type, or a valid specification is rejected / an invalid one accepted")
    report.rule("C18.R3", "search-parameter table: abbreviations resolve (acyclically) to canonical keys; every canonical key is a constructor parameter or is consumed before the constructor call; optional+required and indels+noindels are rejected",
                "a documented parameter is silently ignored or crashes the constructor")
    report.rule("C18.R4", "precedence: each level's parameters are a copy of the lower level updated by the higher one (global < file < adapter)",
                "file- or adapter-level parameters leak into other adapters, or are overridden by the global options")
    report.rule("C18.R5", "file:, ^file: and file$: re-attach the anchoring character at the matching end of every sequence of the file", "^file: anchors at the 3' end or not at all")
    report.rule("C18.R6", "an error parameter of 1 or more is divided by the number of non-N bases of the normalised (upper-cased, I->N) adapter sequence", "absolute error counts are converted with the wrong length")
    report.rule("C18.R7", "every exception class raised while parsing specifications / constructing adapters is caught by adapters_from_args and converted to CommandLineError (exit status 2 by C12.R3)",
                "an invalid specification ends in a traceback instead of an error message and exit status 2")
    report.rule("C18.R8", "brace notation: expand_braces is the four-state machine (start / after text / after '{' / after the count): x{n} replaces the last character written by n copies of it for every 0 <= n <= 10000 (a higher limit is fine), a negative n raises; a brace in any other position, a non-terminated expression and a count that is not an integer raise ValueError (caught by C18.R7); the expansion is applied to the sequence before the adapter is built",
                "A{3} is not expanded to AAA, or a malformed brace expression is silently accepted")
    report.guard("C18.R1", "argparse", r1_options, repo, report)
    report.guard("C18.R2", "class table", r2_classes, repo, report)
    report.guard("C18.R2", "anchored classes", r2_anchored, repo, report)
    report.guard("C18.R3", "parameters", r3_parameters, repo, report)
    report.guard("C18.R3", "parameter routes", r3_routes, repo, report)
    report.guard("C18.R4", "precedence", r4_precedence, repo, report)
    report.guard("C18.R5", "file notation", r5_file, repo, report)
    report.guard("C18.R6", "absolute errors", r6_abs_errors, repo, report)
    report.guard("C18.R7", "rejections", r7_rejections, repo, report)
    report.guard("C18.R8", "brace expansion", r8_braces, repo, report)
    report.notes.append("Not decided: the full grammar x global options cross product as strings; brace expansion as a state machine (C18.R8 of the design) is left undecided.")


def r1_options(repo, report):
    opts = option_table(repo)
    want = {"-a": ("adapters", "back"), "-g": ("adapters", "front"), "-b": ("adapters", "anywhere"), "-A": ("adapters2", "back"), "-G": ("adapters2", "front"), "-B": ("adapters2", "anywhere")}
    for flag, (dest, typ) in want.items():
        o = [x for x in opts if flag in x.flags]
        ok = len(o) == 1 and o[0].dest == dest and o[0].action == "append" and isinstance(o[0].type, ast.Lambda)
        got = None
        if ok:
            try:
                got = constfold.fold(ast.Call(func=o[0].type, args=[ast.Constant(value="SPEC")], keywords=[]))
            except constfold.NotConstant as e:
                got = str(e)
            ok = got == (typ, "SPEC")
        report.ob("C18.R1", f"option {flag}", ok, facts={"dest": o[0].dest if o else None, "type(SPEC)": got}, expected={"dest": dest, "type(SPEC)": [typ, "SPEC"]}, loc=repo.loc(o[0].node) if o else "src/cutadapt/cli.py")
    fn = _roles_adapters_from_args(repo)
    cs = [x for x in calls(fn) if chain(x.func) == "make_adapters_from_specifications"]
    ok = len(cs) == 2 and [src(c.args[0]) for c in cs] == ["args.adapters", "args.adapters2"]
    tg = [src(n.targets[0]) for n in ast.walk(fn) if isinstance(n, ast.Assign) and isinstance(n.value, ast.Call) and chain(n.value.func) == "make_adapters_from_specifications"]
    report.ob("C18.R1", "adapters_from_args", ok and tg == ["adapters", "adapters2"], facts={"calls": [src(c)[:80] for c in cs], "targets": tg}, expected="adapters from args.adapters, adapters2 from args.adapters2", loc=repo.loc(fn))
    # global search parameters -> constructor keywords
    sp = [n for n in ast.walk(fn) if isinstance(n, ast.Assign) and chain(n.targets[0]) == "search_parameters"]
    kw = {k.arg: src(k.value) for k in sp[0].value.keywords} if sp and isinstance(sp[0].value, ast.Call) else {}
    want_kw = {"max_errors": "args.error_rate", "min_overlap": "args.overlap", "read_wildcards": "args.match_read_wildcards", "adapter_wildcards": "args.match_adapter_wildcards", "indels": "args.indels"}
    report.ob("C18.R1", "global search parameters", kw == want_kw, facts=kw, expected=want_kw, loc=repo.loc(fn))
    d = by_dest(opts)
    facts = {k: (d[k][0].action, d[k][0].default) for k in ("indels", "match_adapter_wildcards", "match_read_wildcards") if k in d}
    ok = facts == {"indels": ("store_false", True), "match_adapter_wildcards": ("store_false", True), "match_read_wildcards": ("store_true", False)}
    report.ob("C18.R1", "switch polarities (--no-indels, -N, --match-read-wildcards)", ok, facts={k: list(v) for k, v in facts.items()}, expected="--no-indels and -N store False (default True); --match-read-wildcards stores True (default False)", loc="src/cutadapt/cli.py")


def r2_classes(repo, report):
    c, fn = repo.need_method("AdapterSpecification", "_restriction_to_class")
    ps = params(fn)
    T, R, M = [p.upper() for p in ps]
    rows = explore(repo, strip_docstring(fn.body), {ps[0]: Obj(T), ps[1]: Obj(R), ps[2]: Obj(M)}, inline=False)
    report.saw(function="AdapterSpecification._restriction_to_class", valuations=len(rows))
    roles = {"front": Bool(f"eq:{T}:'front'"), "back": Bool(f"eq:{T}:'back'"), "anyw": Bool(f"eq:{T}:'anywhere'"), "rm": Bool(f"truthy:{M}"), "none": Bool(f"isnone:{R}"), "anch": Bool(f"eq:{R}:'anchored'"), "nonint": Bool(f"eq:{R}:'noninternal'")}

    def constraint(rv):
        return sum([rv["front"], rv["back"], rv["anyw"]]) == 1 and sum([rv["none"], rv["anch"], rv["nonint"]]) == 1

    def exp(rv):
        if rv["front"]:
            if rv["rm"]:
                return "RightmostFrontAdapter" if rv["none"] else "raise"
            return "FrontAdapter" if rv["none"] else "PrefixAdapter" if rv["anch"] else "NonInternalFrontAdapter"
        if rv["back"]:
            return "BackAdapter" if rv["none"] else "SuffixAdapter" if rv["anch"] else "NonInternalBackAdapter"
        return "AnywhereAdapter" if rv["none"] else "raise"

    def outcome(r):
        return "raise" if r.exit[0] == "raise" else vkey(r.exit[1])

    mism, n, _ = check_table(rows, roles, exp, outcome, constraint=constraint)
    report.ob("C18.R2", "_restriction_to_class", not mism, facts={"rows": len(rows), "mismatches": mism[:3]}, expected="front: Front/Prefix/NonInternalFront/RightmostFront; back: Back/Suffix/NonInternalBack; anywhere: Anywhere", loc=repo.loc(fn), cases=n,
              why=str(mism[0]) if mism else "")
    # _parse_restrictions
    c, pr = repo.need_method("AdapterSpecification", "_parse_restrictions")

    def hook(ex, node, env):
        f = node.func
        if isinstance(f, ast.Attribute) and f.attr in ("startswith", "endswith") and len(node.args) == 1 and isinstance(node.args[0], ast.Constant):
            return Const(ex.ask_bool(f"role:{f.attr}:{node.args[0].value}"))
        return None

    pp = params(pr)
    rows = explore(repo, strip_docstring(pr.body), {pp[0]: Obj("SPEC", nonnull=True)}, call_hook=hook, inline=False)
    roles = {"caret": Bool("role:startswith:^"), "leadx": Bool("role:startswith:X"), "dollar": Bool("role:endswith:$"), "trailx": Bool("role:endswith:X")}

    def exp2(rv):
        if rv["caret"] and rv["leadx"]:
            return "raise"
        if rv["dollar"] and rv["trailx"]:
            return "raise"
        f = "'anchored'" if rv["caret"] else "'noninternal'" if rv["leadx"] else "None"
        b = "'anchored'" if rv["dollar"] else "'noninternal'" if rv["trailx"] else "None"
        if f != "None" and b != "None":
            return "raise"
        return (f, b)

    def out2(r):
        if r.exit[0] == "raise":
            return "raise"
        v = r.exit[1]
        return (vkey(v.items[0]), vkey(v.items[1])) if isinstance(v, Tup) and len(v.items) == 3 else vkey(v)

    mism, n, _ = check_table(rows, roles, exp2, out2)
    report.ob("C18.R2", "_parse_restrictions", not mism, facts={"rows": len(rows), "mismatches": mism[:3]}, expected="^ -> front anchored, leading X -> front noninternal, $ -> back anchored, trailing X -> back noninternal; two restrictions raise", loc=repo.loc(pr), cases=n,
              why=str(mism[0]) if mism else "")
    # validation in parse(): exactly the documented invalid combinations are rejected
    c, pa = repo.need_method("AdapterSpecification", "parse")
    pps = params(pa)

    def hook3(ex, node, env):
        cn = chain(node.func)
        if cn == "parse_search_parameters":
            return Obj("PARAMS", nonnull=True)
        if cn == "expand_braces":
            return Obj("SEQSPEC", nonnull=True)
        if cn and cn.endswith("._parse_restrictions"):
            return Tup([Obj("FR"), Obj("BR"), Obj("SEQ", nonnull=True)])
        if cn and cn.endswith("._extract_name"):
            return Tup([Obj("NAME"), Obj("SPEC1", nonnull=True)])
        if isinstance(node.func, ast.Attribute) and node.func.attr == "pop" and node.args and isinstance(node.args[0], ast.Constant) and node.args[0].value == "rightmost":
            return Obj("RIGHTMOST")
        return None

    rows = explore(repo, strip_docstring(pa.body), {pps[0]: Obj("cls", nonnull=True), pps[1]: Obj("SPEC0", nonnull=True), pps[2]: Obj("TYPE")}, call_hook=hook3, inline=False, max_rows=20000)
    report.saw(function="AdapterSpecification.parse", valuations=len(rows))
    roles = {
        "front": Bool("eq:TYPE:'front'"), "back": Bool("eq:TYPE:'back'"), "anyw": Bool("eq:TYPE:'anywhere'"),
        "fr_none": Bool("isnone:FR"), "br_none": Bool("isnone:BR"), "fr_t": Bool("truthy:FR"), "br_t": Bool("truthy:BR"),
        "mo": Bool("in:'min_overlap':PARAMS"), "rm": Bool("truthy:RIGHTMOST"), "nonx": Sign(Lin.atom("len(SEQSPEC.strip('X'))"), values=(1,)),
    }
    anch_atoms = sorted({k for r in rows for k in r.valuation if k.startswith("eq:") and "'anchored'" in k})

    def constraint3(rv):
        # a restriction is None or a non-empty string
        return sum([rv["front"], rv["back"], rv["anyw"]]) == 1 and rv["fr_t"] == (not rv["fr_none"]) and rv["br_t"] == (not rv["br_none"])

    def expected3(rv):
        if rv["front"] and not rv["br_none"]:
            return "raise"
        if rv["back"] and not rv["fr_none"]:
            return "raise"
        restricted = (not rv["fr_none"]) or (not rv["br_none"])
        if rv["anyw"] and restricted:
            return "raise"
        if rv["rm"] and (not rv["front"] or restricted):
            return "raise"
        if not restricted and rv["mo"]:
            return "ok"
        if not rv["mo"]:
            return "ok"
        return SKIP  # min_overlap with a restriction: depends on anchored vs noninternal, checked below

    def outcome3(r):
        return "raise" if r.exit[0] == "raise" else "ok"

    # rows on which the spec consists only of X characters return early: exclude them by constraint on that atom
    xatoms = sorted({k for r in rows for k in r.valuation if "strip('X')" in k})
    sub = [r for r in rows if all(r.valuation.get(k) == 1 for k in xatoms)] if xatoms else rows
    # a restriction is None or a non-empty string: 'falsy but not None' does not occur
    sub = [r for r in sub if not any(r.valuation.get(f"truthy:{x}") is False and r.valuation.get(f"isnone:{x}") is False for x in ("FR", "BR"))]
    # the adapter-specific minimum overlap is limited by the length of the sequence that will be searched: the expanded
    # (x{n}) sequence without its placement characters
    clamp_atoms = sorted({k for r in rows for k in r.valuation if k.startswith("sign:PARAMS.get('min_overlap'")})
    clamp_stores = sorted({str(e[2]) for r in rows for e in r.effects if e[0] == "store" and e[1] == "PARAMS['min_overlap']"})
    okc = clamp_atoms == ["sign:PARAMS.get('min_overlap', 0)-len(SEQ)"] and clamp_stores == ["len(SEQ)"]
    report.ob("C18.R2", "AdapterSpecification.parse: min_overlap is limited by the expanded, restriction-free sequence", okc, facts={"compared_with": clamp_atoms, "set_to": clamp_stores}, loc=repo.loc(pa),
              expected="if parameters.get('min_overlap', 0) > len(<sequence after expand_braces and _parse_restrictions>): parameters['min_overlap'] = len(<that sequence>)",
              why="" if okc else f"the overlap is compared with / set to {clamp_atoms + clamp_stores}: for 'ACGT{{20}};o=20' the unexpanded text is 8 characters, so the requested overlap of 20 silently becomes 8")
    if not okc:
        sub = [r for r in sub if not any(k in r.valuation for k in clamp_atoms if k != "sign:PARAMS.get('min_overlap', 0)-len(SEQ)")] or sub
    # the tuple-membership test on TYPE at the top: rows that raise because TYPE is none of the three are outside the constraint
    try:
        mism, n, _ = check_table(sub, roles, expected3, outcome3, constraint=constraint3, ignore_atoms=anch_atoms + ["sign:PARAMS.get('min_overlap', 0)-len(SEQ)"])
        report.ob("C18.R2", "AdapterSpecification.parse: rejected combinations", not mism, facts={"rows": len(sub), "mismatches": mism[:3]},
                  expected="rejected: 5' adapter with $/trailing X, 3' adapter with ^/leading X, -b with any restriction, rightmost unless regular 5'", loc=repo.loc(pa), cases=n, why=str(mism[0]) if mism else "")
    except Unrecognised as u:
        report.unrecognised("C18.R2", "AdapterSpecification.parse: rejected combinations", u.what, repo.loc(pa))
    # min_overlap is rejected only for anchored adapters
    bad = []
    nmo = 0
    for r in sub:
        v = r.valuation
        if v.get("in:'min_overlap':PARAMS") is not True or v.get("truthy:RIGHTMOST") is True:
            continue
        for typ, own, other in (("front", "FR", "BR"), ("back", "BR", "FR")):
            if v.get(f"eq:TYPE:'{typ}'") is not True:
                continue
            if v.get(f"truthy:{other}") is True or v.get(f"isnone:{other}") is False:
                continue  # rejected for the misplaced restriction, not for min_overlap
            anch = v.get(f"eq:{own}:'anchored'")
            if v.get(f"isnone:{own}") is True:
                anch = False
            if anch is None:
                bad.append(("the decision does not depend on the restriction being 'anchored'", r.exit[0], {k: x for k, x in v.items() if own in k}))
                continue
            nmo += 1
            if (r.exit[0] == "raise") != anch:
                bad.append(("min_overlap with restriction", "anchored" if anch else "non-internal or none", "->", r.exit[0]))
    report.ob("C18.R2", "AdapterSpecification.parse: min_overlap only rejected for anchored adapters", not bad and nmo >= 4, facts={"paths": nmo, "problems": [str(b)[:200] for b in bad[:3]]},
              expected="'o=' raises iff the restriction is 'anchored' (non-internal adapters accept it)", loc=repo.loc(pa), cases=nmo, why=str(bad[0])[:200] if bad else "")
    # normalize ellipsis: -a ADAPTER... is a 5' adapter, -a ...ADAPTER a 3' adapter, -g ...ADAPTER invalid
    ne = repo.func("parser", "_normalize_ellipsis")
    nps = params(ne)
    rows = explore(repo, strip_docstring(ne.body), {nps[0]: Obj("S1"), nps[1]: Obj("S2"), nps[2]: Obj("TYPE")}, inline=False)
    roles = {"s1": Bool("truthy:S1"), "s2": Bool("truthy:S2"), "back": Bool("eq:TYPE:'back'"), "anyw": Bool("eq:TYPE:'anywhere'")}

    def exp4(rv):
        if rv["anyw"]:
            return "raise"
        if not rv["s1"]:
            return ("S2", "TYPE") if rv["back"] else "raise"
        if not rv["s2"]:
            return ("S1", "'front'") if rv["back"] else ("S1", "TYPE")
        return "raise"

    def out4(r):
        if r.exit[0] == "raise":
            return "raise"
        v = r.exit[1]
        return (vkey(v.items[0]), vkey(v.items[1]))

    mism, n, _ = check_table(rows, roles, exp4, out4, constraint=lambda rv: not (rv["back"] and rv["anyw"]))
    report.ob("C18.R2", "_normalize_ellipsis", not mism, facts={"mismatches": mism[:3]}, expected="-a ...X -> 3' X; -a X... -> 5' X; -g X... -> 5' X; -g ...X and -b raise", loc=repo.loc(ne), cases=n, why=str(mism[0]) if mism else "")


def r3_parameters(repo, report):
    fn = _roles_parse_search_parameters(repo)
    tbl = [n for n in ast.walk(fn) if isinstance(n, ast.Assign) and chain(n.targets[0]) == "allowed_parameters" and isinstance(n.value, ast.Dict)]
    if len(tbl) != 1:
        raise Unrecognised("allowed_parameters table not found", repo.loc(fn))
    t = constfold.fold(tbl[0].value)
    canon = {k for k, v in t.items() if v is None}
    bad = []
    resolved = {}
    for k, v in t.items():
        seen = [k]
        cur = k
        while t.get(cur) is not None:
            cur = t[cur]
            if cur in seen or cur not in t:
                bad.append(f"{k} -> {cur} (cycle or dangling)")
                break
            seen.append(cur)
        resolved[k] = cur
    doc = {"e": "max_errors", "max_errors": "max_errors", "max_error_rate": "max_errors", "error_rate": "max_errors", "o": "min_overlap", "min_overlap": "min_overlap", "indels": "indels", "noindels": "noindels", "anywhere": "anywhere", "rightmost": "rightmost", "required": "required", "optional": "optional"}
    wrong = {k: (resolved.get(k), v) for k, v in doc.items() if resolved.get(k) != v}
    report.ob("C18.R3", "abbreviation table", not bad and not wrong, facts={"resolved": resolved, "problems": bad, "wrong": wrong}, expected=doc, loc=repo.loc(tbl[0]))
    # loop resolves abbreviations until a canonical key is reached
    wl = [n for n in ast.walk(fn) if isinstance(n, ast.While)]
    ok = len(wl) == 1 and src(wl[0].test) == "allowed_parameters[key] is not None" and src(wl[0].body[0]).startswith("key = allowed_parameters[key]")
    report.ob("C18.R3", "abbreviations are resolved transitively", ok, facts={"loop": src(wl[0])[:120] if wl else None}, expected="while allowed_parameters[key] is not None: key = allowed_parameters[key]", loc=repo.loc(fn))
    # canonical keys: constructor parameter or consumed
    c, init = repo.need_method("SingleAdapter", "__init__")
    ctor = set(params(init)[1:])
    consumed = {}
    for modname, fname in (("parser", "_make_not_linked_adapter"), ("parser", "_make_linked_adapter")):
        f = repo.func(modname, fname)
        for x in calls(f):
            if isinstance(x.func, ast.Attribute) and x.func.attr == "pop" and x.args and isinstance(x.args[0], ast.Constant):
                consumed.setdefault(x.args[0].value, []).append(fname)
    c2, pa = repo.need_method("AdapterSpecification", "parse")
    for x in calls(pa):
        if isinstance(x.func, ast.Attribute) and x.func.attr == "pop" and x.args and isinstance(x.args[0], ast.Constant):
            consumed.setdefault(x.args[0].value, []).append("parse")
    # conversions inside parse_search_parameters
    conv = {}
    for n in ast.walk(fn):
        if isinstance(n, ast.If) and isinstance(n.test, ast.Compare) and isinstance(n.test.left, ast.Constant) and src(n.test.comparators[0]) == "result" and isinstance(n.test.ops[0], ast.In):
            dels = [src(x.targets[0]) for x in n.body if isinstance(x, ast.Delete)]
            sets = [(src(x.targets[0]), src(x.value)) for x in n.body if isinstance(x, ast.Assign)]
            if dels:
                conv[n.test.left.value] = sets
    leftover = sorted(k for k in canon if k not in ctor and k not in consumed and k not in conv)
    # force_anywhere is produced from 'anywhere'
    report.ob("C18.R3", "canonical keys reach a constructor parameter or are consumed", not leftover, facts={"canonical": sorted(canon), "constructor": sorted(ctor), "consumed": consumed, "converted": conv, "unaccounted": leftover},
              expected="every canonical key is a SingleAdapter parameter, popped before **parameters, or converted", loc=repo.loc(fn), why=f"parameter(s) {leftover} would reach the adapter constructor as unknown keyword" if leftover else "")
    ok = conv.get("optional") == [("result['required']", "False")] and conv.get("noindels") == [("result['indels']", "False")]
    report.ob("C18.R3", "optional / noindels conversions", ok, facts=conv, expected={"optional": "required=False", "noindels": "indels=False"}, loc=repo.loc(fn))
    raises = [src(n.test) for n in ast.walk(fn) if isinstance(n, ast.If) and any(isinstance(x, ast.Raise) for x in n.body)]
    ok = any("'optional' in result and 'required' in result" in t_ for t_ in raises) and any("'indels' in result and 'noindels' in result" in t_ for t_ in raises) and any("key in result" in t_ for t_ in raises) and any("key not in allowed_parameters" in t_ for t_ in raises)
    report.ob("C18.R3", "contradictory / unknown / repeated parameters raise", ok, facts={"guards": raises}, expected="unknown key, key given twice, optional+required, indels+noindels", loc=repo.loc(fn))
    # the part after the parsing loop, explored as a decision table over which of the four flag keys were given
    body_ = strip_docstring(fn.body)
    last_loop = max((i_ for i_, st_ in enumerate(body_) if isinstance(st_, ast.For)), default=None)
    rets_ = [st_ for st_ in body_ if isinstance(st_, ast.Return)]
    if last_loop is None or not rets_ or not isinstance(rets_[-1].value, ast.Name):
        report.unrecognised("C18.R3", "flag conflicts", "parse_search_parameters: loop / returned dictionary not found", repo.loc(fn))
    else:
        res_ = rets_[-1].value.id
        rows_ = explore(repo, body_[last_loop + 1:], {res_: Obj("RESULT", nonnull=True)}, inline=False)
        roles_ = {k_: Bool(f"in:'{k_}':RESULT") for k_ in ("optional", "required", "indels", "noindels")}

        def out_(r):
            if r.exit[0] == "raise":
                return "raise"
            return tuple(sorted((e[0], str(e[1]).replace(res_ + "[", "RESULT["), str(e[2])) for e in r.effects if e[0] in ("store", "del")))

        def exp_(rv):
            if (rv["optional"] and rv["required"]) or (rv["indels"] and rv["noindels"]):
                return "raise"
            eff = []
            if rv["optional"]:
                eff += [("store", "RESULT['required']", "False"), ("del", "RESULT['optional']", "")]
            if rv["noindels"]:
                eff += [("store", "RESULT['indels']", "False"), ("del", "RESULT['noindels']", "")]
            return tuple(sorted(eff))

        mism_, n_, _d = check_table(rows_, roles_, exp_, out_)
        report.ob("C18.R3", "parse_search_parameters: flag conflicts and conversions", not mism_, facts={"rows": len(rows_), "mismatches": mism_[:2]}, cases=n_, loc=repo.loc(fn),
                  expected="optional+required and indels+noindels raise; otherwise optional -> required=False, noindels -> indels=False (and the converted key is removed)",
                  why=(f"for {mism_[0]['inputs']} the code does {mism_[0]['code']}, expected {mism_[0]['expected']}" if mism_ else ""))
    # value conversion: int, else float, empty -> True
    tr = [n for n in ast.walk(fn) if isinstance(n, ast.Try)]
    ok = len(tr) == 1 and src(tr[0].body[0]) == "value = int(value)" and src(tr[0].handlers[0].body[0]) == "value = float(value)" and chain(tr[0].handlers[0].type) == "ValueError"
    report.ob("C18.R3", "value conversion", ok, facts={"try": src(tr[0])[:120] if tr else None}, expected="int(value), else float(value); a bare key means True", loc=repo.loc(fn))
    # 'anywhere' becomes force_anywhere only for the three regular classes
    f = _roles_make_not_linked(repo)
    ifs = [n for n in ast.walk(f) if isinstance(n, ast.If) and "'anywhere'" in src(n.test)]
    sets_force = [x for x in (ast.walk(ifs[0]) if len(ifs) == 1 else []) if isinstance(x, ast.Assign) and isinstance(x.targets[0], ast.Subscript) and isinstance(x.targets[0].slice, ast.Constant) and x.targets[0].slice.value == "force_anywhere" and src(x.value) == "True"]
    ok = len(ifs) == 1 and len(sets_force) == 1 and all(k in src(ifs[0].test) for k in ("FrontAdapter", "BackAdapter", "RightmostFrontAdapter"))
    for cn in ("FrontAdapter", "BackAdapter"):
        c3, i3 = repo.need_method(cn, "__init__")
        ok = ok and "kwargs.pop('force_anywhere', False)" in src(i3)
    # 'anywhere' is consumed on EVERY path that builds the adapter (it is not a constructor keyword)
    fps = params(f)

    def pop_hook(ex, node, env):
        fn_ = node.func
        if isinstance(fn_, ast.Attribute) and fn_.attr == "pop" and node.args and isinstance(node.args[0], ast.Constant) and node.args[0].value == "anywhere":
            ex.effect("call", "pop:anywhere", vkey(ex.ev(fn_.value, env)), node)
            return Obj("ANYWHERE_GIVEN")
        cn = chain(fn_)
        if cn == "AdapterSpecification.parse":
            return Obj("ASPEC", nonnull=True)
        return _copy_hook(ex, node, env)

    prow = explore(repo, strip_docstring(f.body), {p_: Obj(p_.upper()) for p_ in fps}, call_hook=pop_hook, inline=False, max_rows=4000)
    def consumed(r):
        # from the specification's own dict before it is merged, or from the merged copy that is passed to the constructor
        return any(e[0] == "call" and e[1] == "pop:anywhere" and (e[2] == "ASPEC.parameters" or e[2].startswith("COPY@")) for e in r.effects)

    unconsumed = [r.describe()["valuation"] for r in prow if r.exit[0] == "return" and not consumed(r)]
    forced_without = [r.describe()["valuation"] for r in prow if any(e[0] == "store" and e[1].endswith("['force_anywhere']") for e in r.effects) and r.valuation.get("truthy:ANYWHERE_GIVEN") is not True]
    ok = ok and not unconsumed and not forced_without and any(r.exit[0] == "return" for r in prow)
    report.ob("C18.R3", "'anywhere' -> force_anywhere", ok, facts={"if": src(ifs[0])[:200] if ifs else None}, expected="popped on every path (whatever the class); sets force_anywhere only if given, for regular 5'/3'/rightmost adapters, whose constructors pop it", loc=repo.loc(f),
              why=("'anywhere' is not removed from the parameters on a path that builds the adapter: it would reach the constructor as an unknown keyword" if unconsumed else ""))


def _copy_hook(ex, node, env):
    f = node.func
    if isinstance(f, ast.Attribute) and f.attr == "copy" and not node.args:
        base = vkey(ex.ev(f.value, env))
        return Obj(f"COPY@{node.lineno}({base})", nonnull=True)
    return None


def r4_precedence(repo, report):
    f = repo.func("parser", "_make_not_linked_adapter")
    ps = params(f)

    def hook(ex, node, env):
        r = _copy_hook(ex, node, env)
        if r is not None:
            return r
        cn = chain(node.func)
        if cn == "AdapterSpecification.parse":
            return Obj("ASPEC", nonnull=True)
        if cn == "ASPEC.adapter_class":
            return Obj("CLASS", nonnull=True)
        return None

    rows = explore(repo, strip_docstring(f.body), {p: Obj(p.upper()) for p in ps}, call_hook=hook, inline=False)
    bad = []
    G = ps[3].upper()
    for r in rows:
        if r.exit[0] != "return":
            continue
        k = vkey(r.exit[1])
        m = re.search(r"\*\*(COPY@\d+\(([^)]*)\))", k)
        if not m or m.group(2) != G:
            bad.append(("constructor keywords are not a copy of the lower level", k[:160]))
            continue
        cp = m.group(1)
        ups = [e[2] for e in r.effects if e[0] == "call" and e[1] == f"{cp}.update"]
        if ups != [f"{cp}.update(ASPEC.parameters)"]:
            bad.append(("adapter-level parameters not applied on top", ups))
        # nothing writes into the lower level
        if any(e[0] in ("call", "store") and (e[1].startswith(G + ".") or e[1].startswith(G + "[")) and not e[1].endswith(".copy") for e in r.effects):
            bad.append(("the lower-level dict is modified", [e[1] for e in r.effects if e[1].startswith(G)]))
    report.ob("C18.R4", "adapter level over its base (_make_not_linked_adapter)", not bad and bool(rows), facts={"paths": len(rows), "problems": [str(b)[:240] for b in bad[:2]]},
              expected="parameters = search_parameters.copy(); parameters.update(aspec.parameters); Class(..., **parameters)", loc=repo.loc(f), cases=len(rows), why=str(bad[0])[:200] if bad else "")
    # file level
    f2 = repo.func("parser", "make_adapters_from_one_specification")
    p2 = params(f2)

    def hook2(ex, node, env):
        r = _copy_hook(ex, node, env)
        if r is not None:
            return r
        cn = chain(node.func)
        if cn == "parse_search_parameters":
            return Obj(f"FILEPARAMS({vkey(ex.ev(node.args[0], env))})", nonnull=True)
        if isinstance(node.func, ast.Attribute) and node.func.attr == "startswith" and isinstance(node.args[0], ast.Constant):
            return Const(ex.ask_bool(f"role:startswith:{node.args[0].value}"))
        return None

    rows = explore(repo, strip_docstring(f2.body), {p: Obj(p.upper()) for p in p2}, call_hook=hook2, inline=False, max_rows=4000)
    G2 = p2[2].upper()
    bad = []
    nfile = 0
    for r in rows:
        ys = [e for e in r.effects if e[0] == "yield"]
        isfile = any(v is True for k, v in r.valuation.items() if k.startswith("role:startswith:") and "file" in k)
        for y in ys:
            k = y[2]
            if isfile:
                nfile += 1
                from .builder_rules import term_args
                sp = str(term_args(repo, k).get("search_parameters", ""))
                m = re.fullmatch(r"(COPY@\d+\(([^)]*)\))", sp)
                if not m or m.group(2) != G2:
                    bad.append(("file-level parameters are not a copy of the global ones", k[:200]))
                    continue
                cp = m.group(1)
                ups = [e[2] for e in r.effects if e[0] == "call" and e[1] == f"{cp}.update"]
                if len(ups) != 1 or not ups[0].startswith(f"{cp}.update(FILEPARAMS("):
                    bad.append(("file-level parameters not applied", ups))
            else:
                from .builder_rules import term_args
                if str(term_args(repo, k).get("search_parameters", "")) != G2:
                    bad.append(("plain specification does not get the global parameters", k[:160]))
        if any(e[0] in ("call", "store") and e[1].startswith(G2 + ".") and not e[1].endswith(".copy") for e in r.effects):
            bad.append(("the global parameter dict is modified", [e[1] for e in r.effects if e[1].startswith(G2 + ".")]))
    report.ob("C18.R4", "file level over global (make_adapters_from_one_specification)", not bad and nfile >= 1, facts={"paths": len(rows), "file_paths": nfile, "problems": [str(b)[:240] for b in bad[:2]]},
              expected="parameters = search_parameters.copy(); parameters.update(parse_search_parameters(after ';')); each record: make_adapter(..., parameters, name=name)", loc=repo.loc(f2), cases=len(rows), why=str(bad[0])[:200] if bad else "")
    return rows


def r5_file(repo, report):
    f2 = repo.func("parser", "make_adapters_from_one_specification")
    p2 = params(f2)

    def hook2(ex, node, env):
        r = _copy_hook(ex, node, env)
        if r is not None:
            return r
        if chain(node.func) == "parse_search_parameters":
            return Obj("FILEPARAMS", nonnull=True)
        if isinstance(node.func, ast.Attribute) and node.func.attr == "startswith" and isinstance(node.args[0], ast.Constant):
            return Const(ex.ask_bool(f"role:startswith:{node.args[0].value}"))
        return None

    rows = explore(repo, strip_docstring(f2.body), {p: Obj(p.upper()) for p in p2}, call_hook=hook2, inline=False, max_rows=4000)
    tbl = {}
    for r in rows:
        ys = [e[2] for e in r.effects if e[0] == "yield"]
        if not ys:
            continue
        plain = r.valuation.get("role:startswith:file:")
        caret = r.valuation.get("role:startswith:^file:")
        dollar = r.valuation.get("role:startswith:file$:")
        m = re.match(r"make_adapter\((.*?), ", ys[0])
        first = m.group(1) if m else ys[0][:60]
        form = "file:" if plain else "^file:" if caret else "file$:" if dollar else "other"
        # inside the file branch the code asks startswith('^') to tell ^file: from the rest
        if form != "other":
            c2 = r.valuation.get("role:startswith:^")
            form = "^file:" if c2 else ("file$:" if (dollar or r.valuation.get("role:startswith:file$:")) else "file:")
        terms_ = first.split("+")  # the concatenation as a canonical (order-free) sum: which characters are attached at all;
        pre = "'^'" in terms_      # WHERE they are attached is decided by the syntactic obligation below
        suf = "'$'" in terms_
        tbl.setdefault(form, set()).add((pre, suf))
    want = {"file:": {(False, False)}, "^file:": {(True, False)}, "file$:": {(False, True)}}
    got = {k: v for k, v in tbl.items() if k != "other"}
    report.ob("C18.R5", "anchoring characters of file notation", got == want, facts={k: sorted(v) for k, v in tbl.items()}, expected={k: sorted(v) for k, v in want.items()}, loc=repo.loc(f2), cases=len(rows),
              why="" if got == want else "the anchoring character is not re-attached at the end named by the notation")
    # Where the anchoring characters end up in the specification built for a record.  A record may carry parameters
    # ("ACGT;e=0.2") and may be a linked adapter ("ACGT;e=0.2...TGCA;o=3").  The specification is a closed string function
    # of (record text, prefix, suffix): it is folded for one record of every shape and compared with the documented
    # placement - '^' in front of the record, '$' directly behind the LAST sequence (before that part's parameters).
    from .. import constfold
    f2n = repo.func("parser", "make_adapters_from_one_specification")
    recs = [n for n in ast.walk(f2n) if isinstance(n, ast.For) and isinstance(n.iter, ast.Call) and chain(n.iter.func) == "read_adapters_fasta"]
    okp, factsp, whyp = None, {}, ""
    pre = [chain(n.targets[0]) for n in ast.walk(f2n) if isinstance(n, ast.Assign) and isinstance(n.value, ast.Constant) and n.value.value == "^" and chain(n.targets[0])]
    suf = [chain(n.targets[0]) for n in ast.walk(f2n) if isinstance(n, ast.Assign) and isinstance(n.value, ast.Constant) and n.value.value == "$" and chain(n.targets[0])]
    if len(recs) == 1 and isinstance(recs[0].target, ast.Tuple) and len(recs[0].target.elts) == 2 and isinstance(recs[0].target.elts[1], ast.Name) and len(set(pre)) == 1 and len(set(suf)) == 1:
        rec = recs[0].target.elts[1].id
        mk = [x for x in calls(recs[0]) if chain(x.func) == "make_adapter" and x.args]
        if len(mk) == 1:
            setup = [st for st in recs[0].body if isinstance(st, ast.Assign)]

            def built(record, p_, s_):
                env = {rec: record, pre[0]: p_, suf[0]: s_}
                for st in setup:
                    val = constfold.fold(st.value, env)
                    tgt = st.targets[0]
                    if isinstance(tgt, ast.Name):
                        env[tgt.id] = val
                    elif isinstance(tgt, ast.Tuple) and all(isinstance(e, ast.Name) for e in tgt.elts) and len(tgt.elts) == len(val):
                        for e, v_ in zip(tgt.elts, val):
                            env[e.id] = v_
                    else:
                        raise constfold.NotConstant("assignment target")
                return constfold.fold(mk[0].args[0], env)

            def documented(record, p_, s_):
                head, dots, last = record.rpartition("...")
                seq, semi, par = last.partition(";")
                return p_ + head + dots + seq + s_ + semi + par

            shapes = ["ACGT", "ACGT;e=0.2", "ACGT;e=0.2;o=3", "ACGT...TGCA", "ACGT;e=0.2...TGCA", "ACGT...TGCA;o=3", "ACGT;e=0.2...TGCA;o=3"]
            wrong = []
            try:
                for record in shapes:
                    for p_, s_ in (("", ""), ("^", ""), ("", "$")):
                        g_ = built(record, p_, s_)
                        if g_ != documented(record, p_, s_):
                            wrong.append({"record": record, "anchor": p_ or s_, "specification_built": g_, "documented": documented(record, p_, s_)})
                okp = not wrong
                factsp = {"record_shapes": len(shapes), "wrong": wrong[:2]}
                if wrong:
                    whyp = f"for the record {wrong[0]['record']!r} with anchor {wrong[0]['anchor']!r} the specification becomes {wrong[0]['specification_built']!r} instead of {wrong[0]['documented']!r}: the anchoring character lands in a parameter value or on the wrong part"
            except constfold.NotConstant as e_:
                factsp = {"not_foldable": str(e_)}
    report.ob("C18.R5", "anchoring characters are placed at the record's sequences, not in its parameters", okp, facts=factsp, cases=21,
              expected="'^' + record for ^file:; for file$: the '$' directly behind the sequence of the last '...'-part, before that part's ';parameters'", loc=repo.loc(f2n), why=whyp)
    raf = _roles_read_adapters_fasta(repo)
    from ..repo import expand, nsrc
    ys = [nsrc(src(expand(raf, n.value))) for n in ast.walk(raf) if isinstance(n, ast.Yield)]
    loops = [n for n in ast.walk(raf) if isinstance(n, ast.For) and isinstance(n.target, ast.Name) and any(isinstance(y, ast.Yield) for y in ast.walk(n))]
    rec_ = loops[0].target.id if len(loops) == 1 else None
    hdr = f"{rec_}.name.split(None, 1)"
    want = nsrc(f"(({hdr})[0] if {hdr} else None, {rec_}.sequence)")
    over_reader = len(loops) == 1 and "FastaReader" in src(expand(raf, loops[0].iter))
    report.ob("C18.R5", "read_adapters_fasta yields (name, sequence) of every record", ys == [want] and over_reader, facts={"yields_expanded": ys, "loop_over": src(loops[0].iter) if loops else None},
              expected="for record in FastaReader(f): yield <first word of record.name or None>, record.sequence", loc=repo.loc(raf))


def r6_abs_errors(repo, report):
    c, init = repo.need_method("SingleAdapter", "__init__")
    ps = params(init)
    env = {"self": Obj("self", nonnull=True)}
    for p in ps[1:]:
        env[p] = Obj(p.upper())
    body = strip_docstring(init.body)
    # only the statements up to the assignment of max_error_rate matter
    upto = []
    for s in body:
        upto.append(s)
        if isinstance(s, (ast.Assign, ast.AnnAssign)) and chain(s.targets[0] if isinstance(s, ast.Assign) else s.target) == "self.max_error_rate":
            break

    def hook(ex, node, env):
        cn = chain(node.func)
        if cn in ("_generate_adapter_name", "super().__init__") or (isinstance(node.func, ast.Attribute) and node.func.attr == "__init__"):
            return Obj("IGNORED")
        return None

    rows = explore(repo, upto, env, call_hook=hook, inline=False, integer=False)
    NORM = "SEQUENCE.upper().replace('U', 'T').replace('I', 'N')"
    bad = []
    n = 0
    for r in rows:
        if r.exit[0] == "raise":
            continue
        n += 1
        st = [e[2] for e in r.effects if e[0] == "store" and e[1] == "self.sequence"]
        if st != [NORM]:
            bad.append(("normalised sequence", st))
        rate = [e[2] for e in r.effects if e[0] == "store" and e[1] == "self.max_error_rate"]
        ge1 = r.valuation.get("sign:MAX_ERRORS-1")
        alln = None
        for k, v in r.valuation.items():
            if k.startswith("sign:") and "count('N')" in k and "len(" in k:
                alln = (v == 0)
        if ge1 is None:
            bad.append(("conversion does not depend on max_errors >= 1", rate))
        elif ge1 >= 0 and alln is False:
            want = f"(MAX_ERRORS/len({NORM})-{NORM}.count('N'))"
            ok = len(rate) == 1 and rate[0].replace(" ", "") in (want.replace(" ", ""),) or (len(rate) == 1 and f"len({NORM})" in rate[0] and f"{NORM}.count('N')" in rate[0] and "MAX_ERRORS/" in rate[0] and "SEQUENCE.count" not in rate[0].replace(NORM, ""))
            if not ok:
                bad.append(("divisor", rate))
        elif ge1 < 0:
            if rate != ["MAX_ERRORS"]:
                bad.append(("rate below 1 must be kept", rate))
    report.ob("C18.R6", "SingleAdapter.__init__: absolute error numbers", not bad and n >= 2, facts={"paths": n, "problems": [str(b)[:240] for b in bad[:3]]},
              expected="max_errors >= 1 -> max_errors / (len(seq) - seq.count('N')) on the normalised sequence; a rate below 1 is kept", loc=repo.loc(init), cases=n, why=str(bad[0])[:200] if bad else "")


def r7_rejections(repo, report):
    fn = repo.func("cli", "adapters_from_args")
    tr = [n for n in ast.walk(fn) if isinstance(n, ast.Try)]
    if len(tr) != 1:
        raise Unrecognised("adapters_from_args: try not found", repo.loc(fn))
    h = tr[0].handlers[0]
    caught = {chain(e) for e in (h.type.elts if isinstance(h.type, ast.Tuple) else [h.type])}
    conv = any(isinstance(x, ast.Raise) and isinstance(x.exc, ast.Call) and chain(x.exc.func) == "CommandLineError" for x in h.body)
    report.ob("C18.R7", "adapters_from_args converts to CommandLineError", conv and {"KeyError", "ValueError", "InvalidCharacter"} <= caught, facts={"caught": sorted(caught)}, expected="except (KeyError, ValueError, InvalidCharacter): raise CommandLineError", loc=repo.loc(h))
    # every raise reachable from make_adapters_from_specifications
    scopes = []
    for name, f in repo.funcs("parser").items():
        scopes.append((f"parser.{name}", f))
    for cn in ("AdapterSpecification",):
        for mn, m in repo.cls(cn).methods.items():
            scopes.append((f"{cn}.{mn}", m))
    for cls in [repo.cls("SingleAdapter")] + repo.subclasses("SingleAdapter") + [repo.cls("LinkedAdapter")]:
        for mn in ("__init__", "_aligner", "_kmer_finder", "_make_aligner", "_make_kmer_finder"):
            if mn in cls.methods:
                scopes.append((f"{cls.name}.{mn}", cls.methods[mn]))
    for cn, mns in (("Aligner", ("__cinit__", "_set_reference")), ("PrefixComparer", ("__init__",)), ("SuffixComparer", ("__init__",)), ("KmerFinder", ("__cinit__",))):
        for mn in mns:
            c, m = repo.method(cn, mn)
            if m is not None:
                scopes.append((f"{cn}.{mn}", m))
    for name in ("translate",):
        try:
            scopes.append((f"_align.{name}", repo.func("_align", name)))
        except Unrecognised:
            pass
    ok_classes = set(caught)
    subclass_of = {"InvalidCharacter": "Exception"}
    exempt = {"MemoryError": "out of memory, not an input error", "NotImplementedError": "internal consistency check of the k-mer table builder", "TypeError": "internal type check of KmerFinder"}
    n = 0
    for q, f in scopes:
        for x in walk_no_nested(f):
            if isinstance(x, ast.Raise) and x.exc is not None:
                n += 1
                cls = chain(x.exc.func) if isinstance(x.exc, ast.Call) else chain(x.exc)
                if cls in exempt:
                    continue
                ok = cls in ok_classes
                # re-raise inside the KmerFinder fallback: ValueError -> MockKmerFinder
                report.ob("C18.R7", f"{q}: raise {cls}", ok, facts={"statement": src(x)[:100], "caught": sorted(caught)}, expected="an exception class caught by adapters_from_args", loc=repo.loc(x),
                          why="" if ok else f"{cls} is not converted to a CommandLineError: the user sees a traceback")
    report.floor("C18.R7", "raise statements on the specification path", n, 25)


def r8_braces(repo, report):
    fn = repo.func("parser", "expand_braces")
    ps = params(fn)
    body = strip_docstring(fn.body)
    loops = [n for n in body if isinstance(n, ast.For)]
    if len(loops) != 1 or not isinstance(loops[0].target, ast.Name):
        raise Unrecognised("expand_braces: token loop not found", repo.loc(fn))
    lp = loops[0]
    tok = lp.target.id
    # tokens: the specification split at braces, braces kept
    it = lp.iter
    ok_split = isinstance(it, ast.Call) and chain(it.func) == "re.split" and len(it.args) == 2 and isinstance(it.args[0], ast.Constant) and it.args[0].value in ("([{}])", "([}{])") and src(it.args[1]) == ps[0]
    report.ob("C18.R8", "expand_braces: tokens", ok_split, facts={"iterates": src(it)}, expected=f"re.split('([{{}}])', {ps[0]}): text runs and single braces alternate", loc=repo.loc(lp))
    # locals by role: the state is the variable tested with isinstance(.., int); the output is what is returned
    st_names = {src(x.args[0]) for x in ast.walk(fn) if isinstance(x, ast.Call) and chain(x.func) == "isinstance" and len(x.args) == 2 and src(x.args[1]) == "int" and isinstance(x.args[0], ast.Name)}
    rets = [n.value for n in body if isinstance(n, ast.Return)]
    if len(st_names) != 1 or len(rets) != 1 or not isinstance(rets[0], ast.Name):
        raise Unrecognised("expand_braces: state / result variables not found", repo.loc(fn))
    S, R = st_names.pop(), rets[0].id
    states = {"start": (Const(None), {}), "text": (Obj("PREV", nonnull=True), {"eq:PREV:'{'": False, "isinstance:PREV:int": False, "eq:PREV:'}'": False}),
              "open": (Const("{"), {}), "count": (Lin.atom("N"), {"eq:N:'{'": False, "isinstance:N:int": True, "eq:N:'}'": False})}
    toks = {"text": (Obj("TOK", nonnull=True), {"eq:TOK:''": False, "eq:TOK:'{'": False, "eq:TOK:'}'": False}), "{": (Const("{"), {}), "}": (Const("}"), {})}
    want = {("start", "text"): ("text", "append"), ("start", "{"): "raise", ("start", "}"): "raise",
            ("text", "{"): ("open", "keep"), ("text", "}"): "raise", ("text", "text"): "raise",
            ("count", "}"): ("start", "repeat"), ("count", "{"): "raise", ("count", "text"): "raise"}
    bad = []
    n = 0
    for sn, (sv, sval) in states.items():
        for tn, (tv, tval) in toks.items():
            rows = explore(repo, lp.body, {S: sv, tok: tv, R: Obj("OUT", nonnull=True)}, inline=False, loop_mode="forbid", initial=dict(sval, **tval))
            n += len(rows)
            for r in rows:
                out = vkey(r.env.get(R))
                nxt = vkey(r.env.get(S))
                if sn == "open":
                    # whatever follows '{' goes through int(): a brace or a non-number raises ValueError there (builtin); a number must lie in [0, 10000]
                    arg = "TOK" if tn == "text" else f"'{tn}'"
                    from ..absint import entails

                    X = Lin.atom(f"int({arg})")
                    if not any(k.startswith("sign:") and f"int({arg})" in k for k in r.valuation):
                        bad.append((sn, tn, "the token after '{' is not converted with int() and range-checked", r.describe()["valuation"]))
                        continue
                    negative = entails(r.valuation, ast.Lt(), X, Lin.k(0)) is True
                    above = entails(r.valuation, ast.Gt(), X, Lin.k(10000)) is True  # the upper limit is an implementation choice: raising it is fine
                    nonneg = entails(r.valuation, ast.GtE(), X, Lin.k(0)) is True
                    if negative:
                        if r.exit[0] != "raise":
                            bad.append((sn, tn, "a negative count must raise", r.describe()["valuation"]))
                    elif above:
                        pass
                    elif not nonneg:
                        bad.append((sn, tn, "the count is accepted or rejected without having been compared with 0", r.exit[0], r.describe()["valuation"]))
                    elif r.exit[0] != "fall" or nxt != f"int({arg})" or out != "OUT":
                        bad.append((sn, tn, "a count in [0, 10000] must become the state", r.exit[0], r.describe()["valuation"]))
                    continue
                w = want[(sn, tn)]
                if w == "raise":
                    if r.exit[0] != "raise":
                        bad.append((sn, tn, "must raise", r.exit[0], nxt))
                    continue
                wstate, weff = w
                wnext = {"text": "TOK", "open": "'{'", "start": "None"}[wstate]
                wout = {"append": (Lin.atom("OUT") + Lin.atom("TOK")).key(), "keep": "OUT", "repeat": (Lin.atom("N") * Lin.atom("OUT[-1]") + Lin.atom("OUT[:-1]")).key()}[weff]
                if r.exit[0] != "fall" or nxt != wnext or out != wout:
                    bad.append((sn, tn, f"expected next state {wstate} and output {weff}", r.exit[0], nxt, out))
    # the repeated character replaces the last one written, in place (order of the concatenation)
    rep = [x for x in ast.walk(lp) if isinstance(x, ast.Assign) and chain(x.targets[0]) == R and isinstance(x.value, ast.BinOp) and isinstance(x.value.op, ast.Add)]
    ok_order = len(rep) == 1 and src(rep[0].value.left) == f"{R}[:-1]" and isinstance(rep[0].value.right, ast.BinOp) and isinstance(rep[0].value.right.op, ast.Mult) and {src(rep[0].value.right.left), src(rep[0].value.right.right)} == {f"{R}[-1]", S}
    if not ok_order:
        bad.append(("count", "}", "the output must be output[:-1] + output[-1] * count", src(rep[0].value) if rep else None))
    report.ob("C18.R8", "expand_braces: transition table", not bad, facts={"rows": n, "problems": [str(b)[:240] for b in bad[:3]]},
              expected="start: text -> text (written); text: '{' -> open; open: int(token) in [0, 10000] -> count; count: '}' -> start with the last character repeated count times; everything else raises", loc=repo.loc(lp), cases=n,
              why=str(bad[0])[:220] if bad else "")
    # end of input: only 'start' and 'text' are accepting
    tail = body[body.index(lp) + 1:]
    bad = []
    for sn, (sv, sval) in states.items():
        rows = explore(repo, tail, {S: sv, R: Obj("OUT", nonnull=True)}, inline=False, initial=dict(sval))
        for r in rows:
            accept = sn in ("start", "text")
            if accept and not (r.exit[0] == "return" and vkey(r.exit[1]) == "OUT"):
                bad.append((sn, "must return the output", r.exit[0]))
            if not accept and r.exit[0] != "raise":
                bad.append((sn, "an unterminated expression must raise", r.exit[0]))
    report.ob("C18.R8", "expand_braces: end of input", not bad, facts={"problems": [str(b) for b in bad[:3]]}, expected="return the output in the states start / after text; raise after '{' or after the count", loc=repo.loc(fn), cases=4)
    inits = {chain(x.targets[0]): src(x.value) for x in body[:body.index(lp)] if isinstance(x, ast.Assign)}
    report.ob("C18.R8", "expand_braces: initial state", inits.get(S) == "None" and inits.get(R) == "''", facts=inits, expected="state None, output ''", loc=repo.loc(fn))
    raised = {chain(x.exc.func) if isinstance(x.exc, ast.Call) else chain(x.exc) for x in ast.walk(fn) if isinstance(x, ast.Raise) and x.exc is not None}
    report.ob("C18.R8", "expand_braces raises ValueError only", raised == {"ValueError"}, facts={"raises": sorted(map(str, raised))}, expected="ValueError (converted by adapters_from_args, C18.R7)", loc=repo.loc(fn))
    # applied to the sequence before the class is chosen
    c, pa = repo.need_method("AdapterSpecification", "parse")
    cs = [x for x in calls(pa) if chain(x.func) == "expand_braces"]
    asg = [n_ for n_ in ast.walk(pa) if isinstance(n_, ast.Assign) and n_.value in cs]
    ok = len(cs) == 1 and len(asg) == 1 and isinstance(asg[0].targets[0], ast.Name) and src(cs[0].args[0]) == asg[0].targets[0].id
    report.ob("C18.R8", "AdapterSpecification.parse expands braces in the sequence", ok, facts={"call": src(asg[0]) if asg else None}, expected="spec = expand_braces(spec)", loc=repo.loc(pa))


def r2_anchored(repo, report):
    """'^' and '$' anchor: the classes they select must require the whole adapter (same construct as C01.R1)."""
    from ..core import Report
    from . import c01

    tmp = Report("C18", report.tier)
    c01.r1_anchored_full_length(repo, tmp)
    n = 0
    for o in tmp.obligations:
        n += 1
        report.ob("C18.R2", o.construct, None if o.state == "UNRECOGNISED" else o.state == "DISCHARGED", facts=o.facts, expected=o.expected, loc=o.loc, why=o.why, cases=o.cases)
    report.floor("C18.R2", "anchored adapter classes", n, 2)


def r3_routes(repo, report):
    """Parameters reach the adapter constructors on two routes: in the specification itself (``SEQ;key``) and from the
    ``file:...;key`` level, merged into the dict that is handed down as the lower level.  A canonical key that is not a
    constructor parameter must be consumed - or rejected with one of the caught exception classes - on BOTH routes;
    otherwise the constructor is called with an unknown keyword (TypeError: a traceback instead of exit status 2)."""
    fn = _roles_parse_search_parameters(repo)
    tbl = [n for n in ast.walk(fn) if isinstance(n, ast.Assign) and chain(n.targets[0]) == "allowed_parameters" and isinstance(n.value, ast.Dict)]
    t = constfold.fold(tbl[0].value)
    canon = {k for k, v in t.items() if v is None}
    c, init = repo.need_method("SingleAdapter", "__init__")
    ctor = set(params(init)[1:]) | {"force_anywhere"}
    converted = set()
    for n in ast.walk(fn):
        if isinstance(n, ast.If) and isinstance(n.test, ast.Compare) and isinstance(n.test.left, ast.Constant) and isinstance(n.test.ops[0], ast.In) and any(isinstance(x, ast.Delete) for x in n.body):
            converted.add(n.test.left.value)
    nc = sorted(canon - ctor - converted)
    # is anything rejected at the file level?
    f1 = repo.func("parser", "make_adapters_from_one_specification")
    file_rejected = {x.value for n in ast.walk(f1) if isinstance(n, ast.If) and any(isinstance(r_, ast.Raise) for r_ in ast.walk(n)) for x in ast.walk(n.test) if isinstance(x, ast.Constant) and isinstance(x.value, str)}
    for n in ast.walk(f1):
        if isinstance(n, ast.For) and any(isinstance(r_, ast.Raise) for r_ in ast.walk(n)) and isinstance(n.iter, (ast.Tuple, ast.List, ast.Set)):
            file_rejected |= {e.value for e in n.iter.elts if isinstance(e, ast.Constant) and isinstance(e.value, str)}
    n_ob = 0
    for fname in ("_make_not_linked_adapter", "_make_linked_adapter"):
        f = repo.func("parser", fname)
        ps = params(f)
        low = ps[-1]  # the lower-level dict (global options, possibly updated with the file level)
        merged = {n.targets[0].id for n in ast.walk(f) if isinstance(n, ast.Assign) and isinstance(n.targets[0], ast.Name) and isinstance(n.value, ast.Call) and isinstance(n.value.func, ast.Attribute) and n.value.func.attr == "copy" and chain(n.value.func.value) == low}
        for n in ast.walk(f):  # a loop over the merged dicts: its variable stands for each of them
            if isinstance(n, ast.For) and isinstance(n.iter, (ast.Tuple, ast.List)) and n.iter.elts and all(isinstance(e, ast.Name) and e.id in merged for e in n.iter.elts) and isinstance(n.target, ast.Name):
                merged = merged | {n.target.id}
        spec_dicts = {chain(x.func.value) for x in calls(f) if isinstance(x.func, ast.Attribute) and x.func.attr in ("pop", "get", "update") and chain(x.func.value) and chain(x.func.value).endswith(".parameters")}
        for key in nc:
            n_ob += 1
            popped_merged = any(isinstance(x.func, ast.Attribute) and x.func.attr == "pop" and chain(x.func.value) in merged and x.args and isinstance(x.args[0], ast.Constant) and x.args[0].value == key for x in calls(f))
            popped_spec = any(isinstance(x.func, ast.Attribute) and x.func.attr == "pop" and (chain(x.func.value) or "").endswith(".parameters") and x.args and isinstance(x.args[0], ast.Constant) and x.args[0].value == key for x in calls(f))
            def rejects(where):
                for n in ast.walk(f):
                    if isinstance(n, ast.If) and any(isinstance(r_, ast.Raise) for r_ in n.body) and any(isinstance(x, ast.Constant) and x.value == key for x in ast.walk(n.test)):
                        names = {chain(x) for x in ast.walk(n.test) if isinstance(x, (ast.Name, ast.Attribute)) and chain(x)}
                        if where == "merged" and names & merged:
                            return True
                        if where == "spec" and any(nm.endswith(".parameters") for nm in names):
                            return True
                return False
            # 'rightmost' and 'required' of the specification itself are consumed by AdapterSpecification.parse / the linked logic
            c2, pa = repo.need_method("AdapterSpecification", "parse")
            consumed_in_parse = any(isinstance(x.func, ast.Attribute) and x.func.attr == "pop" and x.args and isinstance(x.args[0], ast.Constant) and x.args[0].value == key for x in calls(pa))
            spec_ok = popped_spec or popped_merged or rejects("spec") or rejects("merged") or consumed_in_parse
            file_ok = popped_merged or rejects("merged") or key in file_rejected
            for route, ok_ in (("specification", spec_ok), ("file level", file_ok)):
                report.ob("C18.R3", f"{fname}: '{key}' given at the {route} never reaches the adapter constructor", ok_,
                          facts={"popped_from_merged_dict": popped_merged, "popped_from_the_specification's_own_dict": popped_spec or consumed_in_parse, "rejected_at_file_level": key in file_rejected},
                          expected="popped before **parameters, or rejected with ValueError/KeyError (-> exit status 2)", loc=repo.loc(f), fact_key="nonconstructor-key-leaks",
                          why="" if ok_ else f"'{key}' is not a keyword of the adapter classes and nothing removes or rejects it on this route: the constructor raises TypeError, which adapters_from_args does not convert (traceback, exit status 1)")
    report.floor("C18.R3", "non-constructor keys x maker functions", n_ob, 4)
