"""C13 - Quality trimming removes exactly the BWA-defined low-quality ends (the decision structure)."""
from __future__ import annotations

import ast

from ..absint import Const, Obj, Tup, explore, vkey
from ..core import Unrecognised
from ..lin import Lin
from ..repo import chain, params, src, strip_docstring, calls
from ..tables import Bool, Sign, check_table, SKIP
from . import builder_rules


def run(repo, report, tier):
    report.rule("C13.R1", "reported = removed: QualityTrimmer adds len - (stop - start) and returns read[start:stop]; NextseqQualityTrimmer adds len - stop and returns read[:stop]", "the quality-trimmed base count differs from the bases actually removed")
    report.rule("C13.R2", "parameters arrive in role: '5p,3p' -> (front, back), one value -> (0, value), through the constructors to quality_trim_index(qualities, cutoff_front, cutoff_back, base); --quality-base reaches both trimmers and the zero capper; -Q replaces -q for R2",
                "the 5' cutoff is applied to the 3' end, or --quality-base 64 is ignored by one trimmer")
    report.rule("C13.R3", "scan decisions: each scan adds cutoff - (q - base) to the running sum, stops iff the sum becomes negative, records a new optimum iff the sum is strictly greater than the best so far; the recorded index is the current position (3') resp. one past it (5'); scans run from the respective end; the two ends combine to (0, 0) iff start >= stop; the NextSeq scan is the 3' scan with q = cutoff - 1 for G",
                "ties and the early stop rule change which suffix/prefix is removed for particular quality patterns")
    report.rule("C13.R4", "the quality base only shifts the scale: it occurs only as (q - base)", "base 64 files are trimmed differently from the same qualities in base 33")
    report.guard("C13.R1", "trimmers", r1_reported, repo, report)
    report.guard("C13.R2", "make_quality_trimmers", r2_which_trimmers, repo, report)
    report.guard("C13.R2", "parameter roles", r2_roles, repo, report)
    report.guard("C13.R3", "scans", r3_scans, repo, report)
    report.guard("C13.R3", "decoded qualities are signed", r3_signed_qualities, repo, report)
    report.notes.append("Not decided: that this scan computes the stated arg-min for every quality string (a statement about sums of runtime values); R3 fixes the tie and stop rules and the recorded positions, nothing more.")


def r1_reported(repo, report):
    for cname, fname in (("QualityTrimmer", "quality_trim_index"), ("NextseqQualityTrimmer", "nextseq_trim_index")):
        cls = repo.cls(cname)
        c, fn = repo.need_method(cname, "__call__")
        ps = params(fn)

        def hook(ex, node, env, fname=fname):
            if chain(node.func) == fname:
                ex.calls.append((fname + "(" + ", ".join(vkey(ex.ev(a, env)) for a in node.args) + ")", node, fname))
                if fname == "quality_trim_index":
                    return Tup([Lin.atom("START"), Lin.atom("STOP")])
                return Lin.atom("STOP")
            return None

        rows = explore(repo, strip_docstring(fn.body), {"self": Obj("self", nonnull=True), ps[1]: Obj("READ", nonnull=True), ps[2]: Obj("INFO", nonnull=True)}, call_hook=hook, inline=False)
        bad = []
        for r in rows:
            ret = vkey(r.exit[1]) if r.exit[0] == "return" else r.exit[0]
            incs = [e for e in r.effects if e[0] == "aug" and e[1] == "self.trimmed_bases"]
            if cname == "QualityTrimmer":
                want_ret, want_inc = "READ[START:STOP]", (Lin.atom("len(READ)") - (Lin.atom("STOP") - Lin.atom("START"))).key()
            else:
                want_ret, want_inc = "READ[:STOP]", (Lin.atom("len(READ)") - Lin.atom("STOP")).key()
            if ret != want_ret:
                bad.append(("returns", ret, want_ret))
            if len(incs) != 1 or incs[0][2] != "+" + want_inc:
                bad.append(("counter", [e[2] for e in incs], "+" + want_inc))
            args = [c_[0] for c_ in r.calls if c_[2] == fname]
            want_call = "quality_trim_index(READ.qualities, self.cutoff_front, self.cutoff_back, self.base)" if cname == "QualityTrimmer" else "nextseq_trim_index(READ, self.cutoff, self.base)"
            if args != [want_call]:
                bad.append(("index call", args, want_call))
        report.saw(function=f"{cname}.__call__", file=cls.module.relpath, paths=len(rows))
        report.ob("C13.R1", f"{cname}.__call__", not bad and len(rows) == 1, facts={"problems": [str(b)[:240] for b in bad]}, expected="counter += len(read) - (kept length); the kept slice is returned; the index routine gets (qualities|read, cutoffs..., base)", loc=repo.loc(fn),
                  why=str(bad[0])[:200] if bad else "")
        # constructor stores its parameters under their own names
        c2, init = repo.need_method(cname, "__init__")
        ip = params(init)[1:]
        st = {chain(t): src(n.value) for n in ast.walk(init) if isinstance(n, ast.Assign) for t in n.targets if chain(t)}
        ok = all(st.get(f"self.{p}") == p for p in ip) and st.get("self.trimmed_bases") == "0"
        report.ob("C13.R2", f"{cname}.__init__", ok, facts={k: v for k, v in st.items()}, expected="each parameter stored under its own name; counter starts at 0", loc=repo.loc(init))
    # signatures of the index routines
    q = repo.func("qualtrim", "quality_trim_index")
    n = repo.func("qualtrim", "nextseq_trim_index")
    ok = params(q) == ["qualities", "cutoff_front", "cutoff_back", "base"] and params(n) == ["sequence", "cutoff", "base"]
    report.ob("C13.R2", "qualtrim signatures", ok, facts={"quality_trim_index": params(q), "nextseq_trim_index": params(n)}, expected="(qualities, cutoff_front, cutoff_back, base) / (sequence, cutoff, base)", loc=repo.loc(q))
    c, qi = repo.need_method("QualityTrimmer", "__init__")
    report.ob("C13.R2", "QualityTrimmer parameter order", params(qi)[1:] == ["cutoff_front", "cutoff_back", "base"], facts={"params": params(qi)[1:]}, expected=["cutoff_front", "cutoff_back", "base"], loc=repo.loc(qi))


def r2_which_trimmers(repo, report):
    """make_quality_trimmers: a quality trimmer exists for a read iff a cutoff applies to it and is not the literal
    "0"; it gets BOTH parsed cutoffs and the quality base; in paired mode a missing -Q copies -q."""
    import re as _re
    fn = repo.func("cli", "make_quality_trimmers")
    if fn is None:
        raise Unrecognised("cli.make_quality_trimmers not found")
    ps = params(fn)
    if len(ps) != 4:
        raise Unrecognised("make_quality_trimmers: four parameters (cutoff1, cutoff2, quality_base, paired) expected", repo.loc(fn))

    def hook(ex, node, env):
        cn = chain(node.func)
        if cn == "QualityTrimmer":
            a = []
            for x in node.args:
                if isinstance(x, ast.Starred):
                    base = vkey(ex.ev(x.value, env))
                    a += [f"{base}[0]", f"{base}[1]"]
                else:
                    a.append(vkey(ex.ev(x, env)))
            a += [f"{k.arg}={vkey(ex.ev(k.value, env))}" for k in node.keywords]
            return Obj("QT(" + ", ".join(a) + ")", nonnull=True)
        if cn in ("copy.copy", "copy", "copy.deepcopy"):
            v = ex.ev(node.args[0], env)
            if isinstance(v, Const) and v.value is None:
                return Const(None)
            return Obj(f"COPY({vkey(v)})", nonnull=getattr(v, "nonnull", False))
        return None

    def qt(q):
        return f"QT(parse_cutoffs({q})[0], parse_cutoffs({q})[1], QB)"

    roles = {"n1": Bool("isnone:Q1"), "z1": Bool("eq:Q1:'0'"), "n2": Bool("isnone:Q2"), "z2": Bool("eq:Q2:'0'")}

    def constraint(rv):
        return not (rv["n1"] and rv["z1"]) and not (rv["n2"] and rv["z2"])

    bad = []
    cases = 0
    for paired in (False, True):
        rows = explore(repo, strip_docstring(fn.body), {ps[0]: Obj("Q1"), ps[1]: Obj("Q2"), ps[2]: Obj("QB", nonnull=True), ps[3]: Const(paired)}, call_hook=hook, inline=False)

        def outcome(r):
            return tuple(str(e[2]) for e in r.effects if e[0] == "yield") if r.exit[0] != "raise" else ("raise",)

        def expected(rv, paired=paired):
            t1 = qt("Q1") if not rv["n1"] and not rv["z1"] else None
            t2 = qt("Q2") if not rv["n2"] and not rv["z2"] else None
            if not paired:
                return (t1,) if t1 else ()
            if not rv["n1"] and rv["n2"]:
                t2 = f"COPY({t1})" if t1 else None
            return (f"({t1}, {t2})",) if (t1 or t2) else ()

        mism, n, _ = check_table(rows, roles, expected, outcome, constraint=constraint, independent_extras=True)
        cases += n
        bad += [dict(m, paired=paired) for m in mism]
    report.ob("C13.R2", "make_quality_trimmers: which trimmers are built, with which cutoffs", not bad, facts={"mismatches": bad[:3]}, cases=cases, loc=repo.loc(fn),
              expected='a trimmer for a read iff its cutoff is given and is not the literal "0"; QualityTrimmer(front, back, quality_base); paired: a missing -Q copies the -q trimmer; nothing is yielded when there is no trimmer',
              why=(f"for {bad[0]['inputs']} (paired={bad[0]['paired']}) the function yields {bad[0]['code']}, expected {bad[0]['expected']}" if bad else ""))


def r2_roles(repo, report):
    fn = repo.func("cli", "parse_cutoffs")
    ps = params(fn)

    def hook(ex, node, env):
        return None

    rows = explore(repo, strip_docstring(fn.body), {ps[0]: Obj("S", nonnull=True)}, inline=False)
    tbl = {}
    for r in rows:
        k1 = None
        for k, v in r.valuation.items():
            if k.startswith("sign:len(") and k.endswith(")-1"):
                k1 = v
        k2 = None
        for k, v in r.valuation.items():
            if k.startswith("sign:len(") and k.endswith(")-2"):
                k2 = v
        key = "one" if k1 == 0 else "two" if k2 == 0 else "other"
        tbl.setdefault(key, set()).add(vkey(r.exit[1]) if r.exit[0] == "return" else r.exit[0])
    C = "[int(each(S.split(',')))]"
    ok = tbl.get("one") == {f"(0, {C}[0])"} and tbl.get("two") == {f"({C}[0], {C}[1])"} and tbl.get("other") == {"raise"}
    report.ob("C13.R2", "parse_cutoffs", ok, facts={k: sorted(v) for k, v in tbl.items()}, expected="one value -> (0, v); 'a,b' -> (a, b); otherwise an error", loc=repo.loc(fn), cases=len(rows))
    # builder terms
    for paired in (False, True):
        m = builder_rules.model(repo, paired)
        mode = "paired" if paired else "single"
        bad = []
        seen = 0
        for bi, ri, pos, val, s in m.slots("modifiers"):
            k = s.key
            if "NextseqQualityTrimmer(" in k:
                seen += 1
                if "NextseqQualityTrimmer(args.nextseq_trim, args.quality_base)" not in k:
                    bad.append(k[:120])
            if "QualityTrimmer(*" in k:
                seen += 1
                for part in k.replace("copy(", "").split("QualityTrimmer(")[1:]:
                    if part.startswith("args.nextseq"):
                        continue
                    if not (part.startswith("*parse_cutoffs(args.quality_cutoff), args.quality_base)") or part.startswith("*parse_cutoffs(args.quality_cutoff2), args.quality_base)")):
                        bad.append("QualityTrimmer(" + part[:80])
            if "ZeroCapper(" in k:
                seen += 1
                if "ZeroCapper(args.quality_base)" not in k and "ZeroCapper(quality_base=args.quality_base)" not in k:
                    bad.append(k[:100])
        report.ob("C13.R2", f"{mode}: --quality-base and the cutoffs reach the trimmers", not bad and seen >= 3, facts={"slots": seen, "problems": bad[:3]},
                  expected="NextseqQualityTrimmer(args.nextseq_trim, args.quality_base); QualityTrimmer(*parse_cutoffs(cutoff), args.quality_base); ZeroCapper(quality_base=args.quality_base)", loc="src/cutadapt/cli.py",
                  why=(f"{bad[0]} does not receive its documented parameters" if bad else ""))
    # -Q replaces, absence copies (paired)
    m = builder_rules.model(repo, True)
    tbl = {}
    for bi, ri, pos, val, s in m.slots("modifiers"):
        if "QualityTrimmer(*" in s.key and isinstance(s.value, Tup):
            q2 = val.get("isnone:args.quality_cutoff2")
            a, b = [vkey(x) for x in s.value.items]
            tbl.setdefault(str(q2), set()).add((a[:60], b[:66]))
    ok = all("quality_cutoff2" not in b and (b.startswith("copy(") or b == "None") for a, b in tbl.get("True", [])) and all(("quality_cutoff2" in b) or b == "None" for a, b in tbl.get("False", [])) and tbl.get("True") and tbl.get("False")
    report.ob("C13.R2", "paired: -Q replaces -q for R2, absence copies it", ok, facts={k: sorted(v) for k, v in tbl.items()}, expected="no -Q: R2 gets a copy of the -q trimmer; -Q given: R2 gets its own trimmer (or none for -Q 0)", loc="src/cutadapt/cli.py")


def _scan_loops(fn):
    """loops whose body updates a running sum with cutoff - (q - base)"""
    out = []
    for n in ast.walk(fn):
        if isinstance(n, ast.For):
            augs = [s for s in n.body if isinstance(s, ast.AugAssign) and isinstance(s.op, ast.Add) and isinstance(s.target, ast.Name)]
            if augs:  # a scan that lost its stopping rule is still a scan: the table reports the missing stop
                out.append((n, augs[0].target.id))
    return out


_ROLES: dict = {}


def _scan_table(repo, report, name, loop, sumvar, fn, kind, cutoff_name, expect_index):
    """kind: '5p' | '3p' | 'nextseq'"""
    iv = loop.target.id
    # names: best (the variable compared with the sum and assigned from it), index (assigned from i)
    env = {sumvar: Lin.atom("S"), iv: Lin.atom("I")}
    best = idx = None
    for s in ast.walk(loop):
        if isinstance(s, ast.Assign) and isinstance(s.targets[0], ast.Name) and isinstance(s.value, ast.Name) and s.value.id == sumvar:
            best = s.targets[0].id
    for s in ast.walk(loop):
        if isinstance(s, ast.Assign) and isinstance(s.targets[0], ast.Name) and s.targets[0].id not in (best, sumvar, "q") and any(isinstance(x, ast.Name) and x.id == iv for x in ast.walk(s.value)):
            idx = s.targets[0].id
    if best is None or idx is None:
        report.unrecognised("C13.R3", name, f"best/index variables not identified (best={best}, index={idx})", repo.loc(loop))
        return None
    env[best] = Lin.atom("BEST")
    env[idx] = Lin.atom("IDX")
    for p in params(fn):
        env[p] = Lin.atom(p.upper()) if p in ("cutoff", "cutoff_front", "cutoff_back", "base") else Obj(p.upper(), nonnull=True)
    env["qual"] = Obj("QUAL", nonnull=True)
    env["bases"] = Obj("BASES", nonnull=True)
    rows = explore(repo, loop.body, env, inline=False, loop_mode="forbid")
    report.saw(function=f"qualtrim.{fn.name}", file="src/cutadapt/qualtrim.pyx", valuations=len(rows))
    CUT = Lin.atom(cutoff_name.upper())
    # the new sum on the non-G path
    bad = []
    for r in rows:
        isg = r.valuation.get("eq:BASES[I]:'G'")
        if kind == "nextseq" and isg:
            newsum = Lin.atom("S") + 1  # cutoff - (cutoff - 1)
        else:
            newsum = Lin.atom("S") + CUT - Lin.atom("QUAL[I]") + Lin.atom("BASE")
        from ..absint import Executor, NeedAtom

        judge = Executor(None, r.valuation)

        def decided(op, a, b):
            try:
                return judge.compare(op, a, b)
            except NeedAtom:
                return None

        neg = decided(ast.Lt(), newsum, Lin.k(0))
        s_sign = None if neg is None else (-1 if neg else 1)
        gt = decided(ast.Gt(), newsum, Lin.atom("BEST"))
        b_sign = None if gt is None else (1 if gt else 0)
        if s_sign is None:
            bad.append(("the stop test is not on the updated running sum cutoff - (q - base)", sorted(r.valuation)))
            continue
        stops = r.exit[0] == "break"
        if stops != (s_sign < 0):
            bad.append(("stop rule", {"sum": s_sign}, r.exit[0]))
            continue
        if stops:
            if vkey(r.env[best]) != "BEST" or vkey(r.env[idx]) != "IDX":
                bad.append(("optimum updated on the stopping step", vkey(r.env[best])))
            continue
        if b_sign is None:
            bad.append(("no comparison with the best sum so far", sorted(r.valuation)))
            continue
        updated = vkey(r.env[best]) != "BEST"
        if updated != (b_sign > 0):
            bad.append(("optimum rule", {"sum-best": b_sign}, "updated" if updated else "kept"))
            continue
        if updated:
            if r.env[best] != newsum:
                bad.append(("best is not set to the running sum", vkey(r.env[best])))
            want = Lin.atom("I") + (1 if expect_index == "i+1" else 0)
            if r.env[idx] != want:
                bad.append(("recorded index", vkey(r.env[idx]), want.key()))
    _ROLES[name] = {"sum": sumvar, "best": best, "index": idx}
    report.ob("C13.R3", name, not bad, facts={"rows": len(rows), "problems": [str(b)[:240] for b in bad[:3]]},
              expected=f"sum += cutoff - (q - base){' (q = cutoff - 1 for G)' if kind == 'nextseq' else ''}; stop iff sum < 0; new optimum iff sum > best, index = {expect_index}", loc=repo.loc(loop), cases=len(rows),
              why=str(bad[0])[:240] if bad else "")


def r3_scans(repo, report):
    q = repo.func("qualtrim", "quality_trim_index")
    loops = _scan_loops(q)
    if len(loops) != 2:
        raise Unrecognised(f"quality_trim_index: expected two scans, found {len(loops)}", repo.loc(q))
    (l5, s5), (l3, s3) = loops
    # directions
    ok_dir = src(l5.iter).startswith("range(") and src(l3.iter) == f"reversed({src(l5.iter)})"
    report.ob("C13.R3", "quality_trim_index: scan directions", ok_dir, facts={"first": src(l5.iter), "second": src(l3.iter)}, expected="5' scan over range(n), 3' scan over reversed(range(n))", loc=repo.loc(q))
    # which cutoff each scan uses
    c5 = [x.id for x in ast.walk(l5.body[0]) if isinstance(x, ast.Name) and x.id.startswith("cutoff")]
    c3 = [x.id for x in ast.walk(l3.body[0]) if isinstance(x, ast.Name) and x.id.startswith("cutoff")]
    report.ob("C13.R3", "quality_trim_index: cutoff per end", c5 == ["cutoff_front"] and c3 == ["cutoff_back"], facts={"5p": c5, "3p": c3}, expected="5' scan uses cutoff_front, 3' scan cutoff_back", loc=repo.loc(q))
    _scan_table(repo, report, "quality_trim_index: 5' scan", l5, s5, q, "5p", "cutoff_front", "i+1")
    _scan_table(repo, report, "quality_trim_index: 3' scan", l3, s3, q, "3p", "cutoff_back", "i")
    # initialisation before each scan and the combination
    body = strip_docstring(q.body)
    def inits_before(loop):
        i = body.index(loop)
        vals = {}
        for s in body[:i]:
            if isinstance(s, (ast.Assign, ast.AnnAssign)):
                t = s.targets[0] if isinstance(s, ast.Assign) else s.target
                if isinstance(t, ast.Name) and getattr(s, "value", None) is not None:
                    vals[t.id] = src(s.value)
        return vals
    v5, v3 = inits_before(l5), inits_before(l3)
    r5, r3 = _ROLES.get("quality_trim_index: 5' scan"), _ROLES.get("quality_trim_index: 3' scan")
    if r5 is None or r3 is None:
        report.unrecognised("C13.R3", "quality_trim_index: initial values", "scan roles not identified", repo.loc(q))
    else:
        # a variable shared by both scans must be reset BETWEEN them (the 5' scan leaves its own values behind)
        between = {}
        for st in body[body.index(l5) + 1:body.index(l3)]:
            if isinstance(st, (ast.Assign, ast.AnnAssign)) and getattr(st, "value", None) is not None:
                t = st.targets[0] if isinstance(st, ast.Assign) else st.target
                if isinstance(t, ast.Name):
                    between[t.id] = src(st.value)
        for role in ("sum", "best"):
            if r3[role] == r5[role]:
                v3[r3[role]] = between.get(r3[role], "<not reset after the 5' scan>")
        nvar = [k for k, v in v5.items() if v == f"len({params(q)[0]})"]
        ok = v5.get(r5["sum"]) == "0" and v5.get(r5["best"]) == "0" and v5.get(r5["index"]) == "0" and v3.get(r3["sum"]) == "0" and v3.get(r3["best"]) == "0" and len(nvar) == 1 and v3.get(r3["index"]) == nvar[0] and src(l5.iter) == f"range({nvar[0]})"
        report.ob("C13.R3", "quality_trim_index: initial values", ok, facts={"before_5p": {k: v5.get(v) for k, v in r5.items()}, "before_3p": {k: v3.get(v) for k, v in r3.items()}}, expected="sum and best reset to 0 before each scan; start = 0, stop = n", loc=repo.loc(q))
    tail = body[body.index(l3) + 1:]
    r5, r3 = _ROLES.get("quality_trim_index: 5' scan") or {"index": "start"}, _ROLES.get("quality_trim_index: 3' scan") or {"index": "stop"}
    rows = explore(repo, tail, {r5["index"]: Lin.atom("START"), r3["index"]: Lin.atom("STOP")}, inline=False)
    roles = {"d": Sign(Lin.atom("START") - Lin.atom("STOP"))}
    mism, n, _ = check_table(rows, roles, lambda rv: "(0, 0)" if rv["d"] >= 0 else "(START, STOP)", lambda r: vkey(r.exit[1]) if r.exit[0] == "return" else r.exit[0])
    report.ob("C13.R3", "quality_trim_index: combination of both ends", not mism, facts={"mismatches": mism}, expected="(0, 0) iff start >= stop, else (start, stop)", loc=repo.loc(tail[0]) if tail else repo.loc(q), cases=n)
    # nextseq
    nx = repo.func("qualtrim", "nextseq_trim_index")
    nl = _scan_loops(nx)
    if len(nl) != 1:
        raise Unrecognised("nextseq_trim_index: scan not found", repo.loc(nx))
    ln, sn = nl[0]
    report.ob("C13.R3", "nextseq_trim_index: scan direction", src(ln.iter).startswith("reversed(range("), facts={"iter": src(ln.iter)}, expected="from the 3' end", loc=repo.loc(nx))
    _scan_table(repo, report, "nextseq_trim_index: 3' scan with G substitution", ln, sn, nx, "nextseq", "cutoff", "i")
    rets = [src(n.value) for n in ast.walk(nx) if isinstance(n, ast.Return)]
    body = strip_docstring(nx.body)
    v = {}
    for s in body[:body.index(ln)]:
        if isinstance(s, (ast.Assign, ast.AnnAssign)):
            t = s.targets[0] if isinstance(s, ast.Assign) else s.target
            if isinstance(t, ast.Name) and getattr(s, "value", None) is not None:
                v[t.id] = src(s.value)
    rn = _ROLES.get("nextseq_trim_index: 3' scan with G substitution")
    if rn is None:
        report.unrecognised("C13.R3", "nextseq_trim_index: initial values and result", "scan roles not identified", repo.loc(nx))
    else:
        ok = v.get(rn["sum"]) == "0" and v.get(rn["best"]) == "0" and (v.get(rn["index"]) or "").startswith("len(") and rets == [rn["index"]]
        # nothing but these plain initialisations touches the three variables before the scan: a preliminary pass that moves
        # the index (e.g. skipping trailing G bases) starts the scan with the deficits of the skipped bases forgotten
        touched = []
        for st in body[:body.index(ln)]:
            if isinstance(st, (ast.Assign, ast.AnnAssign)):
                continue
            for x in ast.walk(st):
                if (isinstance(x, ast.Name) and isinstance(x.ctx, ast.Store) and x.id in rn.values()) or (isinstance(x, ast.AugAssign) and isinstance(x.target, ast.Name) and x.target.id in rn.values()):
                    touched.append(f"line {st.lineno}: {src(st)[:60]}")
                    break
        report.ob("C13.R3", "nextseq_trim_index: the scan starts from the initial values", not touched, facts={"statements_before_the_scan": touched}, loc=repo.loc(nx), expected="sum, best and index are only initialised before the scan",
                  why=(f"{touched[0]} changes the scan's state before the scan: the partial sums no longer include every base from the 3' end" if touched else ""))
        report.ob("C13.R3", "nextseq_trim_index: initial values and result", ok, facts={k: v.get(n_) for k, n_ in rn.items()} | {"returns": rets}, expected="sum = best = 0, index = len(qualities); returns the index", loc=repo.loc(nx))
    # R4: base only shifts the scale
    for fn_, label in ((q, "quality_trim_index"), (nx, "nextseq_trim_index")):
        uses = []
        for n in ast.walk(fn_):
            if isinstance(n, ast.Name) and n.id == "base" and isinstance(n.ctx, ast.Load):
                par = getattr(n, "_parent", None)
                uses.append(src(par))
        ok = bool(uses) and all(u.replace(" ", "") in ("qual[i]-base",) for u in uses)
        report.ob("C13.R4", f"{label}: uses of the quality base", ok, facts={"uses": uses}, expected="only qual[i] - base", loc=repo.loc(fn_))


_SIGNED_C_TYPES = {"int", "long", "long long", "Py_ssize_t", "ssize_t", "short", "double", "float"}


def r3_signed_qualities(repo, report):
    """quality - base is negative for characters below the quality base, and the NextSeq rule sets a G to cutoff - 1, which is
    -1 for cutoff 0.  The locals that hold a decoded quality or the running sum must have a signed C type: an unsigned one
    wraps a negative value to a large positive one and ends the scan."""
    n = 0
    for fname in ("quality_trim_index", "nextseq_trim_index"):
        fn = repo.func("qualtrim", fname)
        if fn is None:
            continue
        decl = {x.target.id: (x.annotation.value if isinstance(x.annotation, ast.Constant) else src(x.annotation)) for x in ast.walk(fn) if isinstance(x, ast.AnnAssign) and isinstance(x.target, ast.Name)}
        holders = set()
        for x in ast.walk(fn):
            if isinstance(x, (ast.Assign, ast.AugAssign)):
                tgt = x.targets[0] if isinstance(x, ast.Assign) else x.target
                if isinstance(tgt, ast.Name) and any(isinstance(y, ast.BinOp) and isinstance(y.op, ast.Sub) for y in ast.walk(x.value)) or (isinstance(x, ast.AugAssign) and isinstance(tgt, ast.Name)):
                    if isinstance(tgt, ast.Name):
                        holders.add(tgt.id)
        bad = {h: decl.get(h) for h in sorted(holders) if h in decl and str(decl[h]).replace("unsigned ", "u") not in _SIGNED_C_TYPES and not str(decl[h]).endswith("*")}
        n += 1
        report.ob("C13.R3", f"{fname}: quality arithmetic in signed variables", not bad and bool(holders & set(decl)), facts={"variables": {h: decl.get(h) for h in sorted(holders)}, "unsigned": bad}, loc=repo.loc(fn),
                  expected="int (signed) for the decoded quality, the deficit and the running sum",
                  why=(f"'{next(iter(bad))}' is declared {bad[next(iter(bad))]}: a quality below the base (or a G at cutoff 0) becomes a large positive number, the running sum turns positive and the scan stops - the quality base no longer 'only shifts the scale'" if bad else ""))
    report.floor("C13.R3", "scan functions", n, 2)
