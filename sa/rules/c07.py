"""C07 - The k-mer prefilter never changes which adapter match is found (necessary conditions visible in the code shape)."""
from __future__ import annotations

import ast
import itertools

from .. import constfold
from ..absint import Const, Executor, NeedAtom, Obj, Tup, explore, feasible, register_lin, vkey
from ..core import Unrecognised
from ..lin import Lin
from ..repo import chain, params, src, strip_docstring, calls
from ..tables import Bool, Sign, check_table, SKIP
from ..localroles import rename, name_of, unique, calls_to, assigned_names

RS, QS, RE_, QE = 1, 2, 4, 8  # EndSkip bits (checked against align.EndSkip by C01.R1 and below)


def run(repo, report, tier):
    report.rule("C07.R1", "coverage: the search sets an adapter class asks for cover every occurrence kind its aligner flags admit: (REFERENCE_START in flags or QUERY_START not in flags) => front sets; (REFERENCE_END in flags or QUERY_STOP not in flags) => back sets; QUERY_START and QUERY_STOP => internal set; if both REFERENCE_START and REFERENCE_END are set (read inside the adapter) the finder must be bypassed for reads shorter than the adapter",
                "a true match is dropped by the prefilter for some placement of the adapter")
    report.rule("C07.R2", "same inputs to filter and aligner: adapter_wildcards -> reference wildcards, read_wildcards -> query wildcards, the same error rate, minimum overlap and (possibly reversed) sequence; each match_to gives kmers_present the string it gives to locate; the mock finder is used iff the aligner is a comparer or the k-mers do not fit",
                "with -N / --match-read-wildcards the prefilter compares characters differently from the aligner")
    report.rule("C07.R3", "search windows: per error tier the adapter prefix is split into max_errors + 1 chunks searched in a window reaching back length (+ max_errors when indels are allowed) characters; after each tier minimum_length advances to length + 1 on every path; merging equal k-mers takes the widest window",
                "an occurrence with an inserted base, or a short partial occurrence at a higher error tier, lies outside the searched window")
    report.rule("C07.R4", "kmers_present never reads outside the read: at the call of the scanning routine 0 <= start and stop <= len(sequence) on every path",
                "for reads shorter than a 5' search window the verdict depends on memory after the read")
    report.rule("C07.R5", "k-mers fit the machine word: every path that stores a k-mer is dominated by the size tests; construction failure falls back to the always-true finder", "k-mers longer than 64 characters corrupt the bit masks")
    report.guard("C07.R1", "adapter classes", r1_coverage, repo, report)
    report.guard("C07.R2", "inputs", r2_inputs, repo, report)
    report.guard("C07.R3", "kmer_heuristic", r3_windows, repo, report)
    report.guard("C07.R4", "kmers_present", r4_bounds, repo, report)
    report.guard("C07.R5", "KmerFinder.__cinit__", r5_word, repo, report)
    report.notes.append("Not decided: soundness of the pigeonhole argument as a whole for every read.")


def where_table(repo):
    es = repo.cls("EndSkip")
    env = {}
    for k, v in es.class_attrs.items():
        env[f"EndSkip.{k}"] = constfold.fold(v)
    wh = repo.cls("Where")
    out = {}
    for k, v in wh.class_attrs.items():
        out[k] = constfold.fold(v, env)
    return env, out


def _class_config(repo, cname, force):
    """(flags, finder kwargs or 'mock', aligner sequence expr, finder sequence expr) under self._force_anywhere = force"""
    _, where = where_table(repo)
    c, al = repo.need_method(cname, "_aligner")
    c2, kf = repo.need_method(cname, "_kmer_finder")

    def hook(ex, node, env):
        cn = chain(node.func)
        if cn == "self._make_aligner":
            a = [ex.ev(x, env) for x in node.args]
            return Obj(f"ALIGNER({vkey(a[0])}, {vkey(a[1])})", nonnull=True)
        if cn == "self._make_kmer_finder":
            kw = {k.arg: vkey(ex.ev(k.value, env)) for k in node.keywords}
            pos = [vkey(ex.ev(x, env)) for x in node.args]
            return Obj("FINDER(" + ", ".join(pos + [f"{k}={v}" for k, v in sorted(kw.items())]) + ")", nonnull=True)
        if cn in ("PrefixComparer", "SuffixComparer"):
            return Obj(f"COMPARER:{cn}", nonnull=True)
        if cn == "MockKmerFinder":
            return Obj("MOCK", nonnull=True)
        if cn == "isinstance" and len(node.args) == 2 and chain(node.args[0]) == "self.aligner":
            return Const(ex.ask_bool("aligner_is_comparer"))
        if cn and cn.startswith("super()."):
            # resolve through the MRO of the class that defines the method being analysed
            return None
        return None

    env = {"self": Obj("self", cls=cname, nonnull=True), "self._force_anywhere": Const(force), "self.sequence": Obj("SEQ", nonnull=True)}
    for k, v in where.items():
        env[f"Where.{k}.value"] = Lin.k(int(v))
    res = {}
    for label, fn, owner in (("aligner", al, c), ("finder", kf, c2)):
        rows = explore(repo, strip_docstring(fn.body), env, call_hook=_super_hook(repo, owner.name, hook, env), inline=False)
        res[label] = [(r.valuation, vkey(r.exit[1]) if r.exit[0] == "return" else r.exit[0]) for r in rows]
    return res


def _super_hook(repo, owner, base_hook, env0):
    def hook(ex, node, env):
        cn = src(node.func)
        if cn.startswith("super().") and not node.args:
            mname = cn.split(".", 1)[1]
            # next class in the MRO of 'owner' that defines mname
            mro = repo.mro(owner)
            for c in mro[1:]:
                if mname in c.methods:
                    sub = explore(repo, strip_docstring(c.methods[mname].body), dict(env0), call_hook=_super_hook(repo, c.name, base_hook, env0), inline=False, initial=dict(ex.val))
                    outs = {vkey(r.exit[1]) for r in sub if r.exit[0] == "return"}
                    if len(outs) == 1:
                        return Obj(outs.pop(), nonnull=True)
                    raise Unrecognised(f"super().{mname}() has several outcomes {outs}")
            raise Unrecognised(f"super().{mname} not found")
        return base_hook(ex, node, env)
    return hook


def _finder_bypasses_short_reads(repo):
    """_make_kmer_finder wraps the finder, when both front and back sets are requested, in a class whose
    kmers_present() answers True for every read that may lie within the adapter: shorter than the adapter, plus - when
    indels are allowed - the max_errors bases that may be inserted in the read (decision tables over the comparisons).
    Returns (ok, facts)."""
    _cache = repo.cache
    if "finder-bypass" in _cache:
        return _cache["finder-bypass"]
    res = (False, {"reason": "no wrapper that bypasses the prefilter for short reads found"})
    c, mk = repo.need_method("SingleAdapter", "_make_kmer_finder")
    ps = params(mk)
    for n in ast.walk(mk):
        if not (isinstance(n, ast.If) and {x.id for x in ast.walk(n.test) if isinstance(x, ast.Name)} == {"back_adapter", "front_adapter"} and isinstance(n.test, ast.BoolOp) and isinstance(n.test.op, ast.And)):
            continue
        wrappers = [x for x in ast.walk(n) if isinstance(x, ast.Call) and chain(x.func) in repo.classes and "kmers_present" in repo.cls(chain(x.func)).methods and len(x.args) == 2]
        if len(wrappers) != 1:
            continue
        wname = chain(wrappers[0].func)

        def hook(ex, node, env):
            if chain(node.func) == wname:
                return Obj("WRAPPED:" + vkey(ex.ev(node.args[1], env)), nonnull=True)
            return None

        rows = explore(repo, n.body, {"self": Obj("self", nonnull=True), ps[1]: Obj("SEQ", nonnull=True), "kmer_finder": Obj("FINDER", nonnull=True)}, call_hook=hook, inline=False)
        bounds = {}
        for r in rows:
            if r.exit[0] == "return" and vkey(r.exit[1]).startswith("WRAPPED:"):
                bounds[str(r.valuation.get("truthy:self.indels"))] = vkey(r.exit[1])[len("WRAPPED:"):]
        L = Lin.atom("len(SEQ)")
        K = Lin.atom("int(" + (Lin.atom("len(SEQ)") * Lin.atom("self.max_error_rate")).key() + ")")
        facts = {"bypass_bound": bounds}
        ok_bound = False
        if set(bounds) == {"None"}:
            ok_bound = False  # one bound for both cases: must already include the insertions
            facts["reason"] = "the bound does not depend on self.indels: with insertions a read lying within the adapter can be up to max_errors longer than the adapter"
            ok_bound = bounds["None"] in ((L + K).key(),)
        elif set(bounds) == {"True", "False"}:
            ok_bound = bounds["False"] == L.key() and bounds["True"] == (L + K).key()
            if not ok_bound:
                facts["reason"] = "reads up to len(adapter) (+ int(len * max_error_rate) with indels) - 1 must bypass the prefilter"
        # the wrapper class compares the read length with the bound it was given
        wcls = repo.cls(wname)
        init = wcls.methods.get("__init__")
        kp = wcls.methods.get("kmers_present")
        ok_cls = False
        if init is not None and kp is not None:
            ip = params(init)
            st = {src(x.value): chain(x.targets[0]) for x in ast.walk(init) if isinstance(x, ast.Assign) and chain(x.targets[0])}
            la = st.get(ip[2])
            inner = st.get(ip[1])
            if la and inner:
                sp = params(kp)[1]
                krows = explore(repo, strip_docstring(kp.body), {"self": Obj("self", nonnull=True), sp: Obj("SEQ", nonnull=True)}, inline=False)
                ok_cls = len(krows) >= 2
                for r in krows:
                    j = Executor(None, r.valuation)
                    try:
                        shorter = j.compare(ast.Lt(), Lin.atom("len(SEQ)"), Lin.atom(la))
                    except NeedAtom:
                        ok_cls = False
                        break
                    ret = vkey(r.exit[1]) if r.exit[0] == "return" else r.exit[0]
                    if shorter and ret != "True":
                        ok_cls = False
                    if not shorter and ret != f"{inner}.kmers_present(SEQ)":
                        ok_cls = False
        facts["wrapper_answers_true_below_its_bound"] = ok_cls
        res = (bool(ok_bound and ok_cls), facts)
    _cache["finder-bypass"] = res
    return res


def _windows_widened_for_indels(repo):
    """_make_kmer_finder widens every end window by int(len(sequence) * max_error_rate) when self.indels"""
    c, mk = _roles_make_kmer_finder(repo)
    ps = params(mk)
    for n in ast.walk(mk):
        if isinstance(n, ast.If) and src(n.test) == "self.indels":
            defs = {chain(x.targets[0]): x.value for x in n.body if isinstance(x, ast.Assign) and chain(x.targets[0])}
            me = [k for k, v in defs.items() if src(v).replace(" ", "") in (f"int(len({ps[1]})*self.max_error_rate)", f"int(self.max_error_rate*len({ps[1]}))")]
            lc = defs.get("positions_and_kmers")
            if not me or not isinstance(lc, ast.ListComp) or src(lc.generators[0].iter) != "positions_and_kmers":
                continue
            tgt = [e.id for e in lc.generators[0].target.elts]
            if len(tgt) != 3 or not isinstance(lc.elt, ast.Tuple) or len(lc.elt.elts) != 3:
                continue
            a, b, kk = tgt
            rows = explore(repo, [ast.Expr(value=lc.elt)], {a: Lin.atom("START"), b: Obj("STOP"), kk: Obj("KMERS"), me[0]: Lin.atom("MAXERR")}, inline=False)
            # evaluate the element expression under the four cases
            from ..absint import Executor as _E

            ok = True
            for sneg in (True, False):
                for snone in (True, False):
                    val = {"sign:START": -1 if sneg else 1, "isnone:STOP": snone}
                    ex = _E(None, val)
                    try:
                        v = ex.ev(lc.elt, {a: Lin.atom("START"), b: Obj("STOP"), kk: Obj("KMERS"), me[0]: Lin.atom("MAXERR")})
                    except NeedAtom:
                        ok = False
                        continue
                    w0 = (Lin.atom("START") - Lin.atom("MAXERR")).key() if sneg else "START"
                    w1 = "None" if snone else (Lin.atom("STOP") + Lin.atom("MAXERR")).key()
                    got = [vkey(x) for x in v.items]
                    if got[0] != w0 or got[1] not in (w1, "STOP" if snone else w1) or got[2] != "KMERS":
                        ok = False
            if ok:
                return True
    return False


def _roles_make_kmer_finder(repo):
    """SingleAdapter._make_kmer_finder with the list handed to KmerFinder named positions_and_kmers"""
    c, mk0 = repo.need_method("SingleAdapter", "_make_kmer_finder")
    kc = calls_to(mk0, "KmerFinder")
    m = {}
    if len(kc) == 1 and kc[0].args and isinstance(kc[0].args[0], ast.Name):
        m[kc[0].args[0].id] = "positions_and_kmers"
    return c, rename(mk0, m)


def _roles_back_searchsets(repo):
    fn0 = repo.func("kmer_heuristic", "create_back_overlap_searchsets")
    ps = params(fn0)
    loc = repo.loc(fn0)
    m = {}
    rets = [n.value for n in ast.walk(fn0) if isinstance(n, ast.Return)]
    m[name_of(unique(rets, "create_back_overlap_searchsets: return", loc), "returned search sets", loc)] = "search_sets"
    tiers = [n for n in ast.walk(fn0) if isinstance(n, ast.For) and isinstance(n.target, ast.Tuple) and len(n.target.elts) == 2 and calls_to(n, "kmer_chunks")]
    tl = unique(tiers, "create_back_overlap_searchsets: loop over the error tiers", loc)
    el = name_of(tl.iter, "error tier list", repo.loc(tl))
    m[el] = "error_lengths"
    defs = assigned_names(fn0)
    ml = [k for k, vs in defs.items() if any(isinstance(v, ast.Name) and v.id == ps[1] for v in vs)]
    m[unique(ml, "variable initialised with min_overlap", loc)] = "minimum_length"
    al = [k for k, vs in defs.items() if any(src(v) == f"len({ps[0]})" for v in vs)]
    if len(al) == 1:
        m[al[0]] = "adapter_length"
    rl = [n for n in ast.walk(fn0) if isinstance(n, ast.For) and isinstance(n.target, ast.Name) and n is not tl and not any(n in list(ast.walk(tl)) for _ in [0])
          and any(isinstance(x, ast.Call) and chain(x.func) == f"{el}.append" for x in ast.walk(n))]
    if len(rl) == 1:
        m[rl[0].target.id] = "i"
        app = [x for x in ast.walk(rl[0]) if isinstance(x, ast.Call) and chain(x.func) == f"{el}.append"]
        if len(app) == 1 and app[0].args and isinstance(app[0].args[0], ast.Tuple) and isinstance(app[0].args[0].elts[0], ast.Name):
            m[app[0].args[0].elts[0].id] = "max_error"
    return rename(fn0, m)


def _roles_positions_and_kmers(repo):
    fn0 = repo.func("kmer_heuristic", "create_positions_and_kmers")
    loc = repo.loc(fn0)
    m = {}
    defs = assigned_names(fn0)
    for k, vs in defs.items():
        if any(isinstance(v, ast.Call) and chain(v.func) == "int" for v in vs):
            m[k] = "max_errors"
        if any(isinstance(v, ast.Call) and chain(v.func) == "create_back_overlap_searchsets" for v in vs):
            m[k] = "reversed_back_search_sets"
        if any(isinstance(v, ast.Call) and chain(v.func) == "kmer_chunks" for v in vs):
            m[k] = "kmer_sets"
    rr = calls_to(fn0, "remove_redundant_kmers")
    if len(rr) == 1 and rr[0].args and isinstance(rr[0].args[0], ast.Name):
        m[rr[0].args[0].id] = "search_sets"
    inv = {v: k for k, v in m.items()}
    rb = inv.get("reversed_back_search_sets")
    fl = [n for n in ast.walk(fn0) if isinstance(n, ast.For) and isinstance(n.iter, ast.Name) and n.iter.id == rb and isinstance(n.target, ast.Tuple) and len(n.target.elts) == 3]
    if len(fl) == 1:
        for e, c_ in zip(fl[0].target.elts, ("start", "stop", "kmer_set")):
            if isinstance(e, ast.Name):
                m[e.id] = c_
        for x in ast.walk(fl[0]):
            if isinstance(x, ast.Assign) and isinstance(x.value, ast.SetComp) and isinstance(x.targets[0], ast.Name):
                m[x.targets[0].id] = "new_kmer_set"
                g = x.value.generators[0]
                if isinstance(g.target, ast.Name):
                    m[g.target.id] = "kmer"
            if isinstance(x, ast.Call) and isinstance(x.func, ast.Attribute) and x.func.attr == "append" and isinstance(x.func.value, ast.Name):
                m[x.func.value.id] = "front_search_sets"
    return rename(fn0, m)


def _roles_minimize(repo):
    fn0 = repo.func("kmer_heuristic", "minimize_kmer_search_list")
    m = {}
    loops = [n for n in strip_docstring(fn0.body) if isinstance(n, ast.For)]
    if len(loops) == 2 and isinstance(loops[0].target, ast.Tuple) and len(loops[0].target.elts) == 3 and isinstance(loops[1].target, ast.Tuple) and len(loops[1].target.elts) == 2:
        for e, c_ in zip(loops[0].target.elts, ("kmer", "start", "stop")):
            if isinstance(e, ast.Name):
                m[e.id] = c_
        if isinstance(loops[1].target.elts[1], ast.Name):
            m[loops[1].target.elts[1].id] = "positions"
        inv = {v: k for k, v in m.items()}
        for x in ast.walk(loops[1]):
            if isinstance(x, ast.Assign) and isinstance(x.value, ast.ListComp) and isinstance(x.targets[0], ast.Name) and len(x.value.generators) == 1 and len(x.value.generators[0].ifs) == 1:
                cond = x.value.generators[0].ifs[0]
                t = src(cond).replace(" ", "")
                if t in (f"{inv.get('start')}==0", f"0=={inv.get('start')}"):
                    m[x.targets[0].id] = "front_searches"
                elif t == f"{inv.get('stop')}isNone":
                    m[x.targets[0].id] = "back_searches"
    return rename(fn0, m)


def r1_coverage(repo, report):
    env, where = where_table(repo)
    ok = env == {"EndSkip.REFERENCE_START": 1, "EndSkip.QUERY_START": 2, "EndSkip.REFERENCE_END": 4, "EndSkip.QUERY_STOP": 8, "EndSkip.SEMIGLOBAL": 15}
    report.ob("C07.R1", "EndSkip bit values", ok, facts=env, expected="REFERENCE_START=1, QUERY_START=2, REFERENCE_END=4, QUERY_STOP=8, SEMIGLOBAL=15", loc="src/cutadapt/align.py")
    classes = [c.name for c in repo.subclasses("SingleAdapter")]
    report.floor("C07.R1", "single-adapter classes", len(classes), 8)
    for cname in classes:
        cls = repo.cls(cname)
        has_force = "_force_anywhere" in src(repo.need_method(cname, "_aligner")[1])
        for force in ((False, True) if has_force else (False,)):
            try:
                cfg = _class_config(repo, cname, force)
            except Unrecognised as u:
                report.unrecognised("C07.R1", f"{cname} (force_anywhere={force})", u.what, repo.loc(cls.node))
                continue
            report.saw(cls=cname, function=f"{cname}._kmer_finder")
            for aval, aout in cfg["aligner"]:
                if aout.startswith("COMPARER"):
                    # the finder must be the mock
                    fouts = {o for v, o in cfg["finder"] if v.get("aligner_is_comparer", True) is True}
                    report.ob("C07.R1", f"{cname} (no indels): comparer without prefilter", fouts == {"MOCK"}, facts={"finder": sorted(fouts)}, expected="MockKmerFinder when the aligner is a Prefix/SuffixComparer", loc=repo.loc(cls.node))
                    continue
                if not aout.startswith("ALIGNER("):
                    report.unrecognised("C07.R1", f"{cname} aligner", f"unrecognised aligner construction {aout}")
                    continue
                aseq, flags = aout[len("ALIGNER("):-1].rsplit(", ", 1)
                try:
                    flags = int(flags)
                except ValueError:
                    report.unrecognised("C07.R1", f"{cname} aligner flags", f"flags {flags} are not a Where constant")
                    continue
                fouts = {o for v, o in cfg["finder"] if v.get("aligner_is_comparer", False) is False}
                if len(fouts) != 1 or not next(iter(fouts)).startswith("FINDER("):
                    report.unrecognised("C07.R1", f"{cname} finder", f"unrecognised finder construction {sorted(fouts)}")
                    continue
                fargs = next(iter(fouts))[len("FINDER("):-1].split(", ")
                fseq = fargs[0]
                kw = dict(a.split("=") for a in fargs[1:])
                front = kw.get("front_adapter") == "True"
                back = kw.get("back_adapter") == "True"
                internal = kw.get("internal", "True") == "True"
                need_front = bool(flags & RS) or not (flags & QS)
                need_back = bool(flags & RE_) or not (flags & QE)
                need_internal = bool(flags & QS) and bool(flags & QE)
                problems = []
                if need_front and not front:
                    problems.append("front search sets missing")
                if need_back and not back:
                    problems.append("back search sets missing")
                if need_internal and not internal:
                    problems.append("internal search set missing")
                if aseq != fseq:
                    problems.append(f"finder built from {fseq}, aligner from {aseq}")
                tag = f"{cname}" + (" with ;anywhere" if force else "")
                report.ob("C07.R1", f"{tag}: search sets cover the admitted placements", not problems, facts={"flags": flags, "front": front, "back": back, "internal": internal, "sequence": fseq, "problems": problems},
                          expected={"front": need_front, "back": need_back, "internal": need_internal}, loc=repo.loc(cls.node), why="; ".join(problems))
                if (flags & RS) and (flags & RE_):
                    # a read shorter than the adapter may lie completely inside it: no search set describes that
                    c, mt = repo.need_method(cname, "match_to")
                    bypass = any(isinstance(n, ast.Compare) and "len(" in src(n) and ("self.sequence" in src(n) or "len(self)" in src(n)) for n in ast.walk(mt))
                    wfacts = {}
                    if not bypass and front and back:
                        bypass, wfacts = _finder_bypasses_short_reads(repo)
                    report.ob("C07.R1", f"{tag}: read inside the adapter", bypass, facts={"flags": flags, "bypass_for_short_reads": bypass, **wfacts},
                              expected="the prefilter is bypassed for every read that can lie within the adapter: shorter than len(adapter), plus int(len * max_error_rate) inserted bases when indels are allowed", loc=repo.loc(mt), fact_key="read-inside-adapter",
                              why="" if bypass else "both ends of the adapter may be skipped, so a short read can match in the middle of the adapter; every search set needs a k-mer at a read end or the whole adapter, so such a match is dropped")


def r2_inputs(repo, report):
    c, mk = _roles_make_kmer_finder(repo)
    kc = [x for x in calls(mk) if chain(x.func) == "KmerFinder"]
    c2, ci = repo.need_method("KmerFinder", "__cinit__")
    kp = params(ci)[1:]
    ok = len(kc) == 1 and [src(a) for a in kc[0].args] == ["positions_and_kmers", "self.adapter_wildcards", "self.read_wildcards"] and kp == ["positions_and_kmers", "ref_wildcards", "query_wildcards"]
    report.ob("C07.R2", "KmerFinder wildcard flags", ok, facts={"call": src(kc[0]) if kc else None, "parameters": kp}, expected="KmerFinder(positions_and_kmers, self.adapter_wildcards -> ref_wildcards, self.read_wildcards -> query_wildcards)", loc=repo.loc(mk),
              why="" if ok else "the prefilter's wildcard handling differs from the aligner's")
    c3, ma = repo.need_method("SingleAdapter", "_make_aligner")
    ac = [x for x in calls(ma) if chain(x.func) == "Aligner"]
    kw = {k.arg: src(k.value) for k in ac[0].keywords} if ac else {}
    ok = kw.get("wildcard_ref") == "self.adapter_wildcards" and kw.get("wildcard_query") == "self.read_wildcards" and kw.get("min_overlap") == "self.min_overlap" and src(ac[0].args[1]) == "self.max_error_rate"
    report.ob("C07.R2", "Aligner wildcard flags", ok, facts=kw, expected="wildcard_ref=self.adapter_wildcards, wildcard_query=self.read_wildcards", loc=repo.loc(ma))
    cp = [x for x in calls(mk) if chain(x.func) == "create_positions_and_kmers"]
    fn = repo.func("kmer_heuristic", "create_positions_and_kmers")
    ok = len(cp) == 1 and [src(a) for a in cp[0].args] == ["sequence", "self.min_overlap", "self.max_error_rate", "back_adapter", "front_adapter", "internal"] and params(fn) == ["adapter", "min_overlap", "error_rate", "back_adapter", "front_adapter", "internal"]
    report.ob("C07.R2", "create_positions_and_kmers arguments", ok, facts={"call": src(cp[0]) if cp else None, "parameters": params(fn)}, expected="(sequence, min_overlap, max_error_rate, back_adapter, front_adapter, internal) in the callee's order", loc=repo.loc(mk))
    # the matching tables of filter and aligner use the same (ref table, query table) choice
    ml = repo.func("_match_tables", "matches_lookup")
    rows = explore(repo, strip_docstring(ml.body), {params(ml)[0]: Obj("REFW"), params(ml)[1]: Obj("QW")}, inline=False)
    tbl = {}
    for r in rows:
        rw, qw = r.valuation.get("truthy:REFW"), r.valuation.get("truthy:QW")
        k = vkey(r.exit[1])
        tbl[(rw, qw)] = k
    want = {(False, False): ("_upper_table()", "_upper_table()", "operator.eq"), (True, False): ("_iupac_table()", "_acgt_table()", "operator.and_"), (False, True): ("_acgt_table()", "_iupac_table()", "operator.and_"), (True, True): ("_iupac_table()", "_iupac_table()", "operator.and_")}
    ok = all(all(w in tbl.get(k, "") for w in v) and tbl.get(k, "").index(v[0]) <= tbl.get(k, "").rindex(v[1]) for k, v in want.items())
    report.ob("C07.R2", "matches_lookup table choice", ok, facts={str(k): v[:120] for k, v in tbl.items()}, expected="(ref, query): none -> upper/upper ==; ref only -> iupac/acgt; query only -> acgt/iupac; both -> iupac/iupac", loc=repo.loc(ml), cases=len(rows))
    # the prefilter's character masks: for every adapter character the set of ALL read characters (1..127) that the
    # aligner's comparison accepts - computed here from the folded tables and compared with what the generator yields
    import operator as _op

    gen = repo.func("_match_tables", "all_matches_generator")
    tabs = {}
    for nm in ("_upper_table", "_iupac_table", "_acgt_table"):
        try:
            tabs[nm] = constfold.fold_function(repo.func("_match_tables", nm))
        except Exception as e:  # noqa: BLE001
            tabs[nm] = None
    combos = {"no wildcards": ("_upper_table", "_upper_table", _op.eq), "adapter wildcards": ("_iupac_table", "_acgt_table", _op.and_),
              "read wildcards": ("_acgt_table", "_iupac_table", _op.and_), "both": ("_iupac_table", "_iupac_table", _op.and_)}
    gp = params(gen)
    bad_masks = []
    n_masks = 0
    if all(isinstance(t, bytes) and len(t) == 256 for t in tabs.values()) and len(gp) == 3:
        for label, (rt, qt, op) in combos.items():
            try:
                got = constfold.fold_function(gen, {gp[0]: tabs[rt], gp[1]: tabs[qt], gp[2]: op}, max_steps=400000)
            except Exception as e:  # noqa: BLE001
                bad_masks.append((label, f"generator could not be folded: {type(e).__name__}: {e}"))
                continue
            if not isinstance(got, list) or len(got) != 256:
                bad_masks.append((label, "does not yield one mask per adapter character"))
                continue
            for i in range(256):
                want = bytes(j for j in range(1, 128) if op(tabs[rt][i], tabs[qt][j]))
                n_masks += 1
                if sorted(got[i]) != sorted(want):
                    missing = bytes(sorted(set(want) - set(got[i])))[:8]
                    extra = bytes(sorted(set(got[i]) - set(want)))[:8]
                    bad_masks.append((label, f"adapter byte {i} ({chr(i)!r}): missing {missing!r} extra {extra!r}"))
                    break
    else:
        bad_masks.append(("tables", "the encoding tables could not be folded"))
    report.ob("C07.R2", "prefilter character masks equal the aligner's comparison", not bad_masks and n_masks == 1024, facts={"masks_compared": n_masks, "problems": [str(b)[:200] for b in bad_masks[:3]]},
              expected="mask[adapter char] = every read character 1..127 for which comp_op(ref_table[adapter char], query_table[read char]) holds", loc=repo.loc(gen), cases=n_masks,
              why=str(bad_masks[0])[:200] if bad_masks else "")
    # each match_to: same string for filter and aligner
    n = 0
    for cname in [c.name for c in repo.subclasses("SingleAdapter")]:
        cls = repo.cls(cname)
        if "match_to" not in cls.methods:
            continue
        mt = cls.methods["match_to"]
        kpc = [x for x in calls(mt) if chain(x.func) == "self.kmer_finder.kmers_present"]
        lc = [x for x in calls(mt) if chain(x.func) == "self.aligner.locate"]
        if not kpc and not lc:
            continue
        n += 1
        a = src(kpc[0].args[0]) if kpc else None
        b = src(lc[0].args[0]) if lc else None
        same = a is not None and b is not None and (a == b or b == f"{a}.upper()")
        # the prefilter verdict 'absent' returns None before the aligner runs
        first = strip_docstring(mt.body)
        guard = [s for s in first if isinstance(s, ast.If) and "kmers_present" in src(s.test)]
        ok_guard = len(guard) == 1 and src(guard[0].test).startswith("not ") and isinstance(guard[0].body[0], ast.Return) and (guard[0].body[0].value is None or src(guard[0].body[0].value) == "None")
        report.ob("C07.R2", f"{cname}.match_to: same string for prefilter and aligner", same and ok_guard and len(kpc) == 1 and len(lc) == 1, facts={"kmers_present": a, "locate": b}, expected="kmers_present(x) and locate(x) (or x.upper())", loc=repo.loc(mt))
    report.floor("C07.R2", "match_to bodies consulting the prefilter", n, 6)
    # fallback to the mock on construction failure
    tr = [t for t in ast.walk(mk) if isinstance(t, ast.Try)]
    ok = len(tr) == 1 and chain(tr[0].handlers[0].type) == "ValueError" and any(isinstance(x, ast.Return) and isinstance(x.value, ast.Call) and chain(x.value.func) == "MockKmerFinder" for x in tr[0].handlers[0].body)
    report.ob("C07.R5", "_make_kmer_finder falls back to the always-true finder", ok, facts={"handler": src(tr[0].handlers[0])[:100] if tr else None}, expected="except ValueError: return MockKmerFinder()", loc=repo.loc(mk))
    mock = repo.cls("MockKmerFinder").methods["kmers_present"]
    rets = [src(n.value) for n in ast.walk(mock) if isinstance(n, ast.Return)]
    report.ob("C07.R5", "MockKmerFinder.kmers_present is always true", rets == ["True"], facts={"returns": rets}, expected="True", loc=repo.loc(mock))


def r3_windows(repo, report):
    fn = _roles_back_searchsets(repo)
    ps = params(fn)
    loops = [s for s in strip_docstring(fn.body) if isinstance(s, ast.For)]
    tier = [l for l in loops if isinstance(l.target, ast.Tuple) and src(l.iter) == "error_lengths"]
    if len(tier) != 1:
        raise Unrecognised("create_back_overlap_searchsets: loop over the error tiers not found", repo.loc(fn))
    lp = tier[0]
    me, ln = [e.id for e in lp.target.elts]
    env = {ps[0]: Obj("ADAPTER", nonnull=True), ps[1]: Lin.atom("MINOV"), ps[2]: Obj("RATE"), "minimum_length": Lin.atom("MINLEN"), me: Lin.atom("MAXERR"), ln: Lin.atom("LENGTH"), "search_sets": Obj("SETS", nonnull=True)}

    def hook(ex, node, env):
        if chain(node.func) == "kmer_chunks":
            a = [ex.ev(x, env) for x in node.args]
            return Obj(f"CHUNKS({vkey(a[0])}, {vkey(a[1])})", nonnull=True)
        return None

    rows = explore(repo, lp.body, env, call_hook=hook, inline=False)
    report.saw(function="kmer_heuristic.create_back_overlap_searchsets", file="src/cutadapt/kmer_heuristic.py", valuations=len(rows))
    bad = []
    windows = set()
    for r in rows:
        judge = Executor(None, r.valuation)
        try:
            skip = judge.compare(ast.Gt(), Lin.atom("MINLEN"), Lin.atom("LENGTH"))
        except NeedAtom:
            skip = None
        final_min = r.env.get("minimum_length")
        app = [e for e in r.effects if e[0] == "call" and e[1] == "SETS.append"]
        tier_sets = [e for e in app if "CHUNKS(" in e[2]]
        if skip:
            if r.exit[0] != "continue" or app or vkey(final_min) != "MINLEN":
                bad.append(("a tier that lies below the minimum overlap must be skipped without effect", r.describe()["valuation"]))
            continue
        if r.exit[0] == "continue":
            bad.append(("a tier with minimum_length <= length is skipped: minimum_length is not advanced and no k-mers are emitted for it", r.describe()["valuation"]))
            continue
        if vkey(final_min) != (Lin.atom("LENGTH") + 1).key():
            bad.append(("minimum_length after the tier", vkey(final_min), "LENGTH+1"))
        if len(tier_sets) != 1:
            bad.append(("search sets per tier", [e[2][:100] for e in tier_sets]))
            continue
        # (start, None, chunks(adapter[:minimum_length'], max_errors + 1))
        k = tier_sets[0][2]
        import re

        m = re.fullmatch(r"SETS\.append\(\((.*?), None, CHUNKS\(ADAPTER\[:(.*?)\], (.*?)\)\)\)", k)
        if not m:
            bad.append(("search set shape", k[:140]))
            continue
        windows.add(m.group(1))
        if m.group(3) != "MAXERR+1":
            bad.append(("number of chunks", m.group(3), "MAXERR+1"))
        if m.group(2) not in ("MINLEN", "5"):
            bad.append(("k-mers cut from adapter[:%s]" % m.group(2), "expected the current minimum length"))
    report.ob("C07.R3", "create_back_overlap_searchsets: one tier", not bad, facts={"rows": len(rows), "windows": sorted(windows), "problems": [str(b)[:260] for b in bad[:3]]},
              expected="skip iff minimum_length > length; else emit (window, None, chunks(adapter[:minimum_length], max_errors + 1)) and set minimum_length = length + 1", loc=repo.loc(lp), cases=len(rows),
              why=str(bad[0])[:240] if bad else "")
    # window width vs indels: the builder is not told whether indels are allowed; with max_errors indels an occurrence of
    # `length` adapter bases may span length + max_errors read bases
    has_indel_param = any("indel" in p for p in ps) or any("indel" in p for p in params(repo.func("kmer_heuristic", "create_positions_and_kmers")))
    wide = all(w.replace(" ", "") in ("-LENGTH-MAXERR", "-MAXERR-LENGTH") for w in windows) if windows else False
    widened_later = _windows_widened_for_indels(repo)
    ok = wide or has_indel_param or widened_later
    report.ob("C07.R3", "search window reaches back length + max_errors when indels are allowed", ok, facts={"windows": sorted(windows), "builder_knows_about_indels": has_indel_param, "widened_by_max_errors_in__make_kmer_finder_when_indels": widened_later},
              expected="window start <= -(length + max_errors) unless indels are disabled", loc=repo.loc(lp), fact_key="window-ignores-indels",
              why="" if ok else "the window of a tier starts at -length: with an inserted base in the read the first k-mer of the occurrence lies one position further left (anchored 3' adapter GCGGAAT$ -e 0.2 on CGTGCGGATAT)")
    # front sets are the mirror of the back sets; the internal set covers the whole read: the function explored whole
    cp = _roles_positions_and_kmers(repo)
    cps = params(cp)

    def hook_cp(ex, node, env):
        cn = chain(node.func)
        if cn in ("create_back_overlap_searchsets", "kmer_chunks", "remove_redundant_kmers"):
            return Obj(f"{cn}({', '.join(vkey(ex.ev(a_, env)) for a_ in node.args)})", nonnull=True)
        return None

    env_cp = {cps[0]: Obj("ADAPTER", nonnull=True), cps[1]: Lin.atom("MINOV"), cps[2]: Obj("RATE", nonnull=True), cps[3]: Obj("BACK"), cps[4]: Obj("FRONT"), cps[5]: Obj("INTERNAL")}
    rws = explore(repo, strip_docstring(cp.body), env_cp, call_hook=hook_cp, inline=False)
    BACKSETS = "create_back_overlap_searchsets(ADAPTER, MINOV, RATE)"
    REV = "create_back_overlap_searchsets(ADAPTER[::-1], MINOV, RATE)"
    INTERNAL = "(0, None, kmer_chunks(ADAPTER, int(RATE*len(ADAPTER))+1))"
    bad = []
    for r in rws:
        ret = vkey(r.exit[1]) if r.exit[0] == "return" else r.exit[0]
        if not ret.startswith("remove_redundant_kmers("):
            bad.append(("the search sets are not passed through remove_redundant_kmers", ret[:80]))
            continue
        ext = [e[2] for e in r.effects if e[0] == "call" and e[1].endswith(".extend")]
        has_back = any(BACKSETS in x for x in ext)
        has_int = INTERNAL in ret
        nonempty = any(k.startswith("loop-nonempty:" + REV) and v is True for k, v in r.valuation.items())
        has_front = f"(0, -item({REV})[0], " in ret
        if r.valuation.get("truthy:BACK") is not None and has_back != (r.valuation.get("truthy:BACK") is True):
            bad.append(("back sets requested", r.valuation.get("truthy:BACK"), "emitted", has_back))
        if r.valuation.get("truthy:INTERNAL") is not None and has_int != (r.valuation.get("truthy:INTERNAL") is True):
            bad.append(("internal set requested", r.valuation.get("truthy:INTERNAL"), "emitted", has_int, ret[:160]))
        if r.valuation.get("truthy:FRONT") is True:
            if not any(k.startswith("loop-nonempty:" + REV) for k in r.valuation):
                bad.append(("front sets are not derived from the back sets of the reversed adapter", sorted(r.valuation)))
            elif nonempty != has_front:
                bad.append(("each reversed back set (start, None, kmers) must give the front set (0, -start, reversed kmers)", ret[:200]))
        elif has_front and r.valuation.get("truthy:FRONT") is False:
            bad.append(("front sets emitted without being requested", ret[:120]))
    # the k-mers of a front set are the reversed k-mers of the mirrored back set
    fl = [n for n in ast.walk(cp) if isinstance(n, ast.For) and isinstance(n.target, ast.Tuple) and len(n.target.elts) == 3]
    sc = [x for l in fl for x in ast.walk(l) if isinstance(x, ast.SetComp)]
    ok_sc = len(fl) == 1 and len(sc) == 1 and len(sc[0].generators) == 1 and not sc[0].generators[0].ifs and isinstance(sc[0].generators[0].target, ast.Name) \
        and src(sc[0].generators[0].iter) == src(fl[0].target.elts[2]) and src(sc[0].elt) == f"{sc[0].generators[0].target.id}[::-1]"
    if not ok_sc:
        bad.append(("the k-mers of a front set must be the reversed k-mers of the back set", src(sc[0]) if sc else None))
    decided = sum(1 for r in rws if all(r.valuation.get(k) is not None for k in ("truthy:BACK", "truthy:FRONT", "truthy:INTERNAL")))
    report.ob("C07.R3", "search sets: back / mirrored front / internal", not bad and decided >= 8, facts={"rows": len(rws), "problems": [str(b_)[:240] for b_ in bad[:3]]},
              expected="back_adapter -> back sets of the adapter; front_adapter -> for each back set (start, None, K) of the reversed adapter the set (0, -start, reversed K); internal -> (0, None, max_errors + 1 chunks of the whole adapter), max_errors = int(len(adapter) * error_rate); all through remove_redundant_kmers",
              loc=repo.loc(cp), cases=len(rws), why=str(bad[0])[:220] if bad else "")
    # merging of equal k-mers takes the widest window
    mm = _roles_minimize(repo)
    t = src(mm)
    ok = "max((stop for start, stop in front_searches))" in t and "min((start for start, stop in back_searches))" in t and "(0, None) in positions" in t
    report.ob("C07.R3", "merging equal k-mers keeps the widest window", ok, facts={}, expected="front: max of stops; back: min of starts; (0, None) dominates", loc=repo.loc(mm))
    # error tiers: a new tier starts where int(i * error_rate) increases
    el = [l for l in loops if src(l.iter) == "range(adapter_length + 1)" and isinstance(l.target, ast.Name)]
    ok = len(el) == 1
    tbl = {}
    if ok:
        rws = explore(repo, el[0].body, {el[0].target.id: Lin.atom("I"), ps[2]: Obj("RATE", nonnull=True), "max_error": Lin.atom("ME"), "error_lengths": Obj("EL", nonnull=True)}, inline=False, loop_mode="forbid")
        for r in rws:
            sg = r.valuation.get("sign:ME-int(I*RATE)")
            eff = sorted(e[2] for e in r.effects if e[0] == "call") + [f"max_error={vkey(r.env.get('max_error'))}"]
            tbl.setdefault(str(sg), set()).add(tuple(eff))
        want = {"-1": {("EL.append((ME, I-1))", "max_error=ME+1")}, "0": {("max_error=ME",)}, "1": {("max_error=ME",)}}
        ok = tbl == want
        # the last tier ends at the full adapter length
        after = [x for x in strip_docstring(fn.body) if isinstance(x, ast.Expr) and isinstance(x.value, ast.Call) and chain(x.value.func) == "error_lengths.append" and x.lineno > el[0].lineno]
        ok = ok and len(after) == 1 and src(after[0].value.args[0]) == "(max_error, adapter_length)"
        inits = {chain(x.targets[0]): src(x.value) for x in strip_docstring(fn.body) if isinstance(x, ast.Assign) and x.lineno < el[0].lineno and chain(x.targets[0])}
        ok = ok and inits.get("max_error") == "0" and inits.get("adapter_length") == f"len({ps[0]})"
    report.ob("C07.R3", "error tiers", ok, facts={"table": {k: sorted(map(list, v)) for k, v in tbl.items()}}, expected="for i in 0..len(adapter): when int(i * rate) exceeds the current tier e, tier e ends at length i - 1 and e += 1; the last tier ends at len(adapter)", loc=repo.loc(fn), cases=3)


def r4_bounds(repo, report):
    c, fn = repo.need_method("KmerFinder", "kmers_present")
    loops = [n for n in ast.walk(fn) if isinstance(n, ast.For)]
    if len(loops) != 1:
        raise Unrecognised("kmers_present: loop over the search entries not found", repo.loc(fn))
    lp = loops[0]
    env = {"self": Obj("self", nonnull=True), "seq": Lin.atom("SEQ"), "seq_length": Lin.atom("L"), lp.target.id: Obj("I")}

    def hook(ex, node, env):
        if chain(node.func) == "shift_and_multiple_is_present":
            a = [ex.ev(x, env) for x in node.args]
            ex.effect("scan", "shift_and_multiple_is_present", f"{vkey(a[0])} | {vkey(a[1])}", node, (a[0], a[1]))
            return Obj("FOUND")
        return None

    # entry fields as integer atoms
    body = list(lp.body)
    rows = explore(repo, body, env, call_hook=hook, inline=False, loop_mode="forbid")
    report.saw(function="KmerFinder.kmers_present", file="src/cutadapt/_kmer_finder.pyx", valuations=len(rows))
    A, B = "self.search_entries[I].search_start", "self.search_entries[I].search_stop"
    bad = []
    n_scan = 0
    for r in rows:
        scans = [e for e in r.effects if e[0] == "scan"]
        for e in scans:
            n_scan += 1
            ptr, length = e[5]
            try:
                start = ptr - Lin.atom("SEQ")
                stop = start + length
            except Exception:  # noqa: BLE001
                bad.append(("scan arguments are not (seq + start, stop - start)", e[2]))
                continue
            if "SEQ" in start.terms:
                bad.append(("scan pointer is not seq + start", e[2]))
                continue
            for what, form in (("start < 0", -start - 1), ("stop > len(sequence)", stop - Lin.atom("L") - 1)):
                if form.is_const():
                    if form.const >= 0:
                        bad.append((what + " at the scan", {"start": start.key(), "stop": stop.key()}))
                    continue
                # is  form >= 0  feasible together with the path condition and len >= 0 ?
                val = dict(r.valuation)
                extra = []
                p, flipped = form.normalised_sign_form()
                # form >= 0  <=>  sign(form) in {0, +}
                feas = False
                for s in (0, 1):
                    v2 = dict(val)
                    k = "sign:" + p.key()
                    register_lin(k, p)
                    sv = -s if flipped else s
                    if k in v2 and v2[k] != sv:
                        continue
                    v2[k] = sv
                    # len(sequence) >= 0
                    lk = "sign:L"
                    register_lin(lk, Lin.atom("L"))
                    for ls in (0, 1):
                        v3 = dict(v2)
                        if lk in v3 and v3[lk] != ls:
                            continue
                        v3[lk] = ls
                        if feasible(v3, box=3, max_atoms=6):
                            feas = True
                if feas:
                    bad.append((what + " is possible at the scan", {"start": start.key(), "stop": stop.key(), "path": r.describe()["valuation"]}))
    # ---- no window that overlaps the read is skipped (the finder answers like str.find(kmer, start, stop)) ----
    def sat(val, constraints):
        """is there an integer model of the path condition plus  sign(form) in allowed  for every (form, allowed)?"""
        def rec(i, v):
            if i == len(constraints):
                return feasible(v, box=3, max_atoms=6)
            form, allowed = constraints[i]
            if form.is_const():
                sg = (form.const > 0) - (form.const < 0)
                return sg in allowed and rec(i + 1, v)
            p_, flipped = form.normalised_sign_form()
            k_ = "sign:" + p_.key()
            register_lin(k_, p_)
            for sg in allowed:
                sv = -sg if flipped else sg
                if k_ in v and v[k_] != sv:
                    continue
                v2 = dict(v)
                v2[k_] = sv
                if rec(i + 1, v2):
                    return True
            return False
        return rec(0, dict(val))

    LA, LB, LL = Lin.atom(A), Lin.atom(B), Lin.atom("L")
    skipped_nonempty = []
    n_skip = 0
    for r in rows:
        if any(e[0] == "scan" for e in r.effects) or r.exit[0] not in ("continue", "fall"):
            continue
        n_skip += 1
        # the window the entry describes, before clamping: [s0, e0) with negative positions counted from the end, stop 0 = end
        for sa_, s0 in ((-1, LL + LA), (0, LA), (1, LA)):
            for sb_, e0 in ((-1, LL + LB), (0, LL), (1, LB)):
                cons = [(LA, (sa_,)), (LB, (sb_,)), (LL, (0, 1)), (e0 - s0, (1,)), (e0, (1,)), (LL - s0, (1,)), (LL, (1,))]
                if sat(r.valuation, cons):
                    skipped_nonempty.append({"start": "negative" if sa_ < 0 else "non-negative", "stop": {-1: "negative", 0: "0 (end)", 1: "positive"}[sb_], "path": r.describe()["valuation"]})
    report.ob("C07.R4", "kmers_present: no window that overlaps the read is skipped", not skipped_nonempty and n_skip >= 1, facts={"skipping_paths": n_skip, "problems": [str(x)[:300] for x in skipped_nonempty[:2]]},
              expected="an entry is skipped only if [start, stop) (negative = from the end, 0 = end) does not intersect [0, len(sequence))", loc=repo.loc(lp), cases=n_skip,
              why=("an entry whose window overlaps the read is skipped: " + str(skipped_nonempty[0])[:200]) if skipped_nonempty else "")
    report.ob("C07.R4", "kmers_present: scanned window lies inside the read", not bad and n_scan >= 1, facts={"paths": len(rows), "scans": n_scan, "problems": [str(b)[:300] for b in bad[:2]]},
              expected="0 <= start and stop <= len(sequence) at every call of the scanning routine", loc=repo.loc(lp), cases=len(rows), fact_key="stop-not-clamped" if bad and all("stop >" in b[0] for b in bad) else None,
              why=(bad[0][0] + ": " + str(bad[0][1])[:200]) if bad else "")


def _chunks_are_a_partition(repo, report):
    """The pigeonhole argument: k errors cannot hit all k+1 consecutive chunks of the adapter, so an occurrence contains one of
    them intact.  That needs the set kmer_chunks returns to be ALL pieces of one partition of the sequence into `chunks`
    consecutive pieces (of almost equal size) - a piece left out, e.g. because it is contained in a longer one, may be the only
    intact one.  kmer_chunks is a closed function; it is folded for every sequence over {A, C} up to length 8 (repeats
    included) and every chunk count up to 4."""
    import itertools
    from .. import constfold
    fn = repo.func("kmer_heuristic", "kmer_chunks")
    if fn is None:
        raise Unrecognised("kmer_heuristic.kmer_chunks not found")
    ps = params(fn)
    bad, n = [], 0
    try:
        for length in range(1, 9):
            for tup in itertools.product("AC", repeat=length):
                seq = "".join(tup)
                for chunks in range(1, min(4, length) + 1):
                    got = constfold.fold_function(fn, {ps[0]: seq, ps[1]: chunks})
                    n += 1
                    size, rem = divmod(length, chunks)
                    okp = False
                    for big in itertools.combinations(range(chunks), rem):
                        sizes = [size + 1 if i in big else size for i in range(chunks)]
                        off, pieces = 0, set()
                        for sz in sizes:
                            pieces.add(seq[off:off + sz]); off += sz
                        if set(got) == pieces:
                            okp = True
                            break
                    if not okp:
                        bad.append({"sequence": seq, "chunks": chunks, "returned": sorted(got)})
                        if len(bad) >= 3:
                            raise StopIteration
    except StopIteration:
        pass
    except constfold.NotConstant as e:
        report.unrecognised("C07.R3", "kmer_chunks", f"not a closed function ({e})", repo.loc(fn))
        return
    report.ob("C07.R3", "kmer_chunks returns every piece of a partition", not bad, facts={"cases": n, "not_a_partition": bad}, cases=n, loc=repo.loc(fn),
              expected="the set of all pieces of a split of the sequence into `chunks` consecutive pieces whose sizes differ by at most one",
              why=(f"for {bad[0]['sequence']!r} and {bad[0]['chunks']} chunks the function returns {bad[0]['returned']}, which is not the set of pieces of any such split: an occurrence whose only error-free piece is missing from the set is rejected by the prefilter" if bad else ""))


def _finder_is_the_adapters_own(repo, report):
    """Each adapter searches with the prefilter built for ITS configuration: self.kmer_finder is the result of
    self._kmer_finder().  If finders are shared through a table, the key must contain everything the builders read from
    the adapter (type, sequence, rate, overlap, both wildcard flags, indels, and the ;anywhere flag) - a finder built for
    another placement rejects occurrences this adapter admits."""
    from ..repo import expand
    c, init = repo.need_method("SingleAdapter", "__init__")
    st = [n for n in ast.walk(init) if isinstance(n, ast.Assign) and any(chain(t) == "self.kmer_finder" for t in n.targets)]
    if len(st) != 1:
        raise Unrecognised("SingleAdapter.__init__: one assignment to self.kmer_finder expected", repo.loc(init))
    v = expand(init, st[0].value)
    if isinstance(v, ast.Call) and chain(v.func) == "self._kmer_finder" and not v.args and not v.keywords:
        report.ob("C07.R2", "each adapter builds its own prefilter", True, facts={"assigned": src(v)}, expected="self.kmer_finder = self._kmer_finder()", loc=repo.loc(st[0]))
        return
    # shared: collect what the builders depend on
    needs = set()
    for cls in [repo.cls("SingleAdapter")] + repo.subclasses("SingleAdapter"):
        for mname in ("_kmer_finder", "_make_kmer_finder"):
            m_ = cls.methods.get(mname)
            if m_ is None:
                continue
            needs |= {x.attr for x in ast.walk(m_) if isinstance(x, ast.Attribute) and isinstance(x.value, ast.Name) and x.value.id == "self" and isinstance(x.ctx, ast.Load)
                      and x.attr not in ("_make_kmer_finder", "_kmer_finder", "_debug", "aligner")}
    if isinstance(v, ast.Subscript):
        key = expand(init, v.slice)
        have = {x.attr for x in ast.walk(key) if isinstance(x, ast.Attribute) and isinstance(x.value, ast.Name) and x.value.id == "self"}
        typed = any(isinstance(x, ast.Call) and chain(x.func) == "type" for x in ast.walk(key)) or "__class__" in have
        missing = sorted(needs - have) + ([] if typed else ["type(self)"])
        report.ob("C07.R2", "each adapter builds its own prefilter", not missing, facts={"assigned": src(v)[:120], "key": src(key)[:200], "builders_read": sorted(needs), "missing_from_key": missing}, loc=repo.loc(st[0]),
                  expected="self.kmer_finder = self._kmer_finder(), or a shared table keyed by everything the builders read",
                  why=(f"prefilters are shared under a key without {missing}: an adapter differing only in that setting (e.g. 'SEQ;anywhere' after 'SEQ') searches with the other adapter's windows and loses occurrences it admits" if missing else ""))
        return
    report.unrecognised("C07.R2", "each adapter builds its own prefilter", f"self.kmer_finder = {src(v)[:100]}", repo.loc(st[0]))


def _kmer_sets_reach_finder_unchanged(repo, report):
    """SingleAdapter._make_kmer_finder may move the windows of the search entries (widening for indels) but hands the
    k-mer LISTS of create_positions_and_kmers to KmerFinder as they are: an entry is satisfied by ANY of its k-mers, so
    taking one out (e.g. an all-N k-mer, which every read contains) makes the entry stricter than the pigeonhole argument
    allows."""
    c, fn = repo.need_method("SingleAdapter", "_make_kmer_finder")
    kf = [x for x in ast.walk(fn) if isinstance(x, ast.Call) and chain(x.func) == "KmerFinder" and x.args]
    if len(kf) != 1 or not isinstance(kf[0].args[0], ast.Name):
        raise Unrecognised("_make_kmer_finder: KmerFinder(<entries>, ...) not found", repo.loc(fn))
    v = kf[0].args[0].id
    binds = [n for n in ast.walk(fn) if isinstance(n, ast.Assign) and any(isinstance(t, ast.Name) and t.id == v for t in n.targets)]
    origin = [b for b in binds if isinstance(b.value, ast.Call) and chain(b.value.func) == "create_positions_and_kmers"]
    bad = []
    for b in binds:
        if b in origin:
            continue
        e = b.value
        ok = isinstance(e, (ast.ListComp, ast.GeneratorExp)) or (isinstance(e, ast.Call) and chain(e.func) in ("list", "tuple") and e.args and isinstance(e.args[0], (ast.ListComp, ast.GeneratorExp)))
        comp = e if isinstance(e, (ast.ListComp, ast.GeneratorExp)) else (e.args[0] if ok else None)
        if comp is None or len(comp.generators) != 1 or comp.generators[0].ifs or chain(comp.generators[0].iter) != v or not isinstance(comp.generators[0].target, ast.Tuple) or len(comp.generators[0].target.elts) != 3 \
                or not isinstance(comp.elt, ast.Tuple) or len(comp.elt.elts) != 3:
            bad.append(f"line {b.lineno}: {src(e)[:100]}")
            continue
        third = comp.generators[0].target.elts[2]
        if not (isinstance(third, ast.Name) and isinstance(comp.elt.elts[2], ast.Name) and comp.elt.elts[2].id == third.id):
            bad.append(f"line {b.lineno}: the k-mer list of an entry becomes {src(comp.elt.elts[2])[:80]}")
    report.ob("C07.R5", "_make_kmer_finder hands the k-mer lists to the finder unchanged", len(origin) == 1 and not bad, facts={"rebindings": len(binds) - len(origin), "problems": bad[:2]}, loc=repo.loc(fn),
              expected=f"{v} = create_positions_and_kmers(...); later rebindings only map (start, stop, kmers) -> (start', stop', kmers)",
              why=(f"{bad[0]}: k-mers are removed from (or entries dropped out of) the search sets after they were built, so a read whose only intact chunk is the removed k-mer is rejected by the prefilter although the aligner would accept it" if bad else ""))


def _no_kmer_dropped(repo, report):
    """remove_redundant_kmers / minimize_kmer_search_list only regroup: every k-mer of every search set is passed on
    (an over-long k-mer must reach KmerFinder, whose ValueError triggers the always-true fallback)"""
    fn = repo.func("kmer_heuristic", "remove_redundant_kmers")
    inner = [n for n in ast.walk(fn) if isinstance(n, ast.For) and any(isinstance(x, ast.Call) and (chain(x.func) or "").endswith(".append") for x in n.body if isinstance(x, ast.Expr) for x in [x.value]) or
             (isinstance(n, ast.For) and any(isinstance(x, ast.If) for x in n.body))]
    bad = []
    n_loops = 0
    for lp in [n for n in ast.walk(fn) if isinstance(n, ast.For)]:
        if any(isinstance(x, ast.For) for x in lp.body):
            continue  # outer loop of a nest
        n_loops += 1
        env = {}
        for nm in {x.id for x in ast.walk(lp) if isinstance(x, ast.Name)}:
            env[nm] = Obj(nm.upper(), nonnull=True)
        rws = explore(repo, lp.body, env, inline=False, loop_mode="forbid")
        for r in rws:
            passed = [e for e in r.effects if e[0] == "call" and e[1].endswith(".append")]
            if r.exit[0] != "fall" or len(passed) != 1:
                bad.append({"loop": src(lp.target), "path": r.describe()["valuation"], "exit": r.exit[0], "appends": len(passed)})
    report.ob("C07.R5", "remove_redundant_kmers passes every k-mer on", not bad and n_loops >= 2, facts={"loops": n_loops, "problems": bad[:2]},
              expected="each loop body appends its item unconditionally", loc=repo.loc(fn),
              why=("a k-mer is left out on some path: its search set silently shrinks (or disappears) and reads carrying only that k-mer are rejected" if bad else ""))


def r5_word(repo, report):
    _no_kmer_dropped(repo, report)
    _kmer_sets_reach_finder_unchanged(repo, report)
    _finder_is_the_adapters_own(repo, report)
    _chunks_are_a_partition(repo, report)
    c, fn = repo.need_method("KmerFinder", "__cinit__")
    inner = [n for n in ast.walk(fn) if isinstance(n, ast.While)]
    if len(inner) < 2:
        raise Unrecognised("KmerFinder.__cinit__: packing loops not found", repo.loc(fn))
    pack = inner[-1]
    stmts = pack.body
    idx = {}
    for i, s in enumerate(stmts):
        t = src(s)
        if isinstance(s, ast.If) and "kmer_length > MAX_WORD_SIZE" in t.replace("64", "MAX_WORD_SIZE") and any(isinstance(x, ast.Raise) for x in s.body):
            idx["too_long"] = i
        if isinstance(s, ast.If) and "offset + kmer_length > " in t and any(isinstance(x, ast.Break) for x in s.body):
            idx["no_room"] = i
        if "memcpy(" in t:
            idx["copy"] = i
        if "found_mask |=" in t.replace(" ", " "):
            idx["found"] = i
    ok = all(k in idx for k in ("too_long", "no_room", "copy", "found")) and idx["too_long"] < idx["no_room"] < idx["copy"] and idx["no_room"] < idx["found"]
    report.ob("C07.R5", "KmerFinder.__cinit__: size tests dominate the copy", ok, facts=idx, expected="kmer_length > 64 raises and offset + kmer_length > 64 breaks before the k-mer is copied into the 64-bit word", loc=repo.loc(pack))
    consts = {}
    for n in ast.walk(fn):
        if isinstance(n, ast.Compare) and isinstance(n.comparators[0], ast.Constant) and isinstance(n.comparators[0].value, int):
            consts[src(n.left)] = n.comparators[0].value
    report.ob("C07.R5", "word size constant", set(consts.values()) == {64}, facts=consts, expected="64 bits", loc=repo.loc(fn))
