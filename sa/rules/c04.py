"""C04 - Each read is written once or counted as filtered once; totals add up."""
from __future__ import annotations

import ast

from .. import constfold
from ..absint import Const, Obj, explore, vkey
from ..core import Unrecognised
from ..repo import chain, params, src, strip_docstring, walk_no_nested, calls, call_name
from ..roles import call_rows, call_args_of, returned_self_attr, step_classes, summarize_accounting
from ..tables import Bool, check_table

P = "C04"


def run(repo, report, tier):
    report.rule("C04.R1", "on every path of a step's __call__ that consumes the read (returns None) exactly one of {filtered counter += 1} or {write + length-statistics update of the same records} happens; on paths that pass the read on, neither happens",
                "a read is lost without being counted, or counted twice (input != written + filtered)")
    report.rule("C04.R2", "a class has a filtered counter iff it implements HasFilterStatistics, updates length statistics iff it implements HasStatistics; Statistics._collect_step tests both interfaces independently",
                "a step's counts never reach the report (e.g. a demultiplexer that both writes and discards)")
    report.rule("C04.R3", "every filter name a step can report (descriptive_identifier of predicates and sinks) is a key of report.FILTERS; names used by minimal_report are keys too",
                "reads discarded by that filter are missing from the text/JSON report")
    report.rule("C04.R5", "both process_reads loops: n += 1 exactly once per record, total_bp += len(<the record as read>), and the step loop stops at the first None",
                "input totals do not equal the sums over reads, or a consumed read reaches later steps")
    report.rule("C04.R6", "WorkerProcess.run: per-chunk collect(n, bp, bp, [], []) inside the chunk loop, exactly one collect(0, 0, .., modifiers, steps) after it; the serial runner collects once",
                "per-step counters are added once per chunk (double counting) or never")
    report.guard("C04.R1", "steps", r1_accounting, repo, report)
    report.guard("C04.R2", "Statistics._collect_step", r2_collect, repo, report)
    report.guard("C04.R2", "collector accumulation", r2_accumulates, repo, report)
    report.guard("C04.R3", "report.FILTERS", r3_names, repo, report)
    report.guard("C04.R5", "process_reads", r5_loops, repo, report)
    report.guard("C04.R6", "runners", r6_collect, repo, report)
    report.rule("C04.R7", "minimal_report: each documented column of --report=minimal shows the tally it is documented to show (reads/bases in, per-filter counts, reads out, R1/R2 with adapters, R1/R2 quality-trimmed bases, R1/R2 bases out), with Statistics' one-line properties resolved to what they compute",
                "a column of the minimal report shows another quantity (e.g. bases of both reads under out_bp), so the report no longer adds up with the files")
    report.guard("C04.R7", "minimal_report", r7_minimal_columns, repo, report)
    report.guard("C04.R7", "full_report sections", r7_report_sections, repo, report)
    report.rule("C04.R8", "no two writers share a file: main() hands every output option to complain_about_duplicate_paths, and that function compares a normalised form of the path (so that two spellings of one file are recognised) and raises on a repeat",
                "the same file is opened by two writers: one overwrites the other's records while the report counts both as written")
    report.guard("C04.R8", "duplicate output paths", r8_duplicate_paths, repo, report)
    report.guard("C04.R8", "files opened for writing", r8_claimed_before_open, repo, report)
    from . import builder_rules

    report.rule("C04.R4", "on every builder path the steps list ends with a consuming sink (writer or demultiplexer) and nothing follows it",
                "reads that pass all filters are silently dropped or a step runs after the sink")
    report.guard("C04.R4", "make_pipeline_from_args", builder_rules.c04_r4_last_step_is_sink, repo, report, tier)


# ---------------------------------------------------------------------------
def accounting_facts(repo, cls, fn):
    counter = returned_self_attr(repo, cls.name, "filtered")
    stats = returned_self_attr(repo, cls.name, "get_statistics")
    rows, ps = call_rows(repo, cls, fn)
    return counter, stats, rows, ps


def r1_accounting(repo, report):
    steps = step_classes(repo)
    n_consuming = 0
    for cls, fn, paired in steps:
        construct = f"{cls.name}.__call__"
        report.saw(file=cls.module.relpath, function=construct, cls=cls.name)
        try:
            counter, stats, rows, ps = accounting_facts(repo, cls, fn)
        except Unrecognised as u:
            report.unrecognised("C04.R1", construct, u.what, repo.loc(fn))
            continue
        report.saw(paths=len(rows))
        read_params = [p for p in ps if p.startswith("read")]
        bad = []
        consuming = False
        for row in rows:
            if row.exit[0] == "raise":
                continue
            if row.exit[0] not in ("return", "fall"):
                bad.append({"path": row.describe(), "problem": f"unexpected exit {row.exit[0]}"})
                continue
            retval = row.exit[1]
            consumed = row.exit[0] == "fall" or (isinstance(retval, Const) and retval.value is None)
            nf, nu, nw, writes, updates, other = summarize_accounting(row, counter, stats)
            if consumed:
                consuming = True
                delegated = any(k.startswith("isnone:self.") and "(" in k and v is True for k, v in row.valuation.items())
                if nf == 1 and nu == 0 and nw <= 1:
                    ok = True
                elif nf == 0 and nu == 1 and nw == 1:
                    ok = call_args_of(writes[0]) == call_args_of(updates[0])
                    if not ok:
                        bad.append({"path": row.describe(), "problem": f"write{call_args_of(writes[0])!r} and statistics update{call_args_of(updates[0])!r} see different records"})
                        continue
                elif nf == 0 and nu == 0 and nw == 0 and delegated:
                    ok = True  # consumed by the wrapped step, which accounts for it (its own obligation)
                else:
                    ok = False
                if not ok:
                    bad.append({"path": row.describe(), "problem": f"consumes the read with filtered+={nf}, statistics updates={nu}, writes={nw}"})
            else:
                if nf or nu or nw:
                    bad.append({"path": row.describe(), "problem": f"passes the read on but filtered+={nf}, updates={nu}, writes={nw}"})
        if consuming:
            n_consuming += 1
        report.ob("C04.R1", construct, not bad, facts={"paths": len(rows), "counter": counter, "statistics": stats, "problems": bad[:4]},
                  expected="consuming path: (filtered+=1, no update, <=1 write) or (one write + one update of the same records); passing path: none",
                  loc=repo.loc(fn), cases=len(rows), fact_key="unaccounted" if bad else None,
                  why=bad[0]["problem"] if bad else "")
    report.floor("C04.R1", "consuming step classes", n_consuming, 7)


def r2_collect(repo, report):
    # (a) class-level: counter <=> interface
    for cls, fn, paired in step_classes(repo):
        counter = returned_self_attr(repo, cls.name, "filtered")
        stats = returned_self_attr(repo, cls.name, "get_statistics")
        incs = updates = 0
        for c in repo.mro(cls.name):
            for m in c.methods.values():
                for n in walk_no_nested(m):
                    if isinstance(n, ast.AugAssign) and chain(n.target) and counter and chain(n.target) == counter:
                        incs += 1
                    if isinstance(n, ast.Call) and stats and call_name(n) in (stats + ".update", stats + ".update2"):
                        updates += 1
        has_f = repo.is_subclass(cls.name, "HasFilterStatistics")
        has_s = repo.is_subclass(cls.name, "HasStatistics")
        # any '+= 1' on a self attribute named like a filtered counter without the interface
        stray = []
        if not has_f:
            for m in cls.methods.values():
                for n in walk_no_nested(m):
                    if isinstance(n, ast.AugAssign) and (chain(n.target) or "").startswith("self._filtered"):
                        stray.append(src(n))
        ok = (not has_f or incs > 0) and (not has_s or updates > 0) and not stray
        report.ob("C04.R2", f"{cls.name} interfaces", ok,
                  facts={"HasFilterStatistics": has_f, "counter": counter, "increments": incs, "HasStatistics": has_s, "statistics": stats, "updates": updates, "stray": stray},
                  expected="interface present => counter/statistics object is actually updated; a counter without the interface is never collected",
                  loc=repo.loc(cls.node))
    # (b) _collect_step decision table
    cls, fn = repo.need_method("Statistics", "_collect_step")
    ps = params(fn)
    if len(ps) != 2:
        raise Unrecognised("Statistics._collect_step signature changed", repo.loc(fn))
    stepname = ps[1]
    rows = explore(repo, strip_docstring(fn.body), {"self": Obj("self"), stepname: Obj("STEP")}, inline=False)
    report.saw(function="Statistics._collect_step", file=cls.module.relpath, paths=len(rows))
    roles = {"stat": Bool("isinstance:STEP:HasStatistics"), "filt": Bool("isinstance:STEP:HasFilterStatistics")}

    def outcome(row):
        s = any(e[0] == "aug" and e[1] == "self.read_length_statistics" and "get_statistics" in e[2] for e in row.effects)
        f = any(e[0] in ("store", "aug") and e[1].startswith("self.filtered[") and "filtered()" in e[2] for e in row.effects)
        return (s, f)

    mism, n, _ = check_table(rows, roles, lambda rv: (rv["stat"], rv["filt"]), outcome)
    report.ob("C04.R2", "Statistics._collect_step", not mism, facts={"mismatches": mism, "rows": len(rows)},
              expected="length statistics merged iff HasStatistics; filtered[name] recorded iff HasFilterStatistics (independently)",
              loc=repo.loc(fn), cases=n)
    # (c) collect() visits every step and every modifier
    ccls, cfn = repo.need_method("Statistics", "collect")
    loops = [n for n in ast.walk(cfn) if isinstance(n, ast.For)]
    seen = {}
    for lp in loops:
        it = chain(lp.iter)
        for c in calls(lp):
            cn = call_name(c)
            if cn in ("self._collect_step", "self._collect_modifier") and isinstance(lp.target, ast.Name) and c.args and chain(c.args[0]) == lp.target.id:
                seen[cn] = it
    ps = params(cfn)
    ok = seen.get("self._collect_step") == "steps" and seen.get("self._collect_modifier") == "modifiers" and "steps" in ps and "modifiers" in ps
    report.ob("C04.R2", "Statistics.collect", ok, facts=seen, expected="for step in steps: _collect_step(step); for modifier in modifiers: _collect_modifier(modifier)", loc=repo.loc(cfn))


def predicate_identifier(repo, cls):
    """Name reported for a predicate class: literal override or the base-class rule folded on the class name."""
    c, f = repo.method(cls.name, "descriptive_identifier")
    if f is None:
        raise Unrecognised(f"{cls.name}.descriptive_identifier not found")
    body = strip_docstring(f.body)
    if len(body) != 1 or not isinstance(body[0], ast.Return):
        raise Unrecognised(f"{c.name}.descriptive_identifier is not a single return", repo.loc(f))
    expr = body[0].value
    # class attributes with literal values (looked up along the MRO) are part of what 'cls' is
    attrs = {"__name__": cls.name}
    for k in reversed(repo.mro(cls.name)):
        for an, av in k.class_attrs.items():
            if isinstance(av, ast.Constant):
                attrs[an] = av.value
    try:
        return constfold.fold(expr, {"cls": {"__attrs__": attrs}, "self": {"__attrs__": dict(attrs, __class__={"__attrs__": attrs})}})
    except constfold.NotConstant as e:
        raise Unrecognised(f"cannot fold {c.name}.descriptive_identifier for {cls.name}: {e}", repo.loc(f))


def r3_names(repo, report):
    filters = repo.module_assign("report", "FILTERS")
    if not isinstance(filters, ast.Dict):
        raise Unrecognised("report.FILTERS is not a dict literal")
    keys = set(constfold.fold(filters).keys())
    preds = repo.subclasses("Predicate")
    report.floor("C04.R3", "predicate classes", len(preds), 8)
    seen_names = {}
    for p in preds:
        name = predicate_identifier(repo, p)
        seen_names.setdefault(name, []).append(p.name)
        report.saw(cls=p.name, file=p.module.relpath)
        report.ob("C04.R3", f"{p.name}.descriptive_identifier", name in keys, facts={"identifier": name, "FILTERS": sorted(keys)},
                  expected="identifier is a key of report.FILTERS", loc=repo.loc(p.node), fact_key=name,
                  why=f"reads filtered as '{name}' are counted but never shown in the report" if name not in keys else "")
    dup = {k: v for k, v in seen_names.items() if len(v) > 1}
    report.ob("C04.R3", "predicate identifiers are distinct", not dup, facts={"shared": dup}, loc="src/cutadapt/predicates.py",
              expected="every predicate class reports under its own name (the collector stores filtered[name] = count per step)",
              why=(f"{list(dup.values())[0]} both report as '{list(dup)[0]}': with both filters in use one count overwrites the other and input != written + filtered" if dup else ""))
    # sinks / filters that report a literal or delegate
    for cls, fn, paired in step_classes(repo):
        if not repo.is_subclass(cls.name, "HasFilterStatistics"):
            continue
        c, f = repo.method(cls.name, "descriptive_identifier")
        if f is None:
            report.unrecognised("C04.R3", f"{cls.name}.descriptive_identifier", "missing")
            continue
        rets = [n for n in walk_no_nested(f) if isinstance(n, ast.Return) and n.value is not None]
        names, delegated = [], 0
        for r in rets:
            if isinstance(r.value, ast.Constant) and isinstance(r.value.value, str):
                names.append(r.value.value)
            elif isinstance(r.value, ast.Call) and (call_name(r.value) or "").endswith(".descriptive_identifier"):
                delegated += 1
            else:
                report.unrecognised("C04.R3", f"{cls.name}.descriptive_identifier", f"return shape {src(r.value)}", repo.loc(r))
        for nm in names:
            report.ob("C04.R3", f"{cls.name}.descriptive_identifier", nm in keys, facts={"identifier": nm}, expected="a key of report.FILTERS", loc=repo.loc(f), fact_key=nm)
        if not names and not delegated:
            report.unrecognised("C04.R3", f"{cls.name}.descriptive_identifier", "no recognised return")
    # consumers: minimal_report and as_json / format_filter_report
    mr = repo.func("report", "minimal_report")
    used = []
    for c in calls(mr):
        if (call_name(c) or "").endswith("filtered.get") and c.args and isinstance(c.args[0], ast.Constant):
            used.append(c.args[0].value)
    for n in ast.walk(mr):
        if isinstance(n, ast.Subscript) and (chain(n.value) or "").endswith(".filtered") and isinstance(n.slice, ast.Constant):
            used.append(n.slice.value)
    report.ob("C04.R3", "minimal_report filter names", set(used) <= keys and len(used) >= 3, facts={"used": used}, expected="names looked up by minimal_report are FILTERS keys", loc=repo.loc(mr))
    ff = repo.func("report", "format_filter_report")
    it_ok = any(isinstance(n, ast.For) and src(n.iter) in ("FILTERS.items()", "FILTERS", "FILTERS.keys()") for n in ast.walk(ff))
    report.ob("C04.R3", "format_filter_report iterates FILTERS", it_ok, expected="for name, description in FILTERS.items()", loc=repo.loc(ff))
    c, aj = repo.need_method("Statistics", "as_json")
    comp = [n for n in ast.walk(aj) if isinstance(n, ast.DictComp) and "FILTERS" in src(n.generators[0].iter)]
    total = [n for n in ast.walk(aj) if isinstance(n, ast.Call) and src(n) == "sum(self.filtered.values())"]
    asserts = [n for n in ast.walk(aj) if isinstance(n, ast.Assert)]
    report.ob("C04.R3", "Statistics.as_json", bool(comp) and bool(total), facts={"per_name_from_FILTERS": bool(comp), "total_over_all_counted": bool(total), "asserts": [src(a.test) for a in asserts]},
              expected="JSON 'filtered' enumerates FILTERS keys while the total sums every counted name: a name outside FILTERS would make the JSON totals disagree", loc=repo.loc(aj))


def r5_loops(repo, report):
    for cname in ("SingleEndPipeline", "PairedEndPipeline"):
        cls, fn = repo.need_method(cname, "process_reads")
        outer = [n for n in strip_docstring(fn.body) if isinstance(n, ast.For)]
        outer = [n for n in outer if any(isinstance(x, ast.For) for x in ast.walk(n) if x is not n)] or outer
        main = None
        for lp in outer:
            if any(isinstance(x, ast.AugAssign) for x in ast.walk(lp)):
                main = lp
        if main is None:
            raise Unrecognised(f"{cname}.process_reads: record loop not found", repo.loc(fn))
        rec = main.target
        env = {"self": Obj("self", cls=cname), "progress": Obj("progress")}
        for s in strip_docstring(fn.body):
            if isinstance(s, ast.Assign) and isinstance(s.targets[0], ast.Name) and isinstance(s.value, ast.Constant):
                env[s.targets[0].id] = Obj("INIT_" + s.targets[0].id)
        itemkey = "REC"
        if isinstance(rec, ast.Name):
            env[rec.id] = Obj(itemkey)
        else:
            raise Unrecognised(f"{cname}.process_reads: loop target shape", repo.loc(main))
        rows = explore(repo, main.body, env, inline=False)
        report.saw(function=f"{cname}.process_reads", file=cls.module.relpath, paths=len(rows))
        bad = []
        for row in rows:
            augs = [(e[1], e[2], e[4]) for e in row.effects if e[0] == "auglocal"]
            ncount = [a for a in augs if a[1] == "+1" and not a[2]]
            if len(ncount) != 1:
                bad.append({"problem": f"record counter incremented {len(ncount)} times", "path": row.describe()})
            bp = [a for a in augs if a[1].startswith("+len(")]
            want = 2 if cname == "PairedEndPipeline" else 1
            if len(bp) != want or any(a[2] for a in bp):
                bad.append({"problem": f"{len(bp)} base-pair increments, expected {want}", "path": row.describe()})
            for a in bp:
                if "step(" in a[1] or "(" in a[1][5:-1].replace("REC", ""):
                    if "REC" not in a[1]:
                        bad.append({"problem": f"base pairs counted on a modified record: {a[1]}", "path": row.describe()})
            if cname == "PairedEndPipeline":
                ks = sorted(a[1] for a in bp)
                if len(ks) == 2 and not (("REC[0]" in ks[0] and "REC[1]" in ks[1])):
                    bad.append({"problem": f"pair totals not from (read1, read2): {ks}", "path": row.describe()})
                tg = sorted(a[0] for a in bp)
                if len(set(tg)) != len(tg):
                    bad.append({"problem": f"both mates counted into the same total {tg}", "path": row.describe()})
        # inner loop: stops at first None, feeds previous result
        inner = [x for x in ast.walk(main) if isinstance(x, ast.For) and x is not main]
        ok_inner = False
        facts_inner = {}
        if len(inner) == 1:
            il = inner[0]
            stepv = il.target.id if isinstance(il.target, ast.Name) else None
            assigns = [s for s in il.body if isinstance(s, ast.Assign)]
            ifs = [s for s in il.body if isinstance(s, ast.If)]
            if stepv and len(assigns) == 1 and len(ifs) == 1 and isinstance(assigns[0].value, ast.Call) and chain(assigns[0].value.func) == stepv:
                tgt = chain(assigns[0].targets[0])
                call = assigns[0].value
                argnames = [src(a) for a in call.args]
                feeds_prev = tgt in [a.lstrip("*") for a in argnames]
                test = ifs[0].test
                stops = isinstance(test, ast.Compare) and chain(test.left) == tgt and isinstance(test.ops[0], ast.Is) and isinstance(test.comparators[0], ast.Constant) and test.comparators[0].value is None and any(isinstance(b, ast.Break) for b in ifs[0].body)
                order_ok = il.body.index(assigns[0]) < il.body.index(ifs[0])
                ok_inner = feeds_prev and stops and order_ok
                facts_inner = {"target": tgt, "args": argnames, "feeds_previous_result": feeds_prev, "breaks_on_None": stops, "iterates": src(il.iter)}
                # the iterated list is modifiers + steps in that order
                itn = chain(il.iter)
                defs = [s for s in strip_docstring(fn.body) if isinstance(s, ast.Assign) and chain(s.targets[0]) == itn]
                if len(defs) == 1:
                    facts_inner["list"] = src(defs[0].value)
                    v = defs[0].value
                    ok_inner = ok_inner and isinstance(v, ast.BinOp) and isinstance(v.op, ast.Add) and chain(v.left) == "self._modifiers" and chain(v.right) == "self._steps"
                else:
                    ok_inner = False
        report.ob("C04.R5", f"{cname}.process_reads totals", not bad, facts={"paths": len(rows), "problems": bad[:3]},
                  expected="n += 1 once; total bp += len(record as read from input), once per mate", loc=repo.loc(main), cases=len(rows))
        report.ob("C04.R5", f"{cname}.process_reads step loop", ok_inner, facts=facts_inner,
                  expected="for step in self._modifiers + self._steps: x = step(x...); if x is None: break", loc=repo.loc(main))


def r6_collect(repo, report):
    cls, fn = repo.need_method("WorkerProcess", "run")
    in_loop, after = [], []
    loops = [n for n in ast.walk(fn) if isinstance(n, (ast.While, ast.For))]
    for c in calls(fn):
        if (call_name(c) or "").endswith(".collect") or (isinstance(c.func, ast.Attribute) and c.func.attr == "collect"):
            inside = any(c in list(ast.walk(lp)) for lp in loops)
            (in_loop if inside else after).append(c)
    def empties(c):
        return len(c.args) >= 5 and all(isinstance(a, (ast.List, ast.Tuple)) and not a.elts for a in c.args[3:5])
    ok_in = len(in_loop) == 1 and empties(in_loop[0])
    ok_after = len(after) == 1 and len(after[0].args) >= 5 and src(after[0].args[3]).endswith("_modifiers") and src(after[0].args[4]).endswith("_steps") \
        and all(isinstance(a, ast.Constant) and a.value == 0 for a in after[0].args[:2])
    # per-chunk collect takes the numbers returned by process_reads
    pr = [n for n in ast.walk(fn) if isinstance(n, ast.Assign) and isinstance(n.value, ast.Call) and (call_name(n.value) or "").endswith(".process_reads")]
    names = []
    if pr and isinstance(pr[0].targets[0], ast.Tuple):
        names = [src(e) for e in pr[0].targets[0].elts]
    args_in = [src(a) for a in in_loop[0].args[:3]] if in_loop else []
    ok_in = ok_in and names == args_in
    # both merged into stats with +=
    merged = [n for n in ast.walk(fn) if isinstance(n, ast.AugAssign) and isinstance(n.op, ast.Add) and isinstance(n.value, ast.Call) and any(x in in_loop + after for x in ast.walk(n.value))]
    report.saw(function="WorkerProcess.run", file=cls.module.relpath, call_sites=len(in_loop) + len(after))
    report.ob("C04.R6", "WorkerProcess.run per-chunk collect", ok_in, facts={"in_loop": [src(c) for c in in_loop], "process_reads_result": names},
              expected="exactly one collect(n, bp1, bp2, [], []) per chunk with process_reads' numbers", loc=repo.loc(fn))
    report.ob("C04.R6", "WorkerProcess.run final collect", ok_after and len(merged) == 2, facts={"after_loop": [src(c) for c in after], "merged_with_iadd": len(merged)},
              expected="exactly one collect(0, 0, .., self._pipeline._modifiers, self._pipeline._steps) after the chunk loop; both merged with +=", loc=repo.loc(fn))
    scls, sfn = repo.need_method("SerialPipelineRunner", "run")
    cs = [c for c in calls(sfn) if isinstance(c.func, ast.Attribute) and c.func.attr == "collect"]
    pr = [n for n in ast.walk(sfn) if isinstance(n, ast.Assign) and isinstance(n.value, ast.Call) and (call_name(n.value) or "").endswith(".process_reads")]
    ok = len(cs) == 1 and len(pr) == 1 and isinstance(pr[0].targets[0], ast.Tuple) and [src(e) for e in pr[0].targets[0].elts] == [src(a) for a in cs[0].args[:3]] and not any(isinstance(l, (ast.For, ast.While)) for l in ast.walk(sfn))
    report.ob("C04.R6", "SerialPipelineRunner.run collect", ok, facts={"collect": [src(c) for c in cs]}, expected="one collect with process_reads' numbers, modifiers and steps", loc=repo.loc(sfn))
    # Statistics.collect refuses a second call and assigns n / bp
    ccls, cfn = repo.need_method("Statistics", "collect")
    stores = {chain(t): src(n.value) for n in ast.walk(cfn) if isinstance(n, ast.Assign) for t in n.targets if chain(t)}
    sub = {src(t): src(n.value) for n in ast.walk(cfn) if isinstance(n, ast.Assign) for t in n.targets if isinstance(t, ast.Subscript)}
    ps = params(cfn)
    ok = stores.get("self.n") == ps[1] and sub.get("self.total_bp[0]") == ps[2] and sub.get("self.total_bp[1]") == ps[3]
    report.ob("C04.R6", "Statistics.collect totals", ok, facts={"self.n": stores.get("self.n"), **sub}, expected="n, total_bp[0], total_bp[1] taken from the arguments in order", loc=repo.loc(cfn))


def r2_accumulates(repo, report):
    """what several modifiers count into one reported number must be added up by the collector (same construct as C20.R3)"""
    from ..core import Report
    from . import c20

    tmp = Report("C04", report.tier)
    c20.r3_collect(repo, tmp)
    hit = [o for o in tmp.obligations if o.construct == "tallies fed by several modifiers are accumulated"]
    for o in hit:
        report.ob("C04.R2", "Statistics._collect_modifier: " + o.construct, None if o.state == "UNRECOGNISED" else o.state == "DISCHARGED", facts=o.facts, expected=o.expected, loc=o.loc, why=o.why)
    report.floor("C04.R2", "collector accumulation obligations", len(hit), 1)


def _resolve_properties(repo, cls_name, expr, recv):
    """Replace recv.<p> by the body of the one-line @property p of class cls_name (self -> recv), repeatedly."""
    import copy
    cls = repo.cls(cls_name)
    props = {}
    for name, m in cls.methods.items():
        if any(chain(d) == "property" for d in m.decorator_list):
            body = strip_docstring(m.body)
            if len(body) == 1 and isinstance(body[0], ast.Return) and body[0].value is not None:
                props[name] = body[0].value

    def once(e):
        hit = [False]

        class T(ast.NodeTransformer):
            def visit_Attribute(self, node):
                self.generic_visit(node)
                if isinstance(node.value, ast.Name) and node.value.id == recv and node.attr in props and isinstance(node.ctx, ast.Load):
                    hit[0] = True
                    b = copy.deepcopy(props[node.attr])
                    for x in ast.walk(b):
                        if isinstance(x, ast.Name) and x.id == "self":
                            x.id = recv
                    return b
                return node

        e = T().visit(e)
        return e, hit[0]

    e = copy.deepcopy(expr)
    for _ in range(6):
        e, again = once(e)
        if not again:
            break
    return e


_MINIMAL_COLUMNS = {
    "in_reads": "S.n", "in_bp": "sum(S.total_bp)",
    "too_short": "S.filtered.get('too_short', 0)", "too_long": "S.filtered.get('too_long', 0)", "too_many_n": "S.filtered.get('too_many_n', 0)",
    "out_reads": "S.read_length_statistics.written_reads()",
    "w/adapters": "S.with_adapters[0] if S.with_adapters[0] is not None else 0", "qualtrim_bp": "S.quality_trimmed_bp[0] if S.quality_trimmed_bp[0] is not None else 0",
    "out_bp": "S.read_length_statistics.written_bp()[0]",
    "w/adapters2": "S.with_adapters[1] if S.with_adapters[1] is not None else 0", "qualtrim2_bp": "S.quality_trimmed_bp[1] if S.quality_trimmed_bp[1] is not None else 0",
    "out2_bp": "S.read_length_statistics.written_bp()[1]",
}


def r7_minimal_columns(repo, report):
    from ..repo import nsrc
    mr = repo.func("report", "minimal_report")
    if mr is None:
        raise Unrecognised("report.minimal_report not found")
    st = params(mr)[0]

    def collect(name):
        """elements of the list bound to name: the literal it starts with, then the literal of the one `name += [...]` under `if <stats>.paired`"""
        base, ext = None, None
        for n in ast.walk(mr):
            if isinstance(n, ast.Assign) and len(n.targets) == 1 and chain(n.targets[0]) == name and isinstance(n.value, ast.List):
                base = n.value.elts if base is None else False
            if isinstance(n, ast.AugAssign) and chain(n.target) == name and isinstance(n.op, ast.Add) and isinstance(n.value, ast.List):
                par = getattr(n, "_parent", None)
                if isinstance(par, ast.If) and src(par.test) == f"{st}.paired" and ext is None:
                    ext = n.value.elts
                else:
                    ext = False
        return base, ext

    # the two lists by what they are, not by their names: the header holds only string literals, the fields do not
    lists = {}
    for n in ast.walk(mr):
        if isinstance(n, ast.Assign) and len(n.targets) == 1 and isinstance(n.targets[0], ast.Name) and isinstance(n.value, ast.List) and len(n.value.elts) >= 5:
            lists[n.targets[0].id] = all(isinstance(e, ast.Constant) and isinstance(e.value, str) for e in n.value.elts)
    hnames = [k for k, v in lists.items() if v]
    fnames = [k for k, v in lists.items() if not v]
    if len(hnames) != 1 or len(fnames) != 1:
        raise Unrecognised(f"minimal_report: header list {hnames} / field list {fnames} not identified", repo.loc(mr))
    fb, fe = collect(fnames[0])
    hb, he = collect(hnames[0])
    if not fb or not hb or fe in (None, False) or he in (None, False) or len(fb) != len(hb) or len(fe) != len(he):
        raise Unrecognised("minimal_report: 'fields' and 'header' lists (literal + paired extension of equal lengths) not found", repo.loc(mr))
    bad = []
    n = 0
    for h, f in list(zip(hb, fb)) + list(zip(he, fe)):
        if not (isinstance(h, ast.Constant) and isinstance(h.value, str)):
            raise Unrecognised("minimal_report: non-literal header entry", repo.loc(mr))
        if h.value == "status":
            continue
        want = _MINIMAL_COLUMNS.get(h.value)
        if want is None:
            bad.append({"column": h.value, "problem": "no documented meaning on record"})
            continue
        n += 1
        got = nsrc(src(_resolve_properties(repo, "Statistics", f, st)))
        exp = nsrc(want.replace("S.", st + "."))
        if got != exp:
            bad.append({"column": h.value, "shows": got, "documented": exp})
    report.ob("C04.R7", "minimal_report columns", not bad and n >= 12, facts={"columns": n, "problems": bad[:3]}, cases=n, loc=repo.loc(mr),
              expected="each column shows its documented tally (doc/guide.rst, 'Minimal report'), e.g. out_bp = bases written to R1, out2_bp = bases written to R2",
              why=(f"column {bad[0]['column']} shows {bad[0].get('shows')}, documented is {bad[0].get('documented')}" if bad else ""))


_OUTPUT_OPTIONS = ("output", "paired_output", "untrimmed_output", "untrimmed_paired_output", "too_short_output", "too_short_paired_output",
                   "too_long_output", "too_long_paired_output", "rest_file", "info_file", "wildcard_file")
_NORMALISERS = ("os.path.realpath", "realpath")  # abspath/normpath do not see through symbolic links (and normpath not even through a relative spelling)


def r7_report_sections(repo, report):
    """The text report prints an optional quantity in a block guarded by  stats.X is not None . Everything such a block
    shows belongs to X (X itself, its fraction, its per-read parts): a block that reads a sibling quantity prints one
    tally under the other's label."""
    fn = repo.func("report", "full_report")
    sp = params(fn)[0]
    n = 0
    for node in ast.walk(fn):
        if not (isinstance(node, ast.If) and isinstance(node.test, ast.Compare) and len(node.test.ops) == 1 and isinstance(node.test.ops[0], ast.IsNot) and (chain(node.test.left) or "").startswith(sp + ".")
                and isinstance(node.test.comparators[0], ast.Constant) and node.test.comparators[0].value is None):
            continue
        x = chain(node.test.left)[len(sp) + 1:]
        shown = sorted({chain(a)[len(sp) + 1:] for st in node.body for a in ast.walk(st) if isinstance(a, ast.Attribute) and (chain(a) or "").startswith(sp + ".")})
        if not shown:
            continue
        n += 1
        foreign = [y for y in shown if not y.startswith(x) and y != "paired"]
        report.ob("C04.R7", f"full_report: the block of {x} shows {x}", not foreign, facts={"reads": shown}, loc=repo.loc(node), expected=f"only {sp}.{x}* (and {sp}.paired) inside `if {sp}.{x} is not None`",
                  why=(f"the section guarded by {x} prints {sp}.{foreign[0]}: the per-read lines under one label are the other trimmer's numbers" if foreign else ""))
    report.floor("C04.R7", "optional sections of the text report", n, 2)


def r8_duplicate_paths(repo, report):
    from ..localroles import cli_main
    m = cli_main(repo)
    cs = [x for x in ast.walk(m) if isinstance(x, ast.Call) and chain(x.func) == "complain_about_duplicate_paths"]
    given = set()
    if len(cs) == 1 and cs[0].args and isinstance(cs[0].args[0], (ast.List, ast.Tuple)):
        given = {chain(e).split(".", 1)[1] for e in cs[0].args[0].elts if chain(e) and "." in chain(e)}
    missing = [o for o in _OUTPUT_OPTIONS if o not in given]
    report.ob("C04.R8", "main checks every output option for repeated paths", len(cs) == 1 and not missing, facts={"checked": sorted(given), "missing": missing}, loc=repo.loc(cs[0]) if cs else repo.loc(m),
              expected="complain_about_duplicate_paths([... all eleven output options ...]) before any file is opened",
              why=(f"--{missing[0].replace('_', '-')} is not part of the duplicate check" if missing else ""))
    fn = repo.func("cli", "complain_about_duplicate_paths")
    if fn is None:
        raise Unrecognised("cli.complain_about_duplicate_paths not found")
    loops = [x for x in ast.walk(fn) if isinstance(x, ast.For) and isinstance(x.target, ast.Name)]
    if len(loops) != 1:
        raise Unrecognised("complain_about_duplicate_paths: one loop over the paths expected", repo.loc(fn))
    lp = loops[0]
    v = lp.target.id
    from ..repo import expand
    tests = [x for x in ast.walk(lp) if isinstance(x, ast.Compare) and len(x.ops) == 1 and isinstance(x.ops[0], ast.In) and isinstance(x.comparators[0], ast.Name)]
    adds = [x for x in ast.walk(lp) if isinstance(x, ast.Call) and isinstance(x.func, ast.Attribute) and x.func.attr == "add" and len(x.args) == 1]
    seen = {src(t.comparators[0]) for t in tests} & {src(a.func.value) for a in adds}

    def normalised(e):
        e = expand(fn, e)
        if isinstance(e, ast.Call) and chain(e.func) in _NORMALISERS and e.args and chain(e.args[0]) == v:
            return True
        if isinstance(e, ast.Call) and isinstance(e.func, ast.Attribute) and e.func.attr == "resolve" and v in src(e.func.value):
            return True
        return False

    t_ok = [t for t in tests if src(t.comparators[0]) in seen]
    a_ok = [a for a in adds if src(a.func.value) in seen]
    facts = {"membership_test": [src(expand(fn, t.left)) for t in t_ok], "stored": [src(expand(fn, a.args[0])) for a in a_ok]}
    raises = any(isinstance(par, ast.If) and any(isinstance(r_, ast.Raise) for r_ in par.body) for t in t_ok for par in [getattr(t, "_parent", None)])
    ok = len(t_ok) == 1 and len(a_ok) == 1 and normalised(t_ok[0].left) and normalised(a_ok[0].args[0]) and raises
    report.ob("C04.R8", "complain_about_duplicate_paths compares normalised paths", ok, facts=facts, loc=repo.loc(fn),
              expected="if norm(path) in seen: raise ...; seen.add(norm(path)) with norm = os.path.realpath (or Path.resolve): the form in which two names of one file are equal",
              why="" if ok else "paths are not compared in resolved form: 'out.fq' and \"$PWD/out.fq\" (or the same file through a symbolic link) name one file but pass the check, the file is opened twice and records of one writer overwrite the other's")


def r8_claimed_before_open(repo, report):
    """File names built from {name} templates are not known when the options are checked.  OutputFiles is the one place
    every output file is opened: each open for writing must be preceded by a claim of the path, and the claim must refuse
    a resolved path it has seen before (regular files only)."""
    from ..repo import expand
    cls = repo.cls("OutputFiles")
    opens = []
    for mname, fn in cls.methods.items():
        for x in ast.walk(fn):
            if isinstance(x, ast.Call) and (chain(x.func) or "").endswith(".xopen") and len(x.args) >= 2 and isinstance(x.args[1], ast.Constant) and str(x.args[1].value).startswith("w"):
                opens.append((mname, fn, x))
    unclaimed = []
    claimers = set()
    for mname, fn, x in opens:
        pathv = chain(x.args[0])
        claims = [c_ for c_ in ast.walk(fn) if isinstance(c_, ast.Call) and isinstance(c_.func, ast.Attribute) and chain(c_.func.value) == "self" and c_.args and chain(c_.args[0]) == pathv and c_.lineno < x.lineno
                  and c_.func.attr in cls.methods and c_.func.attr != mname]
        if not claims:
            unclaimed.append(f"{mname}: {src(x)[:60]}")
        claimers |= {c_.func.attr for c_ in claims}
    report.ob("C04.R8", "OutputFiles: every file opened for writing is claimed first", bool(opens) and not unclaimed and len(claimers) == 1, facts={"opens": len(opens), "unclaimed": unclaimed[:3], "claim_method": sorted(claimers)}, loc=repo.loc(cls.node),
              expected="self._claim(path) before each self._file_opener.xopen(path, 'w…')",
              why=(f"{unclaimed[0]} opens a file without a duplicate check: a name produced by a {{name}} template that equals another output file name is opened twice, one writer overwrites the other and the reads are reported as written" if unclaimed else ""))
    if len(claimers) != 1:
        return
    cm = cls.methods[next(iter(claimers))]
    pv = params(cm)[1]
    sets = {chain(x.comparators[0]) for x in ast.walk(cm) if isinstance(x, ast.Compare) and len(x.ops) == 1 and isinstance(x.ops[0], ast.In) and (chain(x.comparators[0]) or "").startswith("self.")}
    adds = [x for x in ast.walk(cm) if isinstance(x, ast.Call) and isinstance(x.func, ast.Attribute) and x.func.attr == "add" and chain(x.func.value) in sets]
    tests = [x for x in ast.walk(cm) if isinstance(x, ast.Compare) and len(x.ops) == 1 and isinstance(x.ops[0], ast.In) and chain(x.comparators[0]) in sets]

    def resolved(e):
        e = expand(cm, e)
        return isinstance(e, ast.Call) and chain(e.func) in ("os.path.realpath", "realpath") and e.args and chain(e.args[0]) == pv

    raises = any(isinstance(par, ast.If) and any(isinstance(r_, ast.Raise) for r_ in par.body) for t in tests for par in [getattr(t, "_parent", None)])
    ok = len(tests) == 1 and len(adds) == 1 and resolved(tests[0].left) and resolved(adds[0].args[0]) and raises
    # when does a claim do nothing?  only for 'no path', '-', and things that EXIST and are not regular files (FIFO, /dev/null)
    from ..absint import Obj as _Obj, explore as _explore

    def _hk(ex, node, env):
        cn = chain(node.func)
        if cn in ("os.path.exists", "os.path.isfile", "os.path.isdir", "os.path.islink"):
            return _Obj(f"{cn.split('.')[-1].upper()}")
        if cn in ("os.path.realpath", "realpath"):
            return _Obj("RESOLVED", nonnull=True)
        return None

    try:
        crow = _explore(repo, strip_docstring(cm.body), {"self": _Obj("self", nonnull=True), pv: _Obj("PATH")}, call_hook=_hk, inline=False)
    except Unrecognised as u:
        crow = None
        report.unrecognised("C04.R8", "OutputFiles: which paths a claim ignores", u.what, repo.loc(cm))
    if crow is not None:
        wrong = []
        for r in crow:
            v = r.valuation
            did = "raise" if r.exit[0] == "raise" else ("add" if any(e[0] == "call" and e[1].endswith(".add") for e in r.effects) else "ignore")
            nopath = v.get("isnone:PATH") is True or v.get("eq:PATH:'-'") is True
            special = v.get("truthy:EXISTS") is True and v.get("truthy:ISFILE") is False
            if did == "ignore" and not (nopath or special):
                wrong.append({"path_condition": r.describe()["valuation"], "claim": "ignored"})
        report.ob("C04.R8", "OutputFiles: a claim ignores only 'no path', '-' and existing non-regular files", not wrong, facts={"paths": len(crow), "problems": wrong[:2]}, loc=repo.loc(cm),
                  expected="return without registering only if path is None / '-' or (os.path.exists(path) and not os.path.isfile(path))",
                  why=(f"under {wrong[0]['path_condition']} the path is not registered: a file that does not exist yet (every fresh output) is never claimed, so the second writer on it is not refused" if wrong else ""))
    report.ob("C04.R8", "OutputFiles: a claim refuses a path it has seen, in resolved form", ok, facts={"test": src(expand(cm, tests[0].left)) if tests else None, "stored": src(expand(cm, adds[0].args[0])) if adds else None, "raises": raises}, loc=repo.loc(cm),
              expected="resolved = os.path.realpath(path); if resolved in self._claimed: raise ...; self._claimed.add(resolved)")
    # the set of claimed paths is the instance's own, empty when the run starts: a class-level container is one object for
    # every OutputFiles of the process, and a second run (main() called again, a test suite, a notebook) is refused its
    # own files
    for sname in sorted(sets):
        attr = sname.split(".", 1)[1]
        init = cls.methods.get("__init__")
        fresh = [n for n in (strip_docstring(init.body) if init else []) if isinstance(n, (ast.Assign, ast.AnnAssign)) and chain(n.targets[0] if isinstance(n, ast.Assign) else n.target) == sname and n.value is not None
                 and ((isinstance(n.value, ast.Call) and chain(n.value.func) == "set" and not n.value.args) or (isinstance(n.value, ast.Set) and not n.value.elts))]
        class_level = [src(n)[:60] for n in cls.node.body if isinstance(n, (ast.Assign, ast.AnnAssign)) and chain(n.targets[0] if isinstance(n, ast.Assign) else n.target) == attr and getattr(n, "value", None) is not None]
        okf = len(fresh) == 1 and not class_level
        report.ob("C04.R8", f"OutputFiles: {sname} starts empty with every instance", okf, facts={"in __init__": [src(n) for n in fresh], "class_level": class_level}, loc=repo.loc(cls.node),
                  expected=f"{sname} = set() as an unconditional statement of __init__, no class-level container of that name",
                  why=("" if okf else f"{sname} is {'a class attribute (' + class_level[0] + ')' if class_level else 'not created in __init__'}: every OutputFiles object of the process shares one set that is never emptied, so a second run with the same {{name}} template is refused all of its output files"))
