"""C09 - Best-adapter choice, repeated rounds and linked adapters follow the rules."""
from __future__ import annotations

import ast
import re

from ..absint import Const, Obj, Tup, explore, vkey
from ..core import Unrecognised
from ..lin import Lin
from . import builder_rules
from ..repo import chain, params, src, strip_docstring, calls, assigning_stmts
from ..tables import Bool, Sign, check_table, SKIP


def run(repo, report, tier):
    report.rule("C09.R1", "MultipleAdapters.match_to replaces the best match iff it is the first, has a higher score, or has an equal score and fewer errors; adapters are tried in the order given (no re-ordering unless an index is built)",
                "ties go to the later adapter or to more errors; the adapter given first no longer wins")
    report.rule("C09.R2", "rounds: range(self.times) iterations, each searching the sequence of what the previous round left, stopping at the first round without match, each match appended once; the times==1/trim specialisation equals the general routine and is installed under exactly that condition",
                "--times searches the untrimmed read again, or continues after a miss")
    report.rule("C09.R4", "linked adapter: None iff a required part is missing or nothing was found; the 3' part is searched in sequence[front_match.trim_slice()] when the 5' part matched, else in the full sequence",
                "a read is trimmed although a required part is missing, or the 3' adapter is found inside the removed 5' part")
    report.rule("C09.R5", "linked defaults: -g requires both parts, -a requires a part iff it has a placement restriction, explicit required/optional wins; each side's parameters, class and sequence come from its own specification",
                "documented defaults of A...B are inverted or taken from the other side")
    report.rule("C09.R6", "a read counts as trimmed (with_adapters, info.matches) iff the applied match list is non-empty",
                "reads count as trimmed although a required linked part was missing")
    report.guard("C09.R1", "MultipleAdapters.match_to", r1_best, repo, report)
    report.guard("C09.R1", "adapter cutters of the two reads", r1_sibling_cutters, repo, report)
    report.guard("C09.R2", "AdapterCutter.match_and_trim", r2_rounds, repo, report)
    report.guard("C09.R4", "LinkedAdapter.match_to", r4_linked, repo, report)
    report.guard("C09.R4", "LinkedMatch score and errors", r4_linked_totals, repo, report)
    report.guard("C09.R5", "parser._make_linked_adapter", r5_defaults, repo, report)
    report.guard("C09.R6", "AdapterCutter.__call__", r6_trimmed, repo, report)


def _cur_hook(ex, node, env):
    f = node.func
    if isinstance(f, ast.Attribute) and f.attr == "match_to" and len(node.args) == 1:
        recv = vkey(ex.ev(f.value, env))
        x = vkey(ex.ev(node.args[0], env))
        ex.calls.append((f"{recv}.match_to({x})", node, f"{recv}.match_to"))
        return Obj("CUR")
    return None


def r1_best(repo, report):
    cls = repo.cls("MultipleAdapters")
    c, fn = repo.need_method("MultipleAdapters", "match_to")
    loops = [s for s in fn.body if isinstance(s, ast.For)]
    if len(loops) != 1:
        raise Unrecognised("MultipleAdapters.match_to: expected one loop", repo.loc(fn))
    lp = loops[0]
    it = chain(lp.iter)
    ret = [s for s in fn.body if isinstance(s, ast.Return)]
    best = chain(ret[-1].value) if ret else None
    init = [s for s in fn.body if isinstance(s, ast.Assign) and chain(s.targets[0]) == best and isinstance(s.value, ast.Constant) and s.value.value is None]
    if not best or not init:
        raise Unrecognised("MultipleAdapters.match_to: best variable (initialised None, returned) not found", repo.loc(fn))
    ps = params(fn)
    env = {"self": Obj("self", nonnull=True), ps[1]: Obj("SEQ"), best: Obj("BEST"), lp.target.id: Obj("ADAPTER", nonnull=True)}
    # Values carried from one iteration to the next besides the best match itself (e.g. its score kept in a local):
    # a name assigned in the loop body whose value at the START of an iteration is read on some path.
    assigned = sorted({n.id for st in lp.body for n in ast.walk(st) if isinstance(n, ast.Name) and isinstance(n.ctx, ast.Store)} - {best, lp.target.id})
    probe_env = dict(env)
    for v in assigned:
        probe_env[v] = Obj(f"CARRIED_{v}")
    probe = explore(repo, lp.body, probe_env, call_hook=_cur_hook, inline=False, loop_mode="forbid")
    carried = [v for v in assigned if any(f"CARRIED_{v}" in k for r in probe for k in r.valuation)]
    if carried:
        # each carried value must be a faithful copy of one attribute of the best match: refreshed on EVERY path that
        # replaces the best match, untouched otherwise.  Then it can be read as BEST.<attribute>.
        stale = []
        for v in carried:
            attrs = set()
            for r in probe:
                now = vkey(r.env.get(v))
                replaced = vkey(r.env[best]) == "CUR"
                if replaced:
                    if now == f"CARRIED_{v}":
                        # not assigned on this path: fine iff the path condition says it already equals the new match's value
                        eq = [k for k, val in r.valuation.items() if k.startswith("sign:") and val == 0 and f"CARRIED_{v}" in k and k.count("CUR.") == 1]
                        if len(eq) == 1:
                            m_ = re.search(r"CUR\.(\w+)", eq[0])
                            rest = eq[0][5:].replace(m_.group(0), "").replace(f"CARRIED_{v}", "")
                            if rest.strip("-+ ") == "":
                                now = m_.group(0)
                    attrs.add(now)
                elif now != f"CARRIED_{v}":
                    stale.append({"variable": v, "problem": "changed although the best match is kept", "value": now})
            good = {a for a in attrs if a.startswith("CUR.")}
            if len(attrs) != 1 or not good:
                stale.append({"variable": v, "problem": "not refreshed on every path that replaces the best match", "values_when_replaced": sorted(attrs)})
            else:
                env[v] = Obj("BEST." + next(iter(good))[4:])
        report.ob("C09.R1", "MultipleAdapters.match_to: values cached from the best match follow it", not stale, facts={"carried": carried, "problems": stale[:3]},
                  expected="a local that holds the score/errors of the best match is assigned on every path that assigns the best match", loc=repo.loc(lp),
                  why=(f"{stale[0]['variable']}: {stale[0]['problem']}: later adapters are compared with the values of an earlier best match" if stale else ""))
        if stale:
            carried = []
            env = {"self": Obj("self", nonnull=True), ps[1]: Obj("SEQ"), best: Obj("BEST"), lp.target.id: Obj("ADAPTER", nonnull=True)}
        # first iteration: the cached values still have their initial contents; the first match must be taken whatever they are
        first_env = dict(env)
        first_env[best] = Const(None)
        for v in (carried if not stale else []):
            pre = [st for st in fn.body if isinstance(st, ast.Assign) and any(isinstance(t, ast.Name) and t.id == v for t in st.targets) and isinstance(st.value, ast.Constant)]
            first_env[v] = Const(pre[-1].value.value) if pre else Obj(f"UNBOUND_{v}")
        frows = explore(repo, lp.body, first_env, call_hook=_cur_hook, inline=False, loop_mode="forbid") if not stale else []
        fbad = [r.describe()["valuation"] for r in frows if (r.valuation.get("isnone:CUR") is True) != (vkey(r.env[best]) != "CUR")]
        report.ob("C09.R1", "MultipleAdapters.match_to: the first match found is taken", not fbad, facts={"rows": len(frows), "problems": fbad[:2]}, expected="with no best match yet, any match becomes the best match", loc=repo.loc(lp))
        if not stale:
            env[best] = Obj("BEST", nonnull=True)
    rows = explore(repo, lp.body, env, call_hook=_cur_hook, inline=False, loop_mode="forbid")
    report.saw(function="MultipleAdapters.match_to", file=cls.module.relpath, valuations=len(rows))
    roles = {"miss": Bool("isnone:CUR"), "first": Bool("isnone:BEST", values=(False,)) if carried else Bool("isnone:BEST"),
             "ds": Sign(Lin.atom("CUR.score") - Lin.atom("BEST.score")), "de": Sign(Lin.atom("CUR.errors") - Lin.atom("BEST.errors"))}

    def outcome(r):
        return "replace" if vkey(r.env[best]) == "CUR" else "keep" if vkey(r.env[best]) == "BEST" else vkey(r.env[best])

    def exp(rv):
        if rv["miss"]:
            return "keep"
        return "replace" if (rv["first"] or rv["ds"] > 0 or (rv["ds"] == 0 and rv["de"] < 0)) else "keep"

    mism, n, _ = check_table(rows, roles, exp, outcome)
    report.ob("C09.R1", "MultipleAdapters.match_to selection", not mism, facts={"rows": len(rows), "mismatches": mism[:4]},
              expected="replace iff first, higher score, or equal score and fewer errors (first wins full ties)", loc=repo.loc(lp), cases=n,
              why=(f"for {mism[0]['inputs']} the code does '{mism[0]['code']}', expected '{mism[0]['expected']}'" if mism else ""))
    early = sorted({r.exit[0] for r in rows if r.exit[0] in ("break", "return", "raise")})
    report.ob("C09.R1", "MultipleAdapters.match_to tries every adapter", not early, facts={"exits_of_the_loop_body": sorted({r.exit[0] for r in rows})}, loc=repo.loc(lp),
              expected="the loop over the adapters has no break/return: a later adapter may still have a higher score",
              why=(f"the loop body can end with '{early[0]}': adapters listed after that point are not tried, so an adapter with a strictly higher score loses to an earlier one" if early else ""))
    searched = sorted({c[0] for r in rows for c in r.calls if c[2].endswith(".match_to")})
    report.ob("C09.R1", "MultipleAdapters.match_to order and argument", it == "self._adapters" and searched == ["ADAPTER.match_to(SEQ)"], facts={"iterates": src(lp.iter), "calls": searched},
              expected="for adapter in self._adapters: adapter.match_to(sequence)", loc=repo.loc(lp))
    c2, init_fn = repo.need_method("MultipleAdapters", "__init__")
    ip = params(init_fn)
    st = [n for n in ast.walk(init_fn) if isinstance(n, ast.Assign) and chain(n.targets[0]) == "self._adapters"]
    report.ob("C09.R1", "MultipleAdapters keeps the given order", len(st) == 1 and chain(st[0].value) == ip[1], facts={"stored": src(st[0].value) if st else None}, expected=f"self._adapters = {ip[1]}", loc=repo.loc(init_fn))
    # AdapterCutter: index=False -> the given list; regrouping only when an index is really built
    c3, ac_init = repo.need_method("AdapterCutter", "__init__")
    ap = params(ac_init)
    env = {"self": Obj("self", nonnull=True)}
    for p in ap[1:]:
        env[p] = Obj(p.upper())
    ifs = assigning_stmts(ac_init, "self.adapters")
    if len(ifs) != 1:
        raise Unrecognised("AdapterCutter.__init__: MultipleAdapters construction not found", repo.loc(ac_init))
    rows = explore(repo, [ifs[0]], env, inline=False)
    idxname = [p for p in ap if "index" in p]
    tbl = {}
    for r in rows:
        v = [e[2] for e in r.effects if e[0] == "store" and e[1] == "self.adapters"]
        tbl[str(r.valuation.get(f"truthy:{idxname[0].upper()}"))] = v[-1] if v else None
    adp = ap[1].upper()
    ok = tbl.get("False") == f"MultipleAdapters({adp})" and tbl.get("True") == f"MultipleAdapters(self._regroup_into_indexed_adapters({adp}))"
    # ... and what reaches that statement under the parameter's name is the parameter: not rebound, not edited
    pname = ap[1]
    edits = []
    for n in ast.walk(ac_init):
        if isinstance(n, ast.Name) and n.id == pname and isinstance(n.ctx, (ast.Store, ast.Del)):
            edits.append(f"line {n.lineno}: {pname} is rebound")
        if isinstance(n, ast.Call) and isinstance(n.func, ast.Attribute) and chain(n.func.value) == pname and n.func.attr in ("remove", "pop", "sort", "reverse", "clear", "insert", "append", "extend"):
            edits.append(f"line {n.lineno}: {src(n)[:50]}")
        if isinstance(n, (ast.Assign, ast.Delete)) and any(isinstance(t, ast.Subscript) and chain(t.value) == pname for t in n.targets):
            edits.append(f"line {n.lineno}: {src(n)[:50]}")
    report.ob("C09.R1", "AdapterCutter adapter list is the list it was given", not edits, facts={"edits": edits}, loc=repo.loc(ac_init), expected=f"'{pname}' is only read in AdapterCutter.__init__",
              why=(f"{edits[0]}: adapters that were given are not searched, or in another order - an adapter given twice with different parameters (ADAPTER;e=0 and ADAPTER;e=0.2) is a different adapter" if edits else ""))
    # the same for the number of rounds and the action: what --times / --action say is what is stored
    for pn in [x for x in ap[2:] if x in ("times", "action")]:
        rebound = [f"line {n.lineno}" for n in ast.walk(ac_init) if isinstance(n, ast.Name) and n.id == pn and isinstance(n.ctx, (ast.Store, ast.Del))]
        stores = [src(n.value) for n in ast.walk(ac_init) if isinstance(n, (ast.Assign, ast.AnnAssign)) and n.value is not None and any(chain(t) == f"self.{pn}" for t in (n.targets if isinstance(n, ast.Assign) else [n.target]))]
        okp = not rebound and stores == [pn]
        report.ob("C09.R2" if pn == "times" else "C09.R1", f"AdapterCutter stores the given '{pn}'", okp, facts={"rebound": rebound, "stores": stores}, loc=repo.loc(ac_init), expected=f"self.{pn} = {pn}, the parameter not reassigned",
                  why=("" if okp else f"'{pn}' is changed before it is stored ({(rebound or stores)[0]}): " + ("the number of rounds is not the one asked for - an anchored adapter can match again after the first copy was removed (-g ^ACGT -n 2 on ACGTACGT...)" if pn == "times" else "another action than the requested one is applied")))
    report.ob("C09.R1", "AdapterCutter adapter list", ok, facts=tbl, expected={"index=False": "MultipleAdapters(adapters)", "index=True": "MultipleAdapters(self._regroup_into_indexed_adapters(adapters))"}, loc=repo.loc(ifs[0]))
    c4, rg = repo.need_method("AdapterCutter", "_regroup_into_indexed_adapters")
    rp = params(rg)

    def split_hook(ex, node, env):
        if chain(node.func) == "self._split_adapters":
            return Tup([Obj("PREFIX"), Obj("SUFFIX"), Obj("SINGLE")])
        return None

    rows = explore(repo, strip_docstring(rg.body), {"self": Obj("self", nonnull=True), rp[1]: Obj("GIVEN")}, call_hook=split_hook, inline=False)
    roles = {"p": Sign(Lin.atom("len(PREFIX)") - 1), "s": Sign(Lin.atom("len(SUFFIX)") - 1)}

    def outcome(r):
        v = vkey(r.exit[1]) if r.exit[0] == "return" else r.exit[0]
        return "given" if v == "GIVEN" else "regrouped"

    mism, n, _ = check_table(rows, roles, lambda rv: "regrouped" if (rv["p"] > 0 or rv["s"] > 0) else "given", outcome)
    report.ob("C09.R1", "AdapterCutter._regroup_into_indexed_adapters", not mism, facts={"mismatches": mism}, expected="the given list is returned unchanged unless more than one anchored 5' or more than one anchored 3' adapter is index-eligible",
              loc=repo.loc(rg), cases=n, why=(f"with {mism[0]['inputs']} the adapters are {mism[0]['code']}" if mism else ""))


    # in the regrouped case every given adapter is still searched exactly once: each group appears once, either as an
    # index over the group (more than one member) or member by member
    bad = []
    for r in rows:
        if outcome(r) != "regrouped":
            continue
        base = vkey(r.exit[1])
        adds = [e[2] for e in r.effects if e[0] == "call" and e[1] in (f"{base}.append", f"{base}.extend")]
        have = {"PREFIX": [], "SUFFIX": [], "SINGLE": [base] if base == "SINGLE" else []}
        for a_ in adds:
            for g in ("PREFIX", "SUFFIX", "SINGLE"):
                if f"({g})" in a_:
                    have[g].append(a_)
        pj, sj = r.valuation.get("sign:len(PREFIX)-1"), r.valuation.get("sign:len(SUFFIX)-1")
        want = {"PREFIX": f"{base}.append(IndexedPrefixAdapters(PREFIX))" if pj == 1 else f"{base}.extend(PREFIX)",
                "SUFFIX": f"{base}.append(IndexedSuffixAdapters(SUFFIX))" if sj == 1 else f"{base}.extend(SUFFIX)"}
        for g in ("PREFIX", "SUFFIX"):
            if have[g] != [want[g]]:
                bad.append({"group": g, "members": {1: "more than one", 0: "one", -1: "none"}.get(pj if g == "PREFIX" else sj), "added": have[g], "expected": want[g]})
        if base != "SINGLE" and len(have["SINGLE"]) != 1:
            bad.append({"group": "SINGLE", "added": have["SINGLE"]})
    report.ob("C09.R1", "AdapterCutter._regroup_into_indexed_adapters keeps every adapter", not bad, facts={"problems": bad[:3]},
              expected="result = the other adapters + (index over the anchored 5' group if it has more than one member, else its members) + the same for the anchored 3' group", loc=repo.loc(rg), cases=len(rows),
              why=(f"the {bad[0]['group']} group is added as {bad[0]['added']}, expected {bad[0].get('expected')}" if bad else ""))


def r2_rounds(repo, report):
    cls = repo.cls("AdapterCutter")
    c, fn = repo.need_method("AdapterCutter", "match_and_trim")
    ps = params(fn)
    loops = [s for s in strip_docstring(fn.body) if isinstance(s, ast.For)]
    if len(loops) != 1:
        raise Unrecognised("match_and_trim: rounds loop not found", repo.loc(fn))
    lp = loops[0]
    report.ob("C09.R2", "rounds loop bound", src(lp.iter) == "range(self.times)", facts={"iter": src(lp.iter)}, expected="range(self.times)", loc=repo.loc(lp))
    # the loop variable carrying the read: assigned before the loop from the parameter
    pre = {}
    for s in strip_docstring(fn.body):
        if s is lp:
            break
        if isinstance(s, ast.Assign) and isinstance(s.targets[0], ast.Name):
            pre[s.targets[0].id] = s.value

    def hook(ex, node, env):
        f = node.func
        if isinstance(f, ast.Attribute) and f.attr == "match_to":
            x = vkey(ex.ev(node.args[0], env))
            ex.calls.append((f"match_to({x})", node, "match_to"))
            return Obj("MATCH")
        return None

    carriers = [n for n, v in pre.items() if chain(v) == ps[1]]
    lists = [n for n, v in pre.items() if isinstance(v, ast.List) and not v.elts]
    if len(carriers) != 1 or len(lists) != 1:
        raise Unrecognised(f"match_and_trim: carrier {carriers} / match list {lists} not identified", repo.loc(fn))
    cur, ml = carriers[0], lists[0]
    env = {"self": Obj("self", nonnull=True), ps[1]: Obj("READ", nonnull=True), cur: Obj("CURRENT", nonnull=True), ml: Obj("MATCHLIST", nonnull=True)}
    rows = explore(repo, lp.body, env, call_hook=hook, inline=False, loop_mode="forbid")
    bad = []
    for r in rows:
        none = r.valuation.get("isnone:MATCH")
        searched = [c[0] for c in r.calls if c[2] == "match_to"]
        if searched != ["match_to(CURRENT.sequence)"]:
            bad.append(("searched", searched))
        app = [e[2] for e in r.effects if e[0] == "call" and e[1] == "MATCHLIST.append"]
        if none:
            if r.exit[0] != "break" or app:
                bad.append(("miss must break without appending", r.describe()))
        else:
            if app != ["MATCHLIST.append(MATCH)"] or vkey(r.env[cur]) != "MATCH.trimmed(CURRENT)" or r.exit[0] != "fall":
                bad.append(("hit", app, vkey(r.env[cur]), r.exit[0]))
    report.saw(function="AdapterCutter.match_and_trim", file=cls.module.relpath, valuations=len(rows))
    report.ob("C09.R2", "one round", not bad, facts={"problems": [str(b)[:200] for b in bad[:3]]}, expected="match = adapters.match_to(current.sequence); None -> break; else append once and current = match.trimmed(current)", loc=repo.loc(lp), cases=len(rows),
              why=str(bad[0])[:200] if bad else "")
    # specialisation == general routine at times=1, action='trim'
    c2, sp = repo.need_method("AdapterCutter", "_match_and_trim_once_action_trim")
    sps = params(sp)

    def run(f, pnames, extra):
        e = {"self": Obj("self", nonnull=True), pnames[1]: Obj("READ", nonnull=True)}
        e.update(extra)
        rs = explore(repo, strip_docstring(f.body), e, call_hook=hook, inline=False)
        return {str(r.valuation.get("isnone:MATCH")): (vkey(r.exit[1]) if r.exit[0] == "return" else r.exit[0]) for r in rs}, rs

    gen, grows = run(fn, ps, {"self.times": Lin.k(1), "self.action": Const("trim")})
    spec, srows = run(sp, sps, {})
    searched_g = sorted({c[0] for r in grows for c in r.calls if c[2] == "match_to"})
    searched_s = sorted({c[0] for r in srows for c in r.calls if c[2] == "match_to"})
    ok = gen == spec and searched_g == searched_s == ["match_to(READ.sequence)"] and gen.get("True") == "(READ, [])" and gen.get("False") == "(MATCH.trimmed(READ), [MATCH])"
    report.ob("C09.R2", "times==1/trim specialisation equals the general routine", ok, facts={"general": gen, "specialised": spec}, expected={"True": "(READ, [])", "False": "(MATCH.trimmed(READ), [MATCH])"}, loc=repo.loc(sp))
    c3, init = repo.need_method("AdapterCutter", "__init__")
    inst = [n for n in ast.walk(init) if isinstance(n, ast.If) and any(isinstance(x, ast.Assign) and chain(x.targets[0]) == "self.match_and_trim" for x in n.body)]
    if len(inst) != 1:
        report.ob("C09.R2", "specialisation installed", False if not inst else None, facts={"sites": len(inst)}, expected="one conditional installation", loc=repo.loc(init))
    else:
        rows = explore(repo, [inst[0]], {"self": Obj("self", nonnull=True)}, inline=False)
        roles = {"t": Sign(Lin.atom("self.times") - 1), "a": Bool("eq:self.action:'trim'")}
        mism, n, _ = check_table(rows, roles, lambda rv: rv["t"] == 0 and rv["a"], lambda r: any(e[0] == "store" and e[1] == "self.match_and_trim" and e[2].endswith("_match_and_trim_once_action_trim") for e in r.effects))
        report.ob("C09.R2", "specialisation installed iff times == 1 and action == 'trim'", not mism, facts={"mismatches": mism}, expected="installed iff times == 1 and action == 'trim'", loc=repo.loc(inst[0]), cases=n)


def r4_linked(repo, report):
    cls = repo.cls("LinkedAdapter")
    c, fn = repo.need_method("LinkedAdapter", "match_to")
    ps = params(fn)

    def hook(ex, node, env):
        f = node.func
        if isinstance(f, ast.Attribute) and f.attr == "match_to":
            recv = vkey(ex.ev(f.value, env))
            x = vkey(ex.ev(node.args[0], env))
            ex.calls.append((f"{recv}.match_to({x})", node, f"{recv}.match_to"))
            if recv == "self.front_adapter":
                return Obj("FM")
            if recv == "self.back_adapter":
                return Obj("BM")
        return None

    rows = explore(repo, strip_docstring(fn.body), {"self": Obj("self", nonnull=True), ps[1]: Obj("SEQ", nonnull=True)}, call_hook=hook, inline=False)
    report.saw(function="LinkedAdapter.match_to", file=cls.module.relpath, valuations=len(rows))
    roles = {"f_miss": Bool("isnone:FM"), "b_miss": Bool("isnone:BM"), "f_req": Bool("truthy:self.front_required"), "b_req": Bool("truthy:self.back_required")}

    def outcome(r):
        v = r.exit[1]
        if r.exit[0] != "return":
            return r.exit[0]
        return "None" if isinstance(v, Const) and v.value is None else vkey(v)

    def exp(rv):
        if (rv["f_req"] and rv["f_miss"]) or (rv["b_req"] and rv["b_miss"]) or (rv["f_miss"] and rv["b_miss"]):
            return "None"
        return "LinkedMatch(FM, BM, self)"

    def norm(r):
        o = outcome(r)
        if o == "None":
            return o
        # normalise: the match object is built from (front, back, self)
        o = o.replace("Const(None)", "None")
        return o

    def exp2(rv):
        e = exp(rv)
        if e == "None":
            return e
        f = "None" if rv["f_miss"] else "FM"
        b = "None" if rv["b_miss"] else "BM"
        return f"LinkedMatch({f}, {b}, self)"

    def out2(r):
        o = norm(r)
        if o == "None":
            return o
        f = "None" if r.valuation.get("isnone:FM") else "FM"
        b = "None" if r.valuation.get("isnone:BM") else "BM"
        return o.replace("LinkedMatch(FM, BM, self)", f"LinkedMatch({f}, {b}, self)")

    # a match is returned only after BOTH parts were searched (a required 3' part cannot be known to be present otherwise)
    unsearched = [r.describe()["valuation"] for r in rows if norm(r) != "None" and r.exit[0] == "return" and not any(c[2] == "self.back_adapter.match_to" for c in r.calls)]
    report.ob("C09.R4", "LinkedAdapter.match_to searches the 3' part before it returns a match", not unsearched, facts={"paths_returning_a_match_without_searching_the_3prime_part": unsearched[:2]},
              expected="every path that returns a LinkedMatch has called back_adapter.match_to", loc=repo.loc(fn),
              why="" if not unsearched else "a match is returned without looking for the 3' part: when that part is required the read is trimmed although the required part is missing")
    try:
        mism, n, _ = check_table(rows, roles, exp2, out2)
    except Unrecognised as u:
        report.unrecognised("C09.R4", "LinkedAdapter.match_to result", u.what, repo.loc(fn))
        mism, n = [], 0
    report.ob("C09.R4", "LinkedAdapter.match_to result", not mism, facts={"rows": len(rows), "mismatches": mism[:4]}, expected="None iff a required part is missing or nothing matched; else LinkedMatch(front, back, self)", loc=repo.loc(fn), cases=n,
              why=(f"for {mism[0]['inputs']}: code '{mism[0]['code']}', expected '{mism[0]['expected']}'" if mism else ""))
    bad = []
    for r in rows:
        fm = r.valuation.get("isnone:FM")
        bc = [c[0] for c in r.calls if c[2] == "self.back_adapter.match_to"]
        fc = [c[0] for c in r.calls if c[2] == "self.front_adapter.match_to"]
        if fc != ["self.front_adapter.match_to(SEQ)"]:
            bad.append(("front search", fc))
        if bc:
            want = "self.back_adapter.match_to(SEQ)" if fm else "self.back_adapter.match_to(SEQ[FM.trim_slice()])"
            if bc != [want]:
                bad.append(("back search", bc, want))
    report.ob("C09.R4", "LinkedAdapter.match_to search regions", not bad, facts={"problems": [str(b) for b in bad[:3]]}, expected="front on the whole sequence; back on sequence[front_match.trim_slice()] iff the front matched", loc=repo.loc(fn), why=str(bad[0]) if bad else "")


def r5_defaults(repo, report):
    fn = repo.func("parser", "_make_linked_adapter")
    ps = params(fn)
    counter = {"n": 0}

    def hook(ex, node, env):
        f = node.func
        cn = chain(f)
        if cn == "AdapterSpecification.parse" and len(node.args) == 2:
            a = [vkey(ex.ev(x, env)) for x in node.args]
            side = a[1].strip("'")
            return Obj(f"SPEC[{side}]({a[0]})", nonnull=True)
        if isinstance(f, ast.Attribute) and f.attr == "copy" and not node.args:
            counter["n"] += 1
            base = vkey(ex.ev(f.value, env))
            return Obj(f"COPY@{node.lineno}({base})", nonnull=True)
        if isinstance(f, ast.Attribute) and f.attr == "adapter_class" and not node.args:
            return Obj(f"CLASS({vkey(ex.ev(f.value, env))})", nonnull=True)
        return None

    env = {p: Obj(p.upper()) for p in ps}
    rows = explore(repo, strip_docstring(fn.body), env, call_hook=hook, inline=False)
    report.saw(function="parser._make_linked_adapter", file="src/cutadapt/parser.py", valuations=len(rows))
    s1, s2 = ps[0].upper(), ps[1].upper()
    FS, BS = f"SPEC[front]({s1})", f"SPEC[back]({s2})"
    typ = ps[3].upper()
    roles = {"anywhere": Bool(f"eq:{typ}:'anywhere'"), "front": Bool(f"eq:{typ}:'front'"), "f_restr": Bool(f"isnone:{FS}.restriction", negate=True), "b_restr": Bool(f"isnone:{BS}.restriction", negate=True)}

    def outcome(r):
        if r.exit[0] == "raise":
            return "raise"
        k = vkey(r.exit[1]) if r.exit[0] == "return" else r.exit[0]
        ta = builder_rules.term_args(repo, k)
        fr = re.match(r"(COPY@\d+)\([^)]*\)\.pop\('required', (True|False)\)$", str(ta.get("front_required", "")))
        br = re.match(r"(COPY@\d+)\([^)]*\)\.pop\('required', (True|False)\)$", str(ta.get("back_required", "")))
        if not fr or not br:
            return f"shape:{k}"
        return (fr.group(2), br.group(2))

    def exp(rv):
        if rv["anywhere"]:
            return "raise"
        if rv["front"]:
            return ("True", "True")
        return (str(rv["f_restr"]), str(rv["b_restr"]))

    def constraint(rv):
        return not (rv["anywhere"] and rv["front"])

    # parameters that are rejected for linked adapters ('anywhere', a file-level 'rightmost') end in ValueError (C18.R3);
    # the defaults table is about the specifications that are accepted
    rejected_keys = [k for r in rows for k in r.valuation if k.startswith("in:'anywhere':") or k.startswith("in:'rightmost':")]
    rows = [r for r in rows if not any(r.valuation.get(k) is True for k in rejected_keys)]
    # the two flags are what the side's parameters say, with the documented default: X.pop('required', default). Anything
    # else on some path (the popped value combined with something, a constant) is not the documented rule.
    shapes = sorted({o for o in (outcome(r) for r in rows if r.exit[0] == "return") if isinstance(o, str) and o.startswith("shape:")})
    if shapes:
        ta = builder_rules.term_args(repo, shapes[0][len("shape:"):])
        report.ob("C09.R5", "required/optional defaults", False, facts={"front_required": str(ta.get("front_required"))[:120], "back_required": str(ta.get("back_required"))[:120]}, loc=repo.loc(fn), cases=len(rows),
                  expected="front_required / back_required = <that side's parameters>.pop('required', <documented default>)",
                  why=f"front_required={str(ta.get('front_required'))[:90]}, back_required={str(ta.get('back_required'))[:90]}: an explicit ;optional / ;required in the specification no longer decides alone")
        return
    # the table is evaluated for each of the three values a placement restriction can have (None, 'anchored',
    # 'noninternal'), so that the code may ask about the restriction in any way it likes (is not None, ==, in (...))
    mism, n = [], 0
    roles2 = {k: v for k, v in roles.items() if k in ("anywhere", "front")}
    for fr in (None, "anchored", "noninternal"):
        for br in (None, "anchored", "noninternal"):
            env2 = dict(env)
            env2[f"{FS}.restriction"] = Const(fr)
            env2[f"{BS}.restriction"] = Const(br)
            rows2 = explore(repo, strip_docstring(fn.body), env2, call_hook=hook, inline=False)
            rows2 = [r for r in rows2 if not any(r.valuation.get(k) is True for k in rejected_keys)]
            m2, n2, _ = check_table(rows2, roles2, lambda rv, fr=fr, br=br: exp(dict(rv, f_restr=fr is not None, b_restr=br is not None)), outcome, constraint=constraint,
                                    ignore_atoms=[f"isnone:{ps[2].upper()}"] + sorted(set(rejected_keys)))
            for m_ in m2:
                m_["inputs"] = dict(m_["inputs"], front_restriction=fr, back_restriction=br) if isinstance(m_["inputs"], dict) else f"{m_['inputs']} front restriction={fr} back restriction={br}"
            mism += m2
            n += n2
    report.ob("C09.R5", "required/optional defaults", not mism, facts={"rows": len(rows), "mismatches": mism[:4]},
              expected="-g: (required, required); -a: (front restricted?, back restricted?); an explicit 'required' entry of that side's parameters overrides (pop with the default); -b raises", loc=repo.loc(fn), cases=n,
              why=(f"for {mism[0]['inputs']}: code {mism[0]['code']}, expected {mism[0]['expected']}" if mism else ""))
    # sides: every ingredient of a side comes from its own specification and its own parameter copy
    bad = []
    for r in rows:
        if r.exit[0] != "return":
            continue
        k = vkey(r.exit[1])
        ups = [(e[1], e[2]) for e in r.effects if e[0] == "call" and e[1].endswith(".update")]
        copies = {}
        for tgt, full in ups:
            cp = tgt[:-len(".update")]
            arg = full[len(tgt) + 1:-1]
            copies[cp] = arg
        fcopy = [c for c, a in copies.items() if a == f"{FS}.parameters"]
        bcopy = [c for c, a in copies.items() if a == f"{BS}.parameters"]
        if len(fcopy) != 1 or len(bcopy) != 1 or fcopy == bcopy:
            bad.append(("parameter copies", copies))
            continue
        ta = builder_rules.term_args(repo, k)
        fa, ba = str(ta.get("front_adapter", "")), str(ta.get("back_adapter", ""))
        if not str(ta.get("front_required", "")).startswith(f"{fcopy[0]}.pop('required'") or not str(ta.get("back_required", "")).startswith(f"{bcopy[0]}.pop('required'"):
            bad.append(("required popped from the wrong side", k[:300]))
        if not fa.startswith(f"CLASS({FS})({FS}.sequence") or f"**{fcopy[0]}" not in fa:
            bad.append(("front adapter ingredients", k[:300]))
        if not ba.startswith(f"CLASS({BS})({BS}.sequence") or f"**{bcopy[0]}" not in ba:
            bad.append(("back adapter ingredients", k[:300]))
        if not all(c.endswith(f"({ps[4].upper()})") for c in (fcopy[0], bcopy[0])):
            bad.append(("copies are not copies of the global search parameters", copies))
    report.ob("C09.R5", "each side built from its own specification", not bad, facts={"problems": [str(b)[:300] for b in bad[:3]]},
              expected="front: class/sequence/parameters of parse(spec1,'front'); back: of parse(spec2,'back'); each over its own copy of the global parameters", loc=repo.loc(fn), why=str(bad[0])[:200] if bad else "")


def r6_trimmed(repo, report):
    from .c16 import _hook

    cls = repo.cls("AdapterCutter")
    c, fn = repo.need_method("AdapterCutter", "__call__")
    ps = params(fn)

    def hook(ex, node, env):
        if chain(node.func) == "self.match_and_trim" and len(node.args) == 1:
            x = vkey(ex.ev(node.args[0], env))
            return Tup([Obj(f"TRIM({x})", nonnull=True), Obj(f"MATCHES({x})", nonnull=True)])
        return None

    rows = explore(repo, strip_docstring(fn.body), {"self": Obj("self", nonnull=True), ps[1]: Obj("READ", nonnull=True), ps[2]: Obj("INFO", nonnull=True)}, call_hook=hook, inline=False)
    bad = []
    for r in rows:
        has = r.valuation.get("truthy:MATCHES(READ)")
        wa = [e for e in r.effects if e[0] == "aug" and e[1] == "self.with_adapters"]
        adds = [e for e in r.effects if e[0] == "call" and e[1].endswith(".add_match")]
        ext = [e[2] for e in r.effects if e[0] == "call" and e[1] == "INFO.matches.extend"]
        ret = vkey(r.exit[1]) if r.exit[0] == "return" else r.exit[0]
        if ret != "TRIM(READ)":
            bad.append(("return", ret))
        if has:
            if len(wa) != 1 or wa[0][2] != "+1" or wa[0][4]:
                bad.append(("with_adapters", [e[:3] for e in wa]))
            if len(adds) != 1 or not adds[0][4] or "self.adapter_statistics[item(MATCHES(READ)).adapter].add_match(item(MATCHES(READ)))" != adds[0][2]:
                bad.append(("add_match", [e[2] for e in adds]))
            if ext != ["INFO.matches.extend(MATCHES(READ))"]:
                bad.append(("info.matches", ext))
        else:
            if wa or adds:
                bad.append(("registered without match", r.describe()))
            if ext not in ([], ["INFO.matches.extend(MATCHES(READ))"]):
                bad.append(("info.matches", ext))
    report.saw(function="AdapterCutter.__call__", valuations=len(rows))
    report.ob("C09.R6", "AdapterCutter.__call__", not bad and len(rows) == 2, facts={"paths": len(rows), "problems": [str(b)[:200] for b in bad[:3]]},
              expected="with_adapters += 1 and one add_match per match (on the statistics of its own adapter) iff matches; info.matches extended by the same list", loc=repo.loc(fn), cases=len(rows), why=str(bad[0])[:200] if bad else "")


def r4_linked_totals(repo, report):
    """A linked match competes with other adapters (R1) through its score and errors: both must be the sums over the
    parts that were found."""
    cls = repo.cls("LinkedMatch")
    for prop_name in ("score", "errors"):
        fn = cls.methods.get(prop_name)
        if fn is None:
            report.unrecognised("C09.R4", f"LinkedMatch.{prop_name}", "property not found", repo.loc(cls.node))
            continue
        rows = explore(repo, strip_docstring(fn.body), {"self": Obj("self", nonnull=True)}, inline=False)
        bad = []
        for r in rows:
            f, b = r.valuation.get("isnone:self.front_match"), r.valuation.get("isnone:self.back_match")
            if f is None:
                f = {True: False, False: True}.get(r.valuation.get("truthy:self.front_match"))
            if b is None:
                b = {True: False, False: True}.get(r.valuation.get("truthy:self.back_match"))
            if f is None or b is None:
                bad.append(("a part is added without testing whether it was found", r.describe()["valuation"]))
                continue
            want = Lin.k(0)
            if f is False:
                want = want + Lin.atom(f"self.front_match.{prop_name}")
            if b is False:
                want = want + Lin.atom(f"self.back_match.{prop_name}")
            got = vkey(r.exit[1]) if r.exit[0] == "return" else r.exit[0]
            if got != want.key():
                bad.append(({"front found": not f, "back found": not b}, got, want.key()))
        report.ob("C09.R4", f"LinkedMatch.{prop_name}", not bad and len(rows) == 4, facts={"paths": len(rows), "problems": [str(x)[:200] for x in bad[:2]]},
                  expected=f"sum of the {prop_name} of the parts that were found", loc=repo.loc(fn), cases=len(rows), why=str(bad[0])[:200] if bad else "")


def r1_sibling_cutters(repo, report):
    """The R1 and the R2 adapter cutter are configured alike (rounds, action, index switch): every AdapterCutter(...) term
    of the builder model has the same arguments after its adapter list."""
    import re as _re

    from . import builder_rules

    terms = set()
    for paired in (False, True):
        mdl = builder_rules.model(repo, paired)
        for bi, ri, pos, val, sl in mdl.slots("modifiers"):
            for mm in _re.finditer(r"(?<![A-Za-z])AdapterCutter\((adapters2?)((?:, [^()]*)?)\)", sl.key):
                terms.add((mm.group(1), mm.group(2)))
    tails = {t for _, t in terms}
    c, init = repo.need_method("AdapterCutter", "__init__")
    np_ = len(params(init)) - 2
    ok = len(tails) == 1 and {a for a, _ in terms} == {"adapters", "adapters2"} and next(iter(tails)).count(",") == np_
    report.ob("C09.R1", "R1 and R2 adapter cutters get the same configuration", ok, facts={"terms": sorted(f"AdapterCutter({a}{t})" for a, t in terms)},
              expected=f"AdapterCutter(adapters, times, action, index) and AdapterCutter(adapters2, <the same {np_} arguments>)", loc="src/cutadapt/cli.py",
              why="" if ok else "one read's cutter falls back to a default (e.g. index=True under --no-index): ties between adapters are then resolved differently for R1 and R2")
