"""
Front end for the four Cython modules: parse with Cython's own parser and lower
the resulting tree to the stdlib ``ast`` node vocabulary (the common IR, "uast",
of DESIGN.md section 3.1 is realised as plain ``ast`` nodes so that every analysis
treats .py and .pyx alike).

Lowering conventions
* ``cdef``/``cpdef`` functions and ``def`` functions -> ``ast.FunctionDef``; the
  C type of each parameter is kept as a string annotation.
* ``cdef`` variable declarations -> ``ast.AnnAssign`` (annotation = C type as a
  string constant, pointer depth as trailing ``*``); a declaration with an
  initialiser keeps it as the value.
* ``cdef class`` / ``class`` -> ``ast.ClassDef``; ``cdef struct`` ->
  ``ast.ClassDef`` decorated with ``__cstruct__``; ``property x:`` blocks ->
  ``ast.ClassDef`` decorated with ``__property__``.
* ``<T> e`` -> ``__cast__('T', e)``; ``sizeof(T)`` -> ``__sizeof__('T')``;
  ``NULL`` -> ``Name('NULL')``.
* ``with nogil:`` / ``with gil:`` -> ``ast.With`` on ``Name('nogil'|'gil')``.
* ``for i in range(..)`` stays a ``For`` over a ``range`` call.
* cimports and ``cdef extern`` blocks are recorded as ``ast.Pass`` (they carry no
  behaviour the rules need).
Any Cython node class outside the inventory made at design time raises
``LoweringError`` (=> ANALYSIS-ERROR, exit 2), never a silent skip.
"""
from __future__ import annotations

import ast


class LoweringError(Exception):
    pass


_BINOPS = {
    "+": ast.Add, "-": ast.Sub, "*": ast.Mult, "/": ast.Div, "//": ast.FloorDiv,
    "%": ast.Mod, "**": ast.Pow, "<<": ast.LShift, ">>": ast.RShift,
    "|": ast.BitOr, "&": ast.BitAnd, "^": ast.BitXor, "@": ast.MatMult,
}
_CMPOPS = {
    "==": ast.Eq, "!=": ast.NotEq, "<": ast.Lt, "<=": ast.LtE, ">": ast.Gt,
    ">=": ast.GtE, "is": ast.Is, "is_not": ast.IsNot, "is not": ast.IsNot,
    "in": ast.In, "not_in": ast.NotIn, "not in": ast.NotIn,
}


def _pos(node, new):
    pos = getattr(node, "pos", None)
    if pos:
        new.lineno = pos[1]
        new.col_offset = pos[2]
        new.end_lineno = pos[1]
        new.end_col_offset = pos[2]
    else:
        new.lineno = 0
        new.col_offset = 0
    return new


class Lowerer:
    def __init__(self, filename: str):
        self.filename = filename

    # ---- types -----------------------------------------------------------
    def ctype(self, base_type, declarator=None) -> str:
        s = self._base_type(base_type)
        d = declarator
        stars = ""
        while d is not None and type(d).__name__ == "CPtrDeclaratorNode":
            stars += "*"
            d = d.base
        if d is not None and type(d).__name__ == "CArrayDeclaratorNode":
            stars += "[]"
        return s + stars

    def _base_type(self, t) -> str:
        n = type(t).__name__
        if n == "CSimpleBaseTypeNode":
            name = t.name if t.name is not None else "object"
            if not t.signed:
                name = "unsigned " + name
            return name
        if n == "CQualifierTypeNode" or n == "CConstOrVolatileTypeNode":
            return "const " + self._base_type(t.base_type)
        if n == "TemplatedTypeNode":
            return self._base_type(t.base_type_node) + "[]"
        if n == "CConstTypeNode":
            return "const " + self._base_type(t.base_type)
        raise LoweringError(f"{self.filename}: unknown type node {n} at {getattr(t, 'pos', None)}")

    def declname(self, d):
        while type(d).__name__ in ("CPtrDeclaratorNode", "CArrayDeclaratorNode", "CFuncDeclaratorNode", "CReferenceDeclaratorNode"):
            d = d.base
        if type(d).__name__ != "CNameDeclaratorNode":
            raise LoweringError(f"{self.filename}: unknown declarator {type(d).__name__}")
        return d

    # ---- statements ------------------------------------------------------
    def module(self, tree) -> ast.Module:
        body = self.stmts(tree.body)
        m = ast.Module(body=body, type_ignores=[])
        return m

    def stmts(self, node) -> list:
        if node is None:
            return []
        n = type(node).__name__
        if n == "StatListNode":
            out = []
            for s in node.stats:
                out.extend(self.stmts(s))
            return out
        r = self.stmt(node)
        if r is None:
            return []
        if isinstance(r, list):
            return r
        return [r]

    def body(self, node) -> list:
        b = self.stmts(node)
        if not b:
            b = [_pos(node, ast.Pass())] if node is not None else [ast.Pass(lineno=0, col_offset=0)]
        return b

    def stmt(self, node):
        n = type(node).__name__
        m = getattr(self, "s_" + n, None)
        if m is None:
            raise LoweringError(f"{self.filename}: unsupported statement node {n} at {getattr(node, 'pos', None) and node.pos[1:]}")
        return m(node)

    def s_FromCImportStatNode(self, node):
        return _pos(node, ast.Pass())

    def s_CImportStatNode(self, node):
        return _pos(node, ast.Pass())

    def s_FromImportStatNode(self, node):
        mod = node.module
        level = getattr(mod, "level", 0) or 0
        modname = mod.module_name.value if mod.module_name is not None else None
        names = [ast.alias(name=name, asname=(target.name if target.name != name else None)) for name, target in node.items]
        return _pos(node, ast.ImportFrom(module=modname, names=names, level=level))

    def s_CDefExternNode(self, node):
        return _pos(node, ast.Pass())

    def s_CTypeDefNode(self, node):
        d = self.declname(node.declarator)
        tgt = _pos(node, ast.Name(id=d.name, ctx=ast.Store()))
        val = _pos(node, ast.Call(func=_pos(node, ast.Name(id="__ctypedef__", ctx=ast.Load())),
                                  args=[_pos(node, ast.Constant(value=self.ctype(node.base_type, node.declarator)))], keywords=[]))
        return _pos(node, ast.Assign(targets=[tgt], value=val))

    def s_CStructOrUnionDefNode(self, node):
        body = []
        for a in node.attributes or []:
            body.extend(self.stmts(a))
        if not body:
            body = [_pos(node, ast.Pass())]
        return _pos(node, ast.ClassDef(name=node.name, bases=[], keywords=[], body=body,
                                       decorator_list=[_pos(node, ast.Name(id="__cstruct__", ctx=ast.Load()))], type_params=[]))

    def s_CVarDefNode(self, node):
        out = []
        for d in node.declarators:
            if type(d).__name__ == "CFuncDeclaratorNode" or (
                type(d).__name__ == "CPtrDeclaratorNode" and type(d.base).__name__ == "CFuncDeclaratorNode"
            ):
                # extern function prototype
                out.append(_pos(node, ast.Pass()))
                continue
            nd = self.declname(d)
            ann = _pos(node, ast.Constant(value=self.ctype(node.base_type, d)))
            val = self.expr(nd.default) if nd.default is not None else None
            tgt = _pos(d, ast.Name(id=nd.name, ctx=ast.Store()))
            a = ast.AnnAssign(target=tgt, annotation=ann, value=val, simple=1)
            out.append(_pos(d if val is not None else node, a))
        return out

    def _args(self, args, star=None, starstar=None):
        a = ast.arguments(posonlyargs=[], args=[], vararg=None, kwonlyargs=[], kw_defaults=[], kwarg=None, defaults=[])
        for arg in args:
            d = arg.declarator
            nd = self.declname(d)
            name = nd.name
            bt = arg.base_type
            ann = None
            if name == "" or name is None:
                # "def f(self, x)": untyped args are parsed as type name
                name = bt.name
            else:
                ann = _pos(arg, ast.Constant(value=self.ctype(bt, d)))
            if getattr(arg, "annotation", None) is not None and ann is None:
                try:
                    ann = self.expr(arg.annotation.expr if hasattr(arg.annotation, "expr") else arg.annotation)
                except LoweringError:
                    ann = None
            ar = _pos(arg, ast.arg(arg=name, annotation=ann))
            default = arg.default
            if arg.kw_only:
                a.kwonlyargs.append(ar)
                a.kw_defaults.append(self.expr(default) if default is not None else None)
            else:
                a.args.append(ar)
                if default is not None:
                    a.defaults.append(self.expr(default))
        if star is not None:
            a.vararg = _pos(star, ast.arg(arg=star.name, annotation=None))
        if starstar is not None:
            a.kwarg = _pos(starstar, ast.arg(arg=starstar.name, annotation=None))
        return a

    def s_DefNode(self, node):
        decos = []
        for d in node.decorators or []:
            decos.append(self.expr(d.decorator))
        f = ast.FunctionDef(name=node.name, args=self._args(node.args, node.star_arg, node.starstar_arg),
                            body=self._fbody(node), decorator_list=decos, returns=None, type_comment=None, type_params=[])
        return _pos(node, f)

    def _fbody(self, node):
        body = self.body(node.body)
        doc = getattr(node, "doc", None)
        if doc:
            body = [_pos(node, ast.Expr(value=_pos(node, ast.Constant(value=str(doc)))))] + body
        return body

    def s_CFuncDefNode(self, node):
        decl = node.declarator
        while type(decl).__name__ != "CFuncDeclaratorNode":
            decl = decl.base
        nd = self.declname(decl)
        ret = self.ctype(node.base_type, node.declarator if type(node.declarator).__name__ == "CPtrDeclaratorNode" else None)
        f = ast.FunctionDef(name=nd.name, args=self._args(decl.args), body=self._fbody(node),
                            decorator_list=[_pos(node, ast.Name(id="__cdef__", ctx=ast.Load()))],
                            returns=_pos(node, ast.Constant(value=ret)), type_comment=None, type_params=[])
        return _pos(node, f)

    def s_CClassDefNode(self, node):
        bases = []
        if getattr(node, "bases", None) is not None:
            for b in node.bases.args:
                bases.append(self.expr(b))
        body = self.body(node.body)
        if node.doc:
            body = [_pos(node, ast.Expr(value=_pos(node, ast.Constant(value=str(node.doc)))))] + body
        return _pos(node, ast.ClassDef(name=node.class_name, bases=bases, keywords=[], body=body,
                                       decorator_list=[_pos(node, ast.Name(id="__cclass__", ctx=ast.Load()))], type_params=[]))

    def s_PyClassDefNode(self, node):
        bases = []
        if node.bases is not None:
            for b in node.bases.args:
                bases.append(self.expr(b))
        body = self.body(node.body)
        if node.doc:
            body = [_pos(node, ast.Expr(value=_pos(node, ast.Constant(value=str(node.doc)))))] + body
        return _pos(node, ast.ClassDef(name=node.name, bases=bases, keywords=[], body=body, decorator_list=[], type_params=[]))

    def s_PropertyNode(self, node):
        return _pos(node, ast.ClassDef(name=node.name, bases=[], keywords=[], body=self.body(node.body),
                                       decorator_list=[_pos(node, ast.Name(id="__property__", ctx=ast.Load()))], type_params=[]))

    def s_IfStatNode(self, node):
        clauses = node.if_clauses
        orelse = self.stmts(node.else_clause) if node.else_clause is not None else []
        res = None
        for c in reversed(clauses):
            res = _pos(c, ast.If(test=self.expr(c.condition), body=self.body(c.body), orelse=orelse))
            orelse = [res]
        return res

    def s_RaiseStatNode(self, node):
        exc = self.expr(node.exc_type) if node.exc_type is not None else None
        if node.exc_value is not None:
            raise LoweringError(f"{self.filename}: three-argument raise")
        cause = self.expr(node.cause) if node.cause is not None else None
        return _pos(node, ast.Raise(exc=exc, cause=cause))

    def s_ForInStatNode(self, node):
        it = node.iterator
        seq = it.sequence if type(it).__name__ == "IteratorNode" else it
        return _pos(node, ast.For(target=self.expr(node.target, store=True), iter=self.expr(seq), body=self.body(node.body),
                                  orelse=self.stmts(node.else_clause) if node.else_clause is not None else [], type_comment=None))

    def s_WhileStatNode(self, node):
        return _pos(node, ast.While(test=self.expr(node.condition), body=self.body(node.body),
                                    orelse=self.stmts(node.else_clause) if node.else_clause is not None else []))

    def s_SingleAssignmentNode(self, node):
        return _pos(node.lhs, ast.Assign(targets=[self.expr(node.lhs, store=True)], value=self.expr(node.rhs), type_comment=None))

    def s_CascadedAssignmentNode(self, node):
        return _pos(node, ast.Assign(targets=[self.expr(l, store=True) for l in node.lhs_list], value=self.expr(node.rhs), type_comment=None))

    def s_ParallelAssignmentNode(self, node):
        return self.stmts_list(node.stats)

    def stmts_list(self, stats):
        out = []
        for s in stats:
            out.extend(self.stmts(s))
        return out

    def s_InPlaceAssignmentNode(self, node):
        return _pos(node.lhs, ast.AugAssign(target=self.expr(node.lhs, store=True), op=_BINOPS[node.operator](), value=self.expr(node.rhs)))

    def s_ReturnStatNode(self, node):
        return _pos(node, ast.Return(value=self.expr(node.value) if node.value is not None else None))

    def s_ExprStatNode(self, node):
        return _pos(node, ast.Expr(value=self.expr(node.expr)))

    def s_AssertStatNode(self, node):
        return _pos(node, ast.Assert(test=self.expr(node.condition), msg=self.expr(node.value) if node.value is not None else None))

    def s_BreakStatNode(self, node):
        return _pos(node, ast.Break())

    def s_ContinueStatNode(self, node):
        return _pos(node, ast.Continue())

    def s_PassStatNode(self, node):
        return _pos(node, ast.Pass())

    def s_GILStatNode(self, node):
        item = ast.withitem(context_expr=_pos(node, ast.Name(id=node.state, ctx=ast.Load())), optional_vars=None)
        return _pos(node, ast.With(items=[item], body=self.body(node.body), type_comment=None))

    def s_StatListNode(self, node):
        return self.stmts(node)

    # ---- expressions -----------------------------------------------------
    def expr(self, node, store=False):
        n = type(node).__name__
        m = getattr(self, "e_" + n, None)
        if m is None:
            raise LoweringError(f"{self.filename}: unsupported expression node {n} at {getattr(node, 'pos', None) and node.pos[1:]}")
        r = m(node)
        if store:
            self._set_store(r)
        return r

    def _set_store(self, r):
        if isinstance(r, (ast.Name, ast.Attribute, ast.Subscript, ast.Starred)):
            r.ctx = ast.Store()
        if isinstance(r, (ast.Tuple, ast.List)):
            r.ctx = ast.Store()
            for e in r.elts:
                self._set_store(e)

    def e_NameNode(self, node):
        return _pos(node, ast.Name(id=node.name, ctx=ast.Load()))

    def e_AttributeNode(self, node):
        return _pos(node, ast.Attribute(value=self.expr(node.obj), attr=node.attribute, ctx=ast.Load()))

    def e_IndexNode(self, node):
        return _pos(node, ast.Subscript(value=self.expr(node.base), slice=self.expr(node.index), ctx=ast.Load()))

    def e_SliceIndexNode(self, node):
        sl = _pos(node, ast.Slice(lower=self.expr(node.start) if node.start is not None else None,
                                  upper=self.expr(node.stop) if node.stop is not None else None, step=None))
        return _pos(node, ast.Subscript(value=self.expr(node.base), slice=sl, ctx=ast.Load()))

    def e_SliceNode(self, node):
        def opt(x):
            if x is None or type(x).__name__ == "NoneNode":
                return None
            return self.expr(x)
        return _pos(node, ast.Slice(lower=opt(node.start), upper=opt(node.stop), step=opt(node.step)))

    def e_SimpleCallNode(self, node):
        return _pos(node, ast.Call(func=self.expr(node.function), args=[self.expr(a) for a in node.args], keywords=[]))

    def e_GeneralCallNode(self, node):
        args = [self.expr(a) for a in node.positional_args.args] if type(node.positional_args).__name__ == "TupleNode" else [
            _pos(node, ast.Starred(value=self.expr(node.positional_args), ctx=ast.Load()))]
        kws = []
        if node.keyword_args is not None:
            for kv in node.keyword_args.key_value_pairs:
                kws.append(ast.keyword(arg=kv.key.value, value=self.expr(kv.value)))
        return _pos(node, ast.Call(func=self.expr(node.function), args=args, keywords=kws))

    def _binop(self, node):
        return _pos(node, ast.BinOp(left=self.expr(node.operand1), op=_BINOPS[node.operator](), right=self.expr(node.operand2)))

    e_AddNode = e_SubNode = e_MulNode = e_DivNode = e_IntBinopNode = e_ModNode = e_PowNode = _binop

    def e_UnaryMinusNode(self, node):
        return _pos(node, ast.UnaryOp(op=ast.USub(), operand=self.expr(node.operand)))

    def e_UnaryPlusNode(self, node):
        return self.expr(node.operand)

    def e_TildeNode(self, node):
        return _pos(node, ast.UnaryOp(op=ast.Invert(), operand=self.expr(node.operand)))

    def e_NotNode(self, node):
        return _pos(node, ast.UnaryOp(op=ast.Not(), operand=self.expr(node.operand)))

    def e_BoolBinopNode(self, node):
        op = ast.And() if node.operator == "and" else ast.Or()
        l = self.expr(node.operand1)
        r = self.expr(node.operand2)
        vals = []
        for x in (l, r):
            if isinstance(x, ast.BoolOp) and type(x.op) is type(op) and not getattr(x, "_paren", False):
                vals.extend(x.values)
            else:
                vals.append(x)
        return _pos(node, ast.BoolOp(op=op, values=[l, r]))

    def e_PrimaryCmpNode(self, node):
        ops = [_CMPOPS[node.operator]()]
        comps = [self.expr(node.operand2)]
        c = node.cascade
        while c is not None:
            ops.append(_CMPOPS[c.operator]())
            comps.append(self.expr(c.operand2))
            c = c.cascade
        return _pos(node, ast.Compare(left=self.expr(node.operand1), ops=ops, comparators=comps))

    def e_CondExprNode(self, node):
        return _pos(node, ast.IfExp(test=self.expr(node.condition), body=self.expr(node.true_val), orelse=self.expr(node.false_val)))

    def e_TypecastNode(self, node):
        t = self.ctype(node.base_type, node.declarator)
        return _pos(node, ast.Call(func=_pos(node, ast.Name(id="__cast__", ctx=ast.Load())),
                                   args=[_pos(node, ast.Constant(value=t)), self.expr(node.operand)], keywords=[]))

    def e_SizeofTypeNode(self, node):
        t = self.ctype(node.base_type, node.declarator)
        return _pos(node, ast.Call(func=_pos(node, ast.Name(id="__sizeof__", ctx=ast.Load())), args=[_pos(node, ast.Constant(value=t))], keywords=[]))

    def e_SizeofVarNode(self, node):
        o = node.operand
        arg = _pos(node, ast.Constant(value=o.name)) if type(o).__name__ == "NameNode" else self.expr(o)
        return _pos(node, ast.Call(func=_pos(node, ast.Name(id="__sizeof__", ctx=ast.Load())), args=[arg], keywords=[]))

    def e_IntNode(self, node):
        v = node.value
        try:
            val = int(v, 0)
        except ValueError:
            val = int(v.rstrip("uUlL"), 0)
        return _pos(node, ast.Constant(value=val))

    def e_FloatNode(self, node):
        return _pos(node, ast.Constant(value=float(node.value)))

    def e_BoolNode(self, node):
        return _pos(node, ast.Constant(value=bool(node.value)))

    def e_NoneNode(self, node):
        return _pos(node, ast.Constant(value=None))

    def e_NullNode(self, node):
        return _pos(node, ast.Name(id="NULL", ctx=ast.Load()))

    def e_UnicodeNode(self, node):
        return _pos(node, ast.Constant(value=str(node.value)))

    e_StringNode = e_UnicodeNode
    e_IdentifierStringNode = e_UnicodeNode

    def e_BytesNode(self, node):
        v = node.value
        if isinstance(v, str):
            v = v.encode("latin-1")
        return _pos(node, ast.Constant(value=bytes(v)))

    def e_CharNode(self, node):
        return self.e_BytesNode(node)

    def e_TupleNode(self, node):
        t = _pos(node, ast.Tuple(elts=[self.expr(a) for a in node.args], ctx=ast.Load()))
        return self._mult(node, t)

    def e_ListNode(self, node):
        t = _pos(node, ast.List(elts=[self.expr(a) for a in node.args], ctx=ast.Load()))
        return self._mult(node, t)

    def _mult(self, node, t):
        if getattr(node, "mult_factor", None) is not None:
            return _pos(node, ast.BinOp(left=t, op=ast.Mult(), right=self.expr(node.mult_factor)))
        return t

    def e_DictNode(self, node):
        keys = [self.expr(kv.key) for kv in node.key_value_pairs]
        vals = [self.expr(kv.value) for kv in node.key_value_pairs]
        return _pos(node, ast.Dict(keys=keys, values=vals))

    def e_JoinedStrNode(self, node):
        return _pos(node, ast.JoinedStr(values=[self.expr(v) for v in node.values]))

    def e_FormattedValueNode(self, node):
        return _pos(node, ast.FormattedValue(value=self.expr(node.value), conversion=-1, format_spec=None))

    def e_YieldExprNode(self, node):
        return _pos(node, ast.Yield(value=self.expr(node.arg) if node.arg is not None else None))

    def _comp_loop(self, loop):
        """Return (generators, element) for a comprehension loop nest."""
        gens = []
        cur = loop
        while True:
            n = type(cur).__name__
            if n == "ForInStatNode":
                it = cur.iterator
                seq = it.sequence if type(it).__name__ == "IteratorNode" else it
                gens.append(ast.comprehension(target=self.expr(cur.target, store=True), iter=self.expr(seq), ifs=[], is_async=0))
                cur = cur.body
            elif n == "IfStatNode":
                gens[-1].ifs.append(self.expr(cur.if_clauses[0].condition))
                cur = cur.if_clauses[0].body
            elif n == "StatListNode" and len(cur.stats) == 1:
                cur = cur.stats[0]
            elif n == "ExprStatNode":
                cur = cur.expr
            elif n == "ComprehensionAppendNode":
                return gens, self.expr(cur.expr)
            elif n == "YieldExprNode":
                return gens, self.expr(cur.arg)
            else:
                raise LoweringError(f"{self.filename}: unsupported comprehension shape {n}")

    def e_ComprehensionNode(self, node):
        gens, elt = self._comp_loop(node.loop)
        return _pos(node, ast.ListComp(elt=elt, generators=gens))

    def e_GeneratorExpressionNode(self, node):
        loop = getattr(node, "loop", None)
        if loop is None:
            raise LoweringError(f"{self.filename}: generator expression without loop")
        gens, elt = self._comp_loop(loop)
        return _pos(node, ast.GeneratorExp(elt=elt, generators=gens))


def parse_pyx_source(src: str, modname: str, path: str) -> ast.Module:
    try:
        from Cython.Compiler.TreeFragment import parse_from_strings
    except ImportError as e:  # pragma: no cover
        raise LoweringError(f"Cython's parser is not importable: {e}")
    try:
        tree = parse_from_strings(modname, src)
    except Exception as e:  # noqa: BLE001 - Cython raises CompileError and friends
        raise LoweringError(f"{path}: Cython could not parse the file: {e}")
    low = Lowerer(path)
    mod = low.module(tree)
    ast.fix_missing_locations(mod)
    return mod


def parse_pyx(path: str, modname: str) -> ast.Module:
    with open(path, encoding="utf-8") as f:
        src = f.read()
    return parse_pyx_source(src, modname, path)
