"""Role-based anchors shared by several rule modules (A0)."""
from __future__ import annotations

import ast

from .absint import Obj, explore, Const, vkey
from .core import Unrecognised
from .repo import Repo, chain, params, src, strip_docstring, walk_no_nested


def concrete_call(repo: Repo, cls_name):
    c, f = repo.method(cls_name, "__call__")
    if f is None:
        return None, None
    if any(isinstance(d, ast.Name) and d.id == "abstractmethod" for d in f.decorator_list):
        return None, None
    return c, f


def step_classes(repo: Repo):
    """All concrete pipeline step classes (subclasses of SingleEndStep / PairedEndStep)."""
    out = []
    for base, paired in (("SingleEndStep", False), ("PairedEndStep", True)):
        if base not in repo.classes:
            raise Unrecognised(f"base class {base} not found")
        for c in repo.subclasses(base):
            dc, f = concrete_call(repo, c.name)
            if f is not None:
                out.append((c, f, paired))
    return out


def returned_self_attr(repo: Repo, cls_name, method):
    """Attribute X such that <cls>.<method>() is 'return self.X' (role: the counter / statistics object)."""
    c, f = repo.method(cls_name, method)
    if f is None or any(isinstance(d, ast.Name) and d.id == "abstractmethod" for d in f.decorator_list):
        return None
    body = strip_docstring(f.body)
    if len(body) == 1 and isinstance(body[0], ast.Return) and body[0].value is not None:
        ch = chain(body[0].value)
        if ch and ch.startswith("self."):
            return ch
    return None


def call_rows(repo: Repo, cls, fn: ast.FunctionDef, extra_env=None, **kw):
    """Decision tree of a method body with self / parameters opaque."""
    env = {}
    ps = params(fn)
    for p in ps:
        if p == "self":
            env[p] = Obj("self", cls=cls.name, nonnull=True)
        else:
            env[p] = Obj(p)
    for a in fn.args.kwonlyargs:
        env[a.arg] = Obj(a.arg)
    if extra_env:
        env.update(extra_env)
    return explore(repo, strip_docstring(fn.body), env, self_cls=cls.name, **kw), ps


def summarize_accounting(row, counter_attr, stats_attr):
    """Count the accounting effects on one path: (#filtered++, #stats.update, #write, details)."""
    nf = nu = nw = 0
    writes, updates = [], []
    other_counter = []
    for e in row.effects:
        kind, tgt, val, ln, lp = e[:5]
        many = 2 if lp else 1
        if kind == "aug" and counter_attr and tgt == counter_attr:
            if val == "+1":
                nf += many
            else:
                other_counter.append((tgt, val))
                nf += 2
        elif kind == "store" and counter_attr and tgt == counter_attr:
            other_counter.append((tgt, val))
            nf += 2
        elif kind == "call":
            name = tgt
            if stats_attr and (name == stats_attr + ".update" or name == stats_attr + ".update2"):
                nu += many
                updates.append(val[len(name):])
            elif name.endswith(".write"):
                nw += many
                writes.append(val[len(name):])
    return nf, nu, nw, writes, updates, other_counter


def call_args_of(key: str) -> str:
    """'a.b(x, y)' -> 'x, y'"""
    if key.startswith("(") and key.endswith(")"):
        return key[1:-1]
    i = key.find("(")
    return key[i + 1 : -1] if i >= 0 and key.endswith(")") else ""
