"""
A4: canonical linear forms over opaque integer atoms.

A ``Lin`` is  sum(coef_i * atom_i) + const  with Fraction coefficients.  Atoms are
canonical strings of opaque terms (``len(read)``, ``self.rstart`` ...).  Equalities
and inequalities between forms are decided by normalisation only (a difference
that reduces to a constant), never by search.
"""
from __future__ import annotations

from fractions import Fraction


_NSF_CACHE: dict = {}


class Lin:
    __slots__ = ("terms", "const")

    def __init__(self, terms=None, const=0):
        t = {}
        if terms:
            for a, c in (terms.items() if isinstance(terms, dict) else terms):
                c = Fraction(c)
                if c != 0:
                    t[a] = t.get(a, Fraction(0)) + c
                    if t[a] == 0:
                        del t[a]
        self.terms = t
        self.const = Fraction(const)

    # constructors
    @staticmethod
    def atom(name: str) -> "Lin":
        return Lin({name: 1}, 0)

    @staticmethod
    def k(value) -> "Lin":
        return Lin(None, value)

    # algebra
    def __add__(self, other):
        other = _lin(other)
        t = dict(self.terms)
        for a, c in other.terms.items():
            t[a] = t.get(a, Fraction(0)) + c
        return Lin(t, self.const + other.const)

    __radd__ = __add__

    def __neg__(self):
        return Lin({a: -c for a, c in self.terms.items()}, -self.const)

    def __sub__(self, other):
        return self + (-_lin(other))

    def __rsub__(self, other):
        return _lin(other) - self

    def scale(self, k):
        k = Fraction(k)
        return Lin({a: c * k for a, c in self.terms.items()}, self.const * k)

    def __mul__(self, other):
        other = _lin(other)
        if other.is_const():
            return self.scale(other.const)
        if self.is_const():
            return other.scale(self.const)
        # product of two non-constant forms: expanded into a polynomial whose monomials x*y (factors sorted) are atoms,
        # so that (i - 1) * (n + 1) + j and i * (n + 1) + j differ by the linear form -n - 1
        out = Lin(None, self.const * other.const)
        for a, ca in self.terms.items():
            out = out + Lin({a: ca * other.const})
            for b, cb in other.terms.items():
                fa = a.split("*") if _is_product(a) else [a]
                fb = b.split("*") if _is_product(b) else [b]
                out = out + Lin({"*".join(sorted(fa + fb)): ca * cb})
        for b, cb in other.terms.items():
            out = out + Lin({b: cb * self.const})
        return out

    __rmul__ = __mul__

    def is_const(self):
        return not self.terms

    def const_value(self):
        if self.terms:
            raise ValueError("not constant")
        return self.const

    def is_int_const(self):
        return not self.terms and self.const.denominator == 1

    def __eq__(self, other):
        if not isinstance(other, (Lin, int, Fraction)):
            return NotImplemented
        other = _lin(other)
        return self.terms == other.terms and self.const == other.const

    def __hash__(self):
        return hash(self.key())

    def atoms(self):
        return sorted(self.terms)

    def key(self, paren=False) -> str:
        """Canonical text."""
        parts = []
        for a in sorted(self.terms):
            c = self.terms[a]
            if c == 1:
                parts.append(f"+{a}")
            elif c == -1:
                parts.append(f"-{a}")
            else:
                parts.append(f"{'+' if c > 0 else '-'}{_fr(abs(c))}*{a}")
        if self.const != 0 or not parts:
            parts.append(f"{'+' if self.const >= 0 else '-'}{_fr(abs(self.const))}")
        s = "".join(parts)
        if s.startswith("+"):
            s = s[1:]
        if paren and (len(self.terms) > 1 or (self.terms and self.const != 0) or s.startswith("-")):
            s = f"({s})"
        return s

    def __repr__(self):
        return f"Lin<{self.key()}>"

    def subst(self, mapping: dict) -> "Lin":
        """Substitute atoms by Lin forms."""
        out = Lin(None, self.const)
        for a, c in self.terms.items():
            if a in mapping:
                out = out + _lin(mapping[a]).scale(c)
            else:
                out = out + Lin({a: c})
        return out

    def normalised_sign_form(self):
        """
        Return (P, flipped): P is this form scaled so that the coefficient of its first
        atom (sorted) is positive and coefficients are coprime integers where possible;
        ``flipped`` tells whether the sign was inverted.  Constant forms are returned as is.
        """
        if not self.terms:
            return self, False
        ck = (tuple(sorted(self.terms.items())), self.const)
        hit = _NSF_CACHE.get(ck)
        if hit is not None:
            return hit
        res = self._normalised_sign_form()
        _NSF_CACHE[ck] = res
        return res

    def _normalised_sign_form(self):
        first = sorted(self.terms)[0]
        flipped = self.terms[first] < 0
        f = -self if flipped else self
        # scale to integer coefficients with gcd 1 (including const)
        from math import gcd

        den = 1
        for c in list(f.terms.values()) + [f.const]:
            den = den * c.denominator // gcd(den, c.denominator)
        g = 0
        for c in list(f.terms.values()) + [f.const]:
            g = gcd(g, abs(int(c * den)))
        if g == 0:
            g = 1
        f = f.scale(Fraction(den, g))
        return f, flipped


def _is_product(atom: str) -> bool:
    """a monomial made by __mul__: factors joined by '*' with no bracket nesting around the stars"""
    depth = 0
    star = False
    for ch in atom:
        if ch in "([":
            depth += 1
        elif ch in ")]":
            depth -= 1
        elif ch == "*" and depth == 0:
            star = True
    return star


def _fr(c: Fraction) -> str:
    return str(c.numerator) if c.denominator == 1 else f"{c.numerator}/{c.denominator}"


def _lin(x) -> Lin:
    if isinstance(x, Lin):
        return x
    if isinstance(x, bool):
        return Lin(None, int(x))
    if isinstance(x, (int, Fraction)):
        return Lin(None, x)
    if isinstance(x, float):
        return Lin(None, Fraction(x).limit_denominator(10**9))
    raise TypeError(f"cannot make a linear form from {x!r}")


def sign_of_const(l: Lin):
    v = l.const_value()
    return (v > 0) - (v < 0)
