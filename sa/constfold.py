"""
A5 helper: partial evaluation (constant folding) of *pure* expressions.

Only literal data and a whitelist of side-effect-free builtins / str / bytes / dict
methods are folded; anything else raises NotConstant.  This is how tables written as
expressions in the source (IntFlag members, ``A | G`` IUPAC codes, the rule that derives
a filter name from a class name, argparse ``type=lambda x: ("back", x)``) are read without
importing or running any cutadapt module.
"""
from __future__ import annotations

import ast
import operator


class NotConstant(Exception):
    pass


_BIN = {
    ast.Add: operator.add, ast.Sub: operator.sub, ast.Mult: operator.mul, ast.Div: operator.truediv,
    ast.FloorDiv: operator.floordiv, ast.Mod: operator.mod, ast.BitOr: operator.or_, ast.BitAnd: operator.and_,
    ast.BitXor: operator.xor, ast.LShift: operator.lshift, ast.RShift: operator.rshift, ast.Pow: operator.pow,
}
_CMP = {
    ast.Eq: operator.eq, ast.NotEq: operator.ne, ast.Lt: operator.lt, ast.LtE: operator.le, ast.Gt: operator.gt,
    ast.GtE: operator.ge, ast.Is: operator.is_, ast.IsNot: operator.is_not,
    ast.In: lambda a, b: a in b, ast.NotIn: lambda a, b: a not in b,
}
_PURE_BUILTINS = {
    "len": len, "int": int, "float": float, "str": str, "bool": bool, "min": min, "max": max, "abs": abs, "chr": chr,
    "ord": ord, "range": range, "dict": dict, "list": list, "tuple": tuple, "set": set, "frozenset": frozenset,
    "sorted": sorted, "sum": sum, "bytes": bytes, "bytearray": bytearray, "zip": zip, "map": map, "enumerate": enumerate,
    "reversed": reversed, "any": any, "all": all, "repr": repr, "round": round,
}
_PURE_METHODS = {
    str: {"lower", "upper", "isupper", "islower", "join", "replace", "startswith", "endswith", "strip", "lstrip", "rstrip",
          "split", "rsplit", "partition", "rpartition", "splitlines", "format", "count", "find", "rfind", "index", "encode", "title", "isdigit", "isalpha", "rjust", "ljust", "removeprefix", "removesuffix", "capitalize", "swapcase", "zfill", "center"},
    bytes: {"lower", "upper", "decode", "replace", "startswith", "endswith", "translate", "count", "find"},
    dict: {"keys", "values", "items", "get", "copy"},
    list: {"index", "count", "copy"},
    tuple: {"index", "count"},
    set: {"union", "intersection", "difference", "issubset", "issuperset", "copy"},
    frozenset: {"union", "intersection", "difference", "issubset", "issuperset"},
}


import os as _os
import posixpath as _pp

# pure string functions of the standard library, by the dotted name the analysed code uses (posix semantics, as on the systems cutadapt runs on)
_PURE_DOTTED = {"os.fspath": _os.fspath, "os.path.splitext": _pp.splitext, "os.path.basename": _pp.basename, "os.path.dirname": _pp.dirname, "os.path.split": _pp.split}
_SAFE_CALLABLES = (operator.eq, operator.and_, operator.or_, operator.ne)  # pure functions that may be passed in through env


class _Lambda:
    def __init__(self, node, env, folder):
        self.node, self.env, self.folder = node, env, folder

    def __call__(self, *args):
        names = [a.arg for a in self.node.args.args]
        if len(names) != len(args):
            raise NotConstant("lambda arity")
        e = dict(self.env)
        e.update(zip(names, args))
        return self.folder(self.node.body, e)


def fold(node, env=None):
    env = env or {}
    return _fold(node, env)


def _fold(n, env):
    if isinstance(n, ast.Constant):
        return n.value
    if isinstance(n, ast.Name):
        if n.id in env:
            return env[n.id]
        if n.id in ("True", "False", "None"):
            return {"True": True, "False": False, "None": None}[n.id]
        if n.id in _PURE_BUILTINS:
            return _PURE_BUILTINS[n.id]
        raise NotConstant(f"name {n.id}")
    if isinstance(n, ast.Attribute):
        key = _chain(n)
        if key is not None and key in env:
            return env[key]
        base = _fold(n.value, env)
        if isinstance(base, dict) and "__attrs__" in base and n.attr in base["__attrs__"]:
            return base["__attrs__"][n.attr]
        raise NotConstant(f"attribute {ast.unparse(n)}")
    if isinstance(n, ast.UnaryOp):
        v = _fold(n.operand, env)
        if isinstance(n.op, ast.USub):
            return -v
        if isinstance(n.op, ast.UAdd):
            return +v
        if isinstance(n.op, ast.Not):
            return not v
        if isinstance(n.op, ast.Invert):
            return ~v
    if isinstance(n, ast.BinOp):
        f = _BIN.get(type(n.op))
        if f is None:
            raise NotConstant("operator")
        l, r = _fold(n.left, env), _fold(n.right, env)
        if isinstance(n.op, ast.Mult) and isinstance(l, (int,)) and isinstance(r, (str, bytes, list, tuple)) and l > 10**6:
            raise NotConstant("huge repetition")
        return f(l, r)
    if isinstance(n, ast.BoolOp):
        if isinstance(n.op, ast.And):
            v = True
            for x in n.values:
                v = _fold(x, env)
                if not v:
                    return v
            return v
        v = False
        for x in n.values:
            v = _fold(x, env)
            if v:
                return v
        return v
    if isinstance(n, ast.Compare):
        l = _fold(n.left, env)
        for op, c in zip(n.ops, n.comparators):
            r = _fold(c, env)
            if not _CMP[type(op)](l, r):
                return False
            l = r
        return True
    if isinstance(n, ast.IfExp):
        return _fold(n.body, env) if _fold(n.test, env) else _fold(n.orelse, env)
    if isinstance(n, ast.Tuple):
        return tuple(_fold(e, env) for e in n.elts)
    if isinstance(n, ast.List):
        return [_fold(e, env) for e in n.elts]
    if isinstance(n, ast.Set):
        return {_fold(e, env) for e in n.elts}
    if isinstance(n, ast.Dict):
        d = {}
        for k, v in zip(n.keys, n.values):
            if k is None:
                d.update(_fold(v, env))
            else:
                d[_fold(k, env)] = _fold(v, env)
        return d
    if isinstance(n, ast.JoinedStr):
        out = ""
        for v in n.values:
            if isinstance(v, ast.Constant):
                out += str(v.value)
            elif isinstance(v, ast.FormattedValue):
                if v.format_spec is not None or v.conversion not in (-1,):
                    raise NotConstant("format spec")
                out += str(_fold(v.value, env))
        return out
    if isinstance(n, ast.Subscript):
        b = _fold(n.value, env)
        if isinstance(n.slice, ast.Slice):
            lo = _fold(n.slice.lower, env) if n.slice.lower is not None else None
            hi = _fold(n.slice.upper, env) if n.slice.upper is not None else None
            st = _fold(n.slice.step, env) if n.slice.step is not None else None
            return b[lo:hi:st]
        return b[_fold(n.slice, env)]
    if isinstance(n, ast.Lambda):
        return _Lambda(n, env, _fold)
    if isinstance(n, (ast.GeneratorExp, ast.ListComp, ast.SetComp)):
        items = list(_comp(n.generators, 0, env, lambda e: _fold(n.elt, e)))
        if isinstance(n, ast.SetComp):
            return set(items)
        return items
    if isinstance(n, ast.DictComp):
        return dict(_comp(n.generators, 0, env, lambda e: (_fold(n.key, e), _fold(n.value, e))))
    if isinstance(n, ast.Call):
        if isinstance(n.func, ast.Name) and n.func.id in _PURE_BUILTINS and n.func.id not in env:
            args = [_fold(a, env) for a in n.args]
            kw = {k.arg: _fold(k.value, env) for k in n.keywords}
            r = _PURE_BUILTINS[n.func.id](*args, **kw)
            if isinstance(r, (map, zip, enumerate, reversed)):
                r = list(r)
            return r
        if isinstance(n.func, ast.Attribute):
            dotted = _chain(n.func)
            if dotted in _PURE_DOTTED and dotted.split(".")[0] not in env:
                r = _PURE_DOTTED[dotted](*[_fold(a, env) for a in n.args])
                return list(r) if isinstance(r, tuple) else r
            recv = _fold(n.func.value, env)
            for t, names in _PURE_METHODS.items():
                if isinstance(recv, t) and n.func.attr in names:
                    args = [_fold(a, env) for a in n.args]
                    kw = {k.arg: _fold(k.value, env) for k in n.keywords}
                    r = getattr(recv, n.func.attr)(*args, **kw)
                    if not isinstance(r, (str, bytes, int, float, bool, tuple, list, dict, set, frozenset, type(None))):
                        r = list(r)
                    return r
            raise NotConstant(f"method {n.func.attr}")
        f = None
        try:
            f = _fold(n.func, env)
        except NotConstant:
            pass
        if isinstance(f, _Lambda):
            return f(*[_fold(a, env) for a in n.args])
        if f in _SAFE_CALLABLES:
            return f(*[_fold(a, env) for a in n.args])
        raise NotConstant(f"call {ast.unparse(n.func)}")
    raise NotConstant(type(n).__name__)


def _comp(gens, i, env, leaf):
    if i == len(gens):
        yield leaf(env)
        return
    g = gens[i]
    for item in _fold(g.iter, env):
        e = dict(env)
        _bind(g.target, item, e)
        if all(_fold(c, e) for c in g.ifs):
            yield from _comp(gens, i + 1, e, leaf)


def _bind(target, value, env):
    if isinstance(target, ast.Name):
        env[target.id] = value
    elif isinstance(target, (ast.Tuple, ast.List)):
        vals = list(value)
        if len(vals) != len(target.elts):
            raise NotConstant("unpack")
        for t, v in zip(target.elts, vals):
            _bind(t, v, env)
    else:
        raise NotConstant("target")


def _chain(node):
    parts = []
    while isinstance(node, ast.Attribute):
        parts.append(node.attr)
        node = node.value
    if isinstance(node, ast.Name):
        parts.append(node.id)
        return ".".join(reversed(parts))
    return None


class _Break(Exception):
    pass


class _Continue(Exception):
    pass


class _Return(Exception):
    def __init__(self, value):
        self.value = value


def fold_function(fn, env=None, max_steps=20000):
    """
    Fold a *closed* table-building function (no inputs beyond ``env``) to its return value: straight-line
    assignments, stores into local containers, ``for`` over constant iterables and ``if`` on constant tests.
    Anything else raises NotConstant.  This is constant propagation over a function without inputs, the static
    counterpart of reading a literal table.
    """
    env = dict(env or {})
    budget = [max_steps]
    body = fn.body
    if body and isinstance(body[0], ast.Expr) and isinstance(getattr(body[0], "value", None), ast.Constant) and isinstance(body[0].value.value, str):
        body = body[1:]
    try:
        _run(body, env, budget)
    except _Return as r:
        return r.value
    if "__yield__" in env:
        return env["__yield__"]  # a generator function: the list of yielded values
    return None


def _run(stmts, env, budget):
    for s in stmts:
        budget[0] -= 1
        if budget[0] < 0:
            raise NotConstant("step budget")
        if isinstance(s, ast.Assign):
            v = _fold(s.value, env)
            for t in s.targets:
                _store(t, v, env)
        elif isinstance(s, ast.AnnAssign):
            if s.value is not None:
                _store(s.target, _fold(s.value, env), env)
        elif isinstance(s, ast.AugAssign):
            f = _BIN.get(type(s.op))
            if f is None:
                raise NotConstant("operator")
            cur = _fold(s.target, env)
            _store(s.target, f(cur, _fold(s.value, env)), env)
        elif isinstance(s, ast.For):
            if s.orelse:
                raise NotConstant("for-else")
            for item in list(_fold(s.iter, env)):
                _bind(s.target, item, env)
                try:
                    _run(s.body, env, budget)
                except _Break:
                    break
                except _Continue:
                    continue
        elif isinstance(s, ast.If):
            _run(s.body if _fold(s.test, env) else s.orelse, env, budget)
        elif isinstance(s, ast.Return):
            raise _Return(_fold(s.value, env) if s.value is not None else None)
        elif isinstance(s, ast.Pass):
            pass
        elif isinstance(s, ast.Expr) and isinstance(s.value, ast.Constant):
            pass
        elif isinstance(s, ast.Expr) and isinstance(s.value, ast.Yield):
            env.setdefault("__yield__", []).append(_fold(s.value.value, env) if s.value.value is not None else None)
        elif isinstance(s, ast.Break):
            raise _Break()
        elif isinstance(s, ast.Continue):
            raise _Continue()
        elif isinstance(s, ast.Expr) and isinstance(s.value, ast.Call) and isinstance(s.value.func, ast.Attribute) and s.value.func.attr in ("append", "add", "update", "extend"):
            recv = _fold(s.value.func.value, env)
            if not isinstance(recv, (list, set, dict, bytearray)):
                raise NotConstant("mutator on non-container")
            getattr(recv, s.value.func.attr)(*[_fold(a, env) for a in s.value.args])
        elif isinstance(s, ast.Assert):
            if not _fold(s.test, env):
                raise NotConstant("assertion fails")
        else:
            raise NotConstant(type(s).__name__)


def _store(target, value, env):
    if isinstance(target, (ast.Name, ast.Tuple, ast.List)):
        _bind(target, value, env)
    elif isinstance(target, ast.Subscript):
        base = _fold(target.value, env)
        if not isinstance(base, (list, dict, bytearray)):
            raise NotConstant("store into non-container")
        base[_fold(target.slice, env)] = value
    else:
        raise NotConstant("target")
